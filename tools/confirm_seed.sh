#!/bin/bash
# usage: confirm_seed.sh <seed id> [property id]
# Confirms a sub-agent's seeded change: patch matches the worktree, demo fails with / passes without,
# the 37 baseline tests still pass with it. Copies it to /verif/seeded/<id>/ with meta.json.
ID=$1; PROP=${2:-${ID%%-*}}
WT=/tmp/wt/${ID%%-*}; SD=/tmp/seed/$ID; OUT=/verif/seeded/$ID
set -u
demo=$(ls $SD/demo.py $SD/demo.sh 2>/dev/null | head -1)
[ -z "$demo" ] && { echo "$ID: no demo"; exit 2; }
run_demo() { if [[ $demo == *.py ]]; then SRC=$1 timeout 300 /venv/bin/python $demo; else SRC=$1 timeout 300 bash $demo; fi; }
git -C $WT diff > /tmp/seed/$ID/.wt.diff
if ! diff -q <(grep -v '^index ' $SD/patch.diff) <(grep -v '^index ' /tmp/seed/$ID/.wt.diff) >/dev/null; then echo "$ID: patch.diff differs from worktree diff (using worktree diff)"; cp /tmp/seed/$ID/.wt.diff $SD/patch.diff; fi
run_demo /repo/src > $SD/.out_clean.txt 2>&1; c=$?
run_demo $WT/src > $SD/.out_seeded.txt 2>&1; s=$?
( cd $WT && PYTHONPATH=$WT/src /venv/bin/python -m pytest -q -p no:cacheprovider --timeout=900 --continue-on-collection-errors --junitxml=$SD/.junit.xml >/dev/null 2>&1 )
missing=$(python3 - "$SD/.junit.xml" <<'PY'
import json,sys,xml.etree.ElementTree as ET
b=json.load(open('/root/.vp/BASELINE.json'))['stable_pass']
res={}
for tc in ET.parse(sys.argv[1]).iter('testcase'):
    res[tc.get('classname')+'::'+tc.get('name')]=not any(c.tag in('failure','error','skipped') for c in tc)
print(len([n for n in b if not res.get(n)]))
PY
)
echo "$ID: demo clean-exit=$c seeded-exit=$s baseline-tests-failing=$missing"
if [ "$c" = 0 ] && [ "$s" != 0 ] && [ "$missing" = 0 ]; then
  mkdir -p $OUT; cp $SD/patch.diff $OUT/; cp $demo $OUT/; [ -f $SD/notes.md ] && cp $SD/notes.md $OUT/
  python3 - "$ID" "$PROP" "$c" "$s" "$(basename $demo)" <<'PY'
import json,sys
i,p,c,s,d=sys.argv[1:]
notes=open('/tmp/seed/%s/notes.md'%i).read() if __import__('os').path.exists('/tmp/seed/%s/notes.md'%i) else ''
json.dump({"id":i,"property":p,"author":"independent sub-agent given only the property text and a scratch worktree",
 "demo":d,"confirmed":{"demo_exit_on_unchanged_tree":int(c),"demo_exit_with_change":int(s),"baseline_37_tests_pass_with_change":True,
 "how":"tools/confirm_seed.sh: demo with SRC=/repo/src and SRC=<worktree>/src; pytest in the worktree with PYTHONPATH=<worktree>/src compared to BASELINE.json stable_pass"},
 "needs_to_manifest":"see notes.md","detected_by":[],"first_run_detected":None}, open('/verif/seeded/%s/meta.json'%i,'w'), indent=1)
PY
  echo "$ID: kept in $OUT"
else echo "$ID: NOT kept"; fi
