#!/usr/bin/env python3
"""Dev helper: apply a textual edit to a scratch copy of /repo/src and run a check on it.
usage: mutcheck.py <relpath under src/conductor> <old> <new> -- C01 [C02 ...]
       (old must occur exactly once unless --all)"""
import os, shutil, subprocess, sys, tempfile
args = sys.argv[1:]
sep = args.index("--")
rel, old, new = args[0], args[1], args[2]
props = args[sep + 1:]
sys.path.insert(0, "/verif")
from sa.scratch import make_scratch
tmp = str(make_scratch())
try:
    p = os.path.join(tmp, "src/conductor", rel)
    s = open(p).read()
    n = s.count(old)
    if n != 1:
        print("pattern occurs %d times" % n); sys.exit(3)
    open(p, "w").write(s.replace(old, new))
    r = subprocess.run(["/venv/bin/python", "-m", "py_compile", p])
    env = dict(os.environ, VERIF_REPO=tmp, VERIF_EVIDENCE_DIR=tmp + "/ev")
    for pr in props:
        r = subprocess.run(["/venv/bin/python", "-m", "sa", "check", pr], cwd="/verif", env=env, capture_output=True, text=True)
        print(pr, "exit", r.returncode)
        print("\n".join(l for l in r.stdout.splitlines() if not l.startswith("C") or "VIOLATION" in l)[:3000])
        if r.stderr.strip(): print(r.stderr[-2000:])
finally:
    shutil.rmtree(tmp, ignore_errors=True)
