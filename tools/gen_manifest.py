#!/usr/bin/env python3
"""Generates /verif/MANIFEST.json from the rule modules' META (single source of truth)."""
import importlib, json, pathlib, sys
ROOT = pathlib.Path(__file__).resolve().parent.parent
sys.path.insert(0, str(ROOT))
PY = "/venv/bin/python"
NA = json.loads((ROOT / "not_applicable.json").read_text()) if (ROOT / "not_applicable.json").exists() else []
checks = []
claimed = []
for i in range(1, 21):
    pid = "C%02d" % i
    try:
        mod = importlib.import_module("sa.rules.%s" % pid.lower())
    except ModuleNotFoundError:
        continue
    claimed.append(pid)
    M = mod.META
    checks.append({
        "property_id": pid,
        "quick_cmd": "%s -m sa check %s --tier quick" % (PY, pid),
        "thorough_cmd": "%s -m sa check %s --tier thorough" % (PY, pid),
        "evidence_file": "/verif/evidence/%s.json" % pid,
        "replay_cmd_template": "%s -m sa explain {path}" % PY,
        "engine": "sa",
        "level_claimed": {
            "category": "other",
            "text": "Static conformance: " + M["explanation"] + " Each rule is a necessary condition of the property "
                    "checked on every path / call site of the current source; a pass decides those structural clauses, not the run-time behaviour.",
            "design_ref": "DESIGN.md §4." + pid,
        },
        "level_note": "Trusted: " + "; ".join(M.get("trusted", [])) + ". Assumed: " + "; ".join(M.get("assumptions", [])),
        "technique": M.get("technique", "static analysis: ast-based CFG path queries, guard normal forms, call-graph and def-use rules specific to this repository"),
    })
na = [x for x in NA if x["property_id"] not in claimed]
for i in range(1, 21):
    pid = "C%02d" % i
    if pid not in claimed and not any(x["property_id"] == pid for x in na):
        na.append({"property_id": pid, "reason": "rule set for this property is not built yet (work in progress); see DESIGN.md §4." + pid})
manifest = {
    "version": 1,
    "setup_cmd": "%s -m sa setup" % PY,
    "hooks": {
        "guard": "CONDUCTOR_VERIF",
        "enable": "none needed: the checks are static and read /repo/src as it is; no instrumentation exists in /repo",
        "baseline_off_cmd": "cd /repo && /venv/bin/python -m pytest -ra -q -p no:cacheprovider --timeout=900 --continue-on-collection-errors",
        "source_commits": [],
        "add_only": True,
    },
    "engines": [{"name": "sa", "path": "/verif/sa", "serves_properties": claimed,
                 "kind_free_text": "repository-specific static analysis (stdlib ast): program model, annotation-driven call resolution, "
                                   "typed-exception CFGs, path/guard/def-use queries, regex automata, SQL reader"}],
    "checks": checks,
    "not_applicable": na,
    "notes": "All checks are static (no Conductor code is imported or executed). Exit 0 pass, 1 VIOLATION, 2 ANALYSIS-ERROR. "
             "fix: commits in /repo are listed in known_findings.json as fixed entries.",
}
(ROOT / "MANIFEST.json").write_text(json.dumps(manifest, indent=1) + "\n")
print("MANIFEST.json:", len(checks), "checks,", len(na), "not applicable")
