#!/usr/bin/env python3
"""Dev helper: apply a seeded patch to a scratch copy of /repo/src and run all claimed checks.
usage: seedcheck.py <patch.diff> [Cnn ...]   (default: every property with a rule module)"""
import glob, os, subprocess, sys
sys.path.insert(0, "/verif")
from sa.scratch import make_scratch, drop_scratch
patch = os.path.abspath(sys.argv[1])
props = sys.argv[2:] or sorted(os.path.basename(p)[:-3].upper() for p in glob.glob("/verif/sa/rules/c[0-9][0-9].py"))
tmp = str(make_scratch())
try:
    r = subprocess.run(["patch", "-p1", "-s", "-d", tmp, "-i", patch], capture_output=True, text=True)
    if r.returncode != 0:
        print("patch failed:", r.stdout, r.stderr); sys.exit(3)
    env = dict(os.environ, VERIF_REPO=tmp, VERIF_EVIDENCE_DIR=tmp + "/ev")
    hits = []
    for pr in props:
        r = subprocess.run(["/venv/bin/python", "-m", "sa", "check", pr], cwd="/verif", env=env, capture_output=True, text=True)
        if r.returncode != 0:
            hits.append(pr)
            print("== %s exit %d" % (pr, r.returncode))
            for l in r.stdout.splitlines():
                if l.startswith("  ") or "ANALYSIS-ERROR" in l:
                    print(l[:330])
            if r.returncode == 2: print(r.stdout[-1500:])
    print("DETECTED BY:", hits or "nothing")
finally:
    drop_scratch(tmp)
