#!/usr/bin/env python3
"""Runs every claimed check against every kept seed (scratch copies, 16 jobs) and records
the detecting checks and rules in seeded/<id>/meta.json; prints a markdown table."""
import concurrent.futures as cf, glob, json, os, subprocess, sys
sys.path.insert(0, "/verif")
from sa.scratch import make_scratch, drop_scratch
props = sorted(os.path.basename(p)[:-3].upper() for p in glob.glob("/verif/sa/rules/c[0-9][0-9].py"))
seeds = sorted(d for d in os.listdir("/verif/seeded") if os.path.exists("/verif/seeded/%s/patch.diff" % d))
def one(sid):
    tmp = str(make_scratch())
    try:
        r = subprocess.run(["patch", "-p1", "-s", "-d", tmp, "-i", "/verif/seeded/%s/patch.diff" % sid], capture_output=True, text=True)
        if r.returncode != 0:
            return sid, None, "patch failed"
        env = dict(os.environ, VERIF_REPO=tmp, VERIF_EVIDENCE_DIR=tmp + "/ev")
        hits = {}
        for pr in props:
            r = subprocess.run(["/venv/bin/python", "-m", "sa", "check", pr], cwd="/verif", env=env, capture_output=True, text=True)
            if r.returncode == 1:
                hits[pr] = sorted({l.strip().split(" ")[0] for l in r.stdout.splitlines() if l.startswith("  ")})
            elif r.returncode == 2:
                hits[pr] = ["ANALYSIS-ERROR"]
        return sid, hits, ""
    finally:
        drop_scratch(tmp)
rows = []
with cf.ThreadPoolExecutor(max_workers=8) as ex:
    for sid, hits, err in ex.map(one, seeds):
        mp = "/verif/seeded/%s/meta.json" % sid
        meta = json.load(open(mp))
        if hits is None:
            print(sid, err); continue
        meta["detected_by"] = hits
        own = meta["property"]
        meta["detected_by_own_property_check"] = own in hits and hits[own] != ["ANALYSIS-ERROR"]
        json.dump(meta, open(mp, "w"), indent=1)
        rows.append((sid, own, hits))
print("| seed | property | detected by (check: rules) |")
print("|---|---|---|")
for sid, own, hits in rows:
    print("| %s | %s | %s |" % (sid, own, "; ".join("%s: %s" % (k, ",".join(v)) for k, v in sorted(hits.items())) or "**nothing**"))
