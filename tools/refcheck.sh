#!/bin/bash
# usage: refcheck.sh <dir with patch-*.diff>  — runs all checks on each benign refactoring; any non-zero exit is a false alarm
for p in $1/patch-*.diff; do echo "######## $(basename $(dirname $p))/$(basename $p)"; /verif/tools/seedcheck.py $p 2>&1 | grep -v WARNING | cut -c1-380; done
