"""
Demonstration helper (not a check): runs `python -m conductor <args>` in-process
and raises SIGINT exactly when execution reaches the first line of FILE whose
source text contains NEEDLE, i.e. "the signal arrives at this statement boundary".

usage: inject_sigint.py FILE_SUFFIX NEEDLE -- <cond args...>
"""
import os
import runpy
import signal
import sys
import linecache

sep = sys.argv.index("--")
file_suffix, needle = sys.argv[1], sys.argv[2]
sys.argv = ["cond"] + sys.argv[sep + 1 :]
fired = [False]


def tracer(frame, event, arg):
    if not frame.f_code.co_filename.endswith(file_suffix):
        return None

    def local(frame, event, arg):
        if event == "line" and not fired[0]:
            text = linecache.getline(frame.f_code.co_filename, frame.f_lineno)
            if needle in text:
                fired[0] = True
                os.kill(os.getpid(), signal.SIGINT)
        return local

    return local


sys.settrace(tracer)
runpy.run_module("conductor", run_name="__main__")
