#!/bin/bash
# Demonstration (not a check) of the C09 defect F10: a SIGCHLD that is delivered after the
# interpreter's last signal check but before SigchldHelper.wait() enters the blocking read()
# is never noticed: `cond run` hangs although its only task has exited (zombie child).
# usage: SRC=<src dir> ./demo.sh     exit 0 = cond run terminated, exit 1 = it hung
HERE=$(cd "$(dirname "$0")" && pwd -P); SRC=${SRC:-/repo/src}
W=$(mktemp -d "${TMPDIR:-/tmp}/cond-lw-XXXXXX"); trap 'rm -rf "$W"' EXIT
cd "$W" && touch cond_config.toml && printf 'run_command(name="t", run="exec sleep 7")\n' > COND
PYTHONPATH=$SRC timeout 25 gdb -q -batch -x "$HERE/gdbscript" --args /venv/bin/python -m conductor run //:t > "$W/out.txt" 2>&1
rc=$?
grep -E "Breakpoint [0-9.]+,|Running|failed|Task|exited" "$W/out.txt" | cut -c1-160
if [ $rc = 124 ]; then echo "HANG: cond run did not terminate within 25 s although the task was killed (lost SIGCHLD wake-up)"; exit 1; fi
echo "cond run terminated (gdb exit $rc)"; exit 0
