"""Demonstration helper: SIGINT arrives inside RunTaskExecutable.start_execution right after Popen() returned
for the task named by $VICTIM, after that (very short) task has already exited and been reaped."""
import os, runpy, signal, sys, time, linecache
sys.argv = ["cond"] + sys.argv[1:]
fired = [False]
def tracer(frame, event, arg):
    if not frame.f_code.co_filename.endswith("ops/run_task_executable.py") or frame.f_code.co_name != "start_execution":
        return None
    def local(frame, event, arg):
        if event == "line" and not fired[0]:
            text = linecache.getline(frame.f_code.co_filename, frame.f_lineno)
            if "stdout_output.maybe_tee(" in text and frame.f_locals["self"]._identifier.name == os.environ["VICTIM"]:
                fired[0] = True
                time.sleep(0.4)            # the task exits; the SIGCHLD handler reaps it (waitpid(-1))
                os.kill(os.getpid(), signal.SIGINT)
        return local
    return local
sys.settrace(tracer)
runpy.run_module("conductor", run_name="__main__")
