#!/bin/bash
# Demonstration (not a check) of the C16 defect F11: SIGINT arrives in RunTaskExecutable.start_execution right after
# Popen() returned, when the (very short) task has already exited and been reaped.  The abort handler's
# os.getpgid(pid) then raised ProcessLookupError, which *replaced* the ConductorAbort: run_plan's abort handler
# never ran, the other running tasks were not terminated, and Conductor died with a traceback.
# usage: SRC=<src dir> ./demo.sh     exit 0 = aborted cleanly and every task terminated, exit 1 otherwise
HERE=$(cd "$(dirname "$0")" && pwd -P); SRC=${SRC:-/repo/src}
W=$(mktemp -d "${TMPDIR:-/tmp}/cond-f11-XXXXXX"); trap 'rm -rf "$W"' EXIT; cd "$W"; touch cond_config.toml
cat > COND <<'EOC'
run_command(name="long", run="echo $$ > pid.long; exec sleep 20", parallelizable=True)
run_command(name="gate", run="sleep 0.5", parallelizable=True)
run_command(name="quick", run="true", parallelizable=True, deps=[":gate"])
group(name="all", deps=[":long", ":quick"])
EOC
VICTIM=quick PYTHONPATH=$SRC timeout 30 /venv/bin/python "$HERE/inject.py" run //:all --jobs 3 > out.txt 2>&1; rc=$?
tail -3 out.txt | cut -c1-160
sleep 0.5; r=0
st=$(ps -o stat= -p "$(cat pid.long)" 2>/dev/null)
if [ -n "$st" ] && [ "${st:0:1}" != "Z" ]; then echo "SURVIVOR: task 'long' is still running after Conductor exited (state $st)"; kill "$(cat pid.long)"; r=1; else echo "task 'long' was terminated"; fi
grep -q "aborted by the user" out.txt || { echo "NOT reported as an abort (internal error instead)"; r=1; }
exit $r
