#!/bin/bash
# Demonstrations of the defects in DESIGN.md §5 against the real code.
# NOT a check (the registered checks are static and never run Conductor).
HERE=$(cd "$(dirname "$0")" && pwd -P)
SRC=${SRC:-/repo/src}
PY=${PY:-/venv/bin/python}
export PYTHONPATH=$SRC
W=$(mktemp -d "${TMPDIR:-/tmp}/cond-findings-XXXXXX")
trap 'for f in "$W"/p3/pid.*; do [ -e "$f" ] && kill "$(cat "$f")" 2>/dev/null; done; rm -rf "$W"' EXIT
cond() { "$PY" -m conductor "$@"; }
hdr() { echo; echo "=== $* "; }

mkdir -p "$W/p1/sub" && cd "$W/p1" && touch cond_config.toml
cat > COND <<'EOF'
run_experiment(name="d", run="echo d-run")
run_experiment(name="b", run="echo b COND_DEPS=$COND_DEPS", deps=[":d"])
run_experiment(name="root", run="echo root COND_DEPS=$COND_DEPS", deps=[":b", ":d"])
run_experiment(name="root2", run="echo root2", deps=[":d", ":b"])
EOF
echo 'run_experiment(name="f", run="exit 1")' > sub/COND

hdr "F1 (C01/C02/C07) fresh run: d is reported cached AND executed"
cond run //:root 2>&1 | grep -E "Using cached|Running"
hdr "F1 --again: d runs twice; b and root see different d.task.*"
cond run //:root --again 2>&1 | grep -E "Running|COND_DEPS"

hdr "F5 (C11) archive of a closure with a shared dependency"
cond archive //:root2 -o "$W/a.tar.gz" 2>&1 | tail -1

hdr "F7 (C17) gc --dry-run from a sub-directory"
cond run //sub:f >/dev/null 2>&1
(cd sub && cond gc --dry-run 2>&1 | tail -1)

hdr "F6 (C13) gc follows a symlink out of cond-out"
mkdir -p "$W/outside/keep.task.5" && ln -s "$W/outside" cond-out/ext
cond gc >/dev/null 2>&1
ls "$W/outside" | grep -q keep.task.5 && echo "kept (ok)" || echo "DELETED $W/outside/keep.task.5"
rm -f cond-out/ext

hdr "F2 (C07) get_deps_paths() with no dependencies; F9 (C20/C15/C13) trailing newline"
COND_DEPS="" "$PY" - <<'EOF'
import conductor.lib as c
print("get_deps_paths() ->", c.get_deps_paths())
from conductor.task_identifier import TaskIdentifier as T
print('is_name_valid("abc\\n") ->', T.is_name_valid("abc\n"))
try:
    print('from_str("//a:b\\n") ->', repr(T.from_str("//a:b\n")))
except Exception as e:
    print('from_str("//a:b\\n") rejected:', type(e).__name__)
from conductor.cli.gc import _EXPERIMENT_TASK_REGEX as R
print('gc regex matches "x.task.12\\n" ->', bool(R.match("x.task.12\n")))
EOF

hdr "F3 (C08) failed and successful runs inside one second share a version directory"
mkdir -p "$W/p2/cond-out" && cd "$W/p2" && touch cond_config.toml
cat > COND <<'EOF'
run_experiment(name="f", run="echo $RANDOM >> $COND_OUT/leak.txt; test -e $COND_OUT/../flag")
EOF
for i in 1 2 3 4 5 6; do cond run //:f >/dev/null 2>&1; done
touch cond-out/flag; cond run //:f >/dev/null 2>&1
"$PY" - <<'EOF'
import sqlite3, pathlib
for ident, ts in sqlite3.connect("cond-out/version_index.sqlite").execute(
        "select task_identifier, timestamp from version_index"):
    n = len(pathlib.Path(f"cond-out/f.task.{ts}/leak.txt").read_text().splitlines())
    print(f"recorded version {ts}: leak.txt has {n} line(s) (1 expected)")
EOF

hdr "F4 (C09) exit status stolen by subprocess._cleanup() when the Popen object is dropped"
"$PY" - <<'EOF'
import subprocess, signal, time, inspect
from conductor.utils.sigchld import SigchldHelper
import conductor.execution.ops.run_task_executable as m
keeps = "handle.process" in inspect.getsource(m)      # patched trees keep the object
h = SigchldHelper.instance(); kept = []
def start(cmd):
    p = subprocess.Popen(cmd, shell=True, executable="/bin/bash", start_new_session=True)
    if keeps: kept.append(p)
    return p.pid
with h.track():
    signal.pthread_sigmask(signal.SIG_BLOCK, {signal.SIGCHLD})    # SIGCHLD delivery is delayed
    p1 = start("exit 0"); time.sleep(0.3)
    p2 = start("sleep 0.3")                                         # Popen() -> subprocess._cleanup()
    signal.pthread_sigmask(signal.SIG_UNBLOCK, {signal.SIGCHLD})
    time.sleep(0.6)
    got = sorted(pid for pid, _ in h._returncodes)
    print("spawned", [p1, p2], "exits recorded by SigchldHelper", got,
          "-> LOST" if got != [p1, p2] else "-> ok")
EOF

hdr "F8 (C16) SIGINT at chosen statement boundaries of cond run"
mkdir -p "$W/p3" && cd "$W/p3" && touch cond_config.toml
# The task records its own pid so that we can see whether it outlives Conductor.
echo 'run_command(name="long", run="echo $$ > pid.$COND_NAME.$RANDOM; exec sleep 31")' > COND
# (Output goes to a file, not a pipe: a surviving task would keep a pipe open.)
echo "-- F8b: during Executor._reset()"
"$PY" "$HERE/inject_sigint.py" execution/executor.py "self._reset()" -- run //:long > out.b 2>&1; tail -1 out.b
echo "-- F8a: before Popen in start_execution"
"$PY" "$HERE/inject_sigint.py" ops/run_task_executable.py "env_vars = {" -- run //:long > out.a 2>&1; tail -1 out.a
echo "-- F8d: between start_execution returning and add_op"
rm -f pid.*
"$PY" "$HERE/inject_sigint.py" execution/executor.py "handle.slot = slot" -- run //:long > out.d 2>&1; tail -1 out.d
sleep 0.5
alive=0; for f in pid.*; do [ -e "$f" ] && kill -0 "$(cat "$f")" 2>/dev/null && alive=$((alive+1)); done
echo "   task processes still running after Conductor exited: $alive"
for f in pid.*; do [ -e "$f" ] && kill "$(cat "$f")" 2>/dev/null; done
echo "-- F8c: while an include()d file is evaluated"
mkdir -p "$W/p4" && cd "$W/p4" && touch cond_config.toml
printf 'import time\ntime.sleep(2)\n' > x.cond
printf 'include("x.cond")\nrun_command(name="t", run="true")\n' > COND
"$PY" - <<'EOF'
import subprocess, sys, time, signal
p = subprocess.Popen([sys.executable, "-m", "conductor", "run", "//:t"],
                     stdout=subprocess.PIPE, stderr=subprocess.STDOUT, text=True)
time.sleep(1.0); p.send_signal(signal.SIGINT)
out, _ = p.communicate()
print([l for l in out.splitlines() if l.startswith("ERROR")][-1])
EOF
