"""Exact language comparison for the regular expressions the repository uses
(DESIGN A.6): `re._parser` AST -> NFA over a symbolic alphabet -> DFA ->
equivalence / inclusion with a shortest counter-example.  The *calling method*
(match / fullmatch / search) and the exact semantics of `$` (end, or before a
final newline) and `\\Z` are part of the language."""
from __future__ import annotations

import re
from typing import Dict, FrozenSet, List, Optional, Set, Tuple

try:
    import re._parser as sre_parse  # py3.11+
    import re._constants as sre_c
except ImportError:  # pragma: no cover
    import sre_parse  # type: ignore
    import sre_constants as sre_c  # type: ignore


class Unrecognised(Exception):
    pass


# ------------------------------------------------------------------ parsing
class Pat:
    def __init__(self, pattern: str):
        self.pattern = pattern
        try:
            p = sre_parse.parse(pattern)
        except Exception as ex:
            raise Unrecognised("cannot parse %r: %s" % (pattern, ex))
        flags = p.state.flags & ~re.UNICODE
        if flags:
            raise Unrecognised("flags %r in %r" % (flags, pattern))
        items = list(p)
        self.head_anchor = False
        self.tail = None  # None | '$' | '\\Z'
        if items and items[0][0] == sre_c.AT and items[0][1] in (sre_c.AT_BEGINNING, sre_c.AT_BEGINNING_STRING):
            self.head_anchor = True
            items = items[1:]
        if items and items[-1][0] == sre_c.AT and items[-1][1] in (sre_c.AT_END, sre_c.AT_END_STRING):
            self.tail = "$" if items[-1][1] == sre_c.AT_END else "\\Z"
            items = items[:-1]
        self.items = items
        self._check_no_anchor(items)

    def _check_no_anchor(self, items):
        for op, av in items:
            if op == sre_c.AT:
                raise Unrecognised("anchor in the middle of %r" % self.pattern)
            if op in (sre_c.MAX_REPEAT, sre_c.MIN_REPEAT):
                self._check_no_anchor(list(av[2]))
            elif op == sre_c.SUBPATTERN:
                self._check_no_anchor(list(av[3]))
            elif op == sre_c.BRANCH:
                for alt in av[1]:
                    self._check_no_anchor(list(alt))
            elif op in (sre_c.LITERAL, sre_c.NOT_LITERAL, sre_c.IN, sre_c.ANY):
                pass
            else:
                raise Unrecognised("unsupported regex node %s in %r" % (op, self.pattern))

    def chars(self) -> Set[str]:
        out: Set[str] = set()

        def rec(items):
            for op, av in items:
                if op in (sre_c.LITERAL, sre_c.NOT_LITERAL):
                    out.update(_around(av))
                elif op == sre_c.IN:
                    for k, v in av:
                        if k == sre_c.LITERAL:
                            out.update(_around(v))
                        elif k == sre_c.RANGE:
                            out.update(_around(v[0]))
                            out.update(_around(v[1]))
                elif op in (sre_c.MAX_REPEAT, sre_c.MIN_REPEAT):
                    rec(list(av[2]))
                elif op == sre_c.SUBPATTERN:
                    rec(list(av[3]))
                elif op == sre_c.BRANCH:
                    for alt in av[1]:
                        rec(list(alt))
        rec(self.items)
        return out


def _around(code: int) -> Set[str]:
    return {chr(c) for c in (code - 1, code, code + 1) if 0 <= c < 0x110000}


_BASE_REPS = set("\n\r\t ./:-_aZ5") | {"é", "٣", "\x00"}


def _in_matches(av, ch: str) -> bool:
    neg = False
    hit = False
    for k, v in av:
        if k == sre_c.NEGATE:
            neg = True
        elif k == sre_c.LITERAL:
            hit = hit or ord(ch) == v
        elif k == sre_c.RANGE:
            hit = hit or v[0] <= ord(ch) <= v[1]
        elif k == sre_c.CATEGORY:
            name = str(v)
            table = {"CATEGORY_DIGIT": r"\d", "CATEGORY_NOT_DIGIT": r"\D", "CATEGORY_SPACE": r"\s", "CATEGORY_NOT_SPACE": r"\S",
                     "CATEGORY_WORD": r"\w", "CATEGORY_NOT_WORD": r"\W"}
            if name not in table:
                raise Unrecognised("category %s" % name)
            hit = hit or re.fullmatch(table[name], ch) is not None
        else:
            raise Unrecognised("set item %s" % k)
    return hit != neg


# ---------------------------------------------------------------------- NFA
class NFA:
    def __init__(self):
        self.n = 0
        self.eps: Dict[int, Set[int]] = {}
        self.tr: Dict[int, List[Tuple[FrozenSet[str], int]]] = {}

    def new(self) -> int:
        self.n += 1
        return self.n - 1

    def e(self, a, b):
        self.eps.setdefault(a, set()).add(b)

    def t(self, a, chars: FrozenSet[str], b):
        self.tr.setdefault(a, []).append((chars, b))


def _build(nfa: NFA, items, alphabet: List[str], start: int) -> int:
    cur = start
    for op, av in items:
        if op == sre_c.LITERAL:
            nxt = nfa.new()
            nfa.t(cur, frozenset(c for c in alphabet if ord(c) == av), nxt)
            cur = nxt
        elif op == sre_c.NOT_LITERAL:
            nxt = nfa.new()
            nfa.t(cur, frozenset(c for c in alphabet if ord(c) != av), nxt)
            cur = nxt
        elif op == sre_c.ANY:
            nxt = nfa.new()
            nfa.t(cur, frozenset(c for c in alphabet if c != "\n"), nxt)
            cur = nxt
        elif op == sre_c.IN:
            nxt = nfa.new()
            nfa.t(cur, frozenset(c for c in alphabet if _in_matches(av, c)), nxt)
            cur = nxt
        elif op == sre_c.SUBPATTERN:
            cur = _build(nfa, list(av[3]), alphabet, cur)
        elif op == sre_c.BRANCH:
            end = nfa.new()
            for alt in av[1]:
                s = nfa.new()
                nfa.e(cur, s)
                x = _build(nfa, list(alt), alphabet, s)
                nfa.e(x, end)
            cur = end
        elif op in (sre_c.MAX_REPEAT, sre_c.MIN_REPEAT):
            lo, hi, sub = av
            sub = list(sub)
            if lo > 8 or (hi != sre_c.MAXREPEAT and hi > 8):
                raise Unrecognised("bounded repeat above 8")
            for _ in range(lo):
                cur = _build(nfa, sub, alphabet, cur)
            if hi == sre_c.MAXREPEAT:
                s = nfa.new()
                nfa.e(cur, s)
                x = _build(nfa, sub, alphabet, s)
                nfa.e(x, s)
                end = nfa.new()
                nfa.e(s, end)
                cur = end
            else:
                end = nfa.new()
                nfa.e(cur, end)
                for _ in range(hi - lo):
                    cur = _build(nfa, sub, alphabet, cur)
                    nfa.e(cur, end)
                cur = end
        else:
            raise Unrecognised("unsupported regex node %s" % op)
    return cur


class DFA:
    def __init__(self, alphabet: List[str]):
        self.alphabet = alphabet
        self.trans: List[Dict[str, int]] = []
        self.accept: List[bool] = []


def language_dfa(pat: Pat, method: str, alphabet: List[str]) -> DFA:
    """DFA of { s : re.compile(pat).<method>(s) is not None }."""
    nfa = NFA()
    start = nfa.new()
    body_start = start
    allc = frozenset(alphabet)
    if method == "search" and not pat.head_anchor:
        nfa.t(start, allc, start)
    end = _build(nfa, pat.items, alphabet, body_start)
    acc = nfa.new()
    if method == "fullmatch":
        nfa.e(end, acc)  # must span the whole string; `$` before a final newline cannot be used
    elif method in ("match", "search"):
        if pat.tail is None:
            nfa.e(end, acc)
            nfa.t(acc, allc, acc)
        elif pat.tail == "\\Z":
            nfa.e(end, acc)
        else:  # '$' : end of string or just before a final newline
            nfa.e(end, acc)
            nl = nfa.new()
            nfa.t(end, frozenset(c for c in alphabet if c == "\n"), nl)
            nfa.e(nl, acc)
    else:
        raise Unrecognised("method %s" % method)

    def closure(S: FrozenSet[int]) -> FrozenSet[int]:
        st = list(S)
        seen = set(S)
        while st:
            x = st.pop()
            for y in nfa.eps.get(x, ()):
                if y not in seen:
                    seen.add(y)
                    st.append(y)
        return frozenset(seen)

    d = DFA(alphabet)
    s0 = closure(frozenset({start}))
    index = {s0: 0}
    order = [s0]
    d.trans.append({})
    d.accept.append(acc in s0)
    i = 0
    while i < len(order):
        S = order[i]
        for c in alphabet:
            T = set()
            for x in S:
                for chars, y in nfa.tr.get(x, ()):
                    if c in chars:
                        T.add(y)
            Tc = closure(frozenset(T))
            if Tc not in index:
                index[Tc] = len(order)
                order.append(Tc)
                d.trans.append({})
                d.accept.append(acc in Tc)
                if len(order) > 5000:
                    raise Unrecognised("DFA too large")
            d.trans[i][c] = index[Tc]
        i += 1
    return d


def compare(p1: str, m1: str, p2: str, m2: str) -> Tuple[Optional[str], Optional[str], Dict[str, int]]:
    """Returns (w1, w2, stats): w1 = shortest string accepted by (p1,m1) but
    not (p2,m2), w2 = the converse; None where no such string exists."""
    a, b = Pat(p1), Pat(p2)
    alphabet = sorted(a.chars() | b.chars() | _BASE_REPS)
    # collapse equivalent characters (same behaviour in every set) to one representative
    alphabet = _representatives(alphabet, [a, b])
    da, db = language_dfa(a, m1, alphabet), language_dfa(b, m2, alphabet)
    w1 = w2 = None
    from collections import deque
    seen = {(0, 0): ""}
    dq = deque([(0, 0)])
    while dq:
        x, y = dq.popleft()
        w = seen[(x, y)]
        if da.accept[x] and not db.accept[y] and w1 is None:
            w1 = w
        if db.accept[y] and not da.accept[x] and w2 is None:
            w2 = w
        if w1 is not None and w2 is not None:
            break
        for c in alphabet:
            nx = (da.trans[x][c], db.trans[y][c])
            if nx not in seen:
                seen[nx] = w + c
                dq.append(nx)
    return w1, w2, {"alphabet": len(alphabet), "dfa1": len(da.trans), "dfa2": len(db.trans), "product": len(seen)}


def _representatives(chars: List[str], pats: List[Pat]) -> List[str]:
    sets = []

    def rec(items):
        for op, av in items:
            if op == sre_c.IN:
                sets.append(("in", av))
            elif op == sre_c.LITERAL:
                sets.append(("lit", av))
            elif op == sre_c.NOT_LITERAL:
                sets.append(("lit", av))
            elif op in (sre_c.MAX_REPEAT, sre_c.MIN_REPEAT):
                rec(list(av[2]))
            elif op == sre_c.SUBPATTERN:
                rec(list(av[3]))
            elif op == sre_c.BRANCH:
                for alt in av[1]:
                    rec(list(alt))
    for p in pats:
        rec(p.items)
    groups: Dict[tuple, str] = {}
    for c in sorted(chars, key=lambda ch: (not (ch.isascii() and ch.isalnum()), ch)):
        sig = tuple((_in_matches(av, c) if k == "in" else ord(c) == av) for k, av in sets) + (c == "\n",)
        groups.setdefault(sig, c)
    # prefer printable representatives
    return sorted(groups.values())


def accepted_chars(p: str) -> Set[str]:
    """Representative characters that can occur in some string matched by the
    body of p (used for alphabet facts)."""
    a = Pat(p)
    out: Set[str] = set()
    reps = sorted(a.chars() | _BASE_REPS)

    def rec(items):
        for op, av in items:
            if op == sre_c.LITERAL:
                out.add(chr(av))
            elif op == sre_c.NOT_LITERAL:
                out.update(c for c in reps if ord(c) != av)
            elif op == sre_c.ANY:
                out.update(c for c in reps if c != "\n")
            elif op == sre_c.IN:
                out.update(c for c in reps if _in_matches(av, c))
            elif op in (sre_c.MAX_REPEAT, sre_c.MIN_REPEAT):
                rec(list(av[2]))
            elif op == sre_c.SUBPATTERN:
                rec(list(av[3]))
            elif op == sre_c.BRANCH:
                for alt in av[1]:
                    rec(list(alt))
    rec(a.items)
    return out


def selfcheck():
    # positive examples that must be distinguished on every run
    w1, w2, _ = compare(r"^[a-z]+$", "match", r"[a-z]+", "fullmatch")
    assert w1 == "a\n" or (w1 is not None and w1.endswith("\n")), w1
    assert w2 is None
    w1, w2, _ = compare(r"^[a-z]+\Z", "match", r"[a-z]+", "fullmatch")
    assert w1 is None and w2 is None
    w1, w2, _ = compare(r"[a-z]+", "match", r"[a-z]+", "fullmatch")
    assert w1 is not None and w2 is None
    w1, w2, _ = compare(r"^(//)?(([a-z]+/)*([a-z]+)?):[a-z]+\Z", "match", r"(//)?([a-z]+/)*([a-z]+)?:[a-z]+", "fullmatch")
    assert w1 is None and w2 is None
    w1, w2, _ = compare(r"^[a-z.]+\Z", "match", r"[a-z]+", "fullmatch")
    assert w1 == "."
    # cross-check the automaton against the real engine on the witnesses
    assert re.compile(r"^[a-z]+$").match("a\n") and not re.compile(r"[a-z]+").fullmatch("a\n")
