"""Rule framework: obligations, reports, evidence files, known findings."""
from __future__ import annotations

import ast
import json
import os
import pathlib
import time
import traceback
from typing import Any, Callable, Dict, List, Optional

from .model import AnalysisError, site as site_of

VERIF = pathlib.Path(__file__).resolve().parent.parent
EVIDENCE_DIR = pathlib.Path(os.environ.get("VERIF_EVIDENCE_DIR") or (VERIF / "evidence"))
REPORT_DIR = pathlib.Path(os.environ.get("VERIF_EVIDENCE_DIR") or (VERIF / "reports"))
KNOWN = VERIF / "known_findings.json"

OK, VIOLATED, UNKNOWN = "discharged", "VIOLATED", "unknown"


class Obligation:
    __slots__ = ("rule", "instance", "site", "status", "detail", "deep", "key")

    def __init__(self, rule, instance, site, status, detail="", deep=True, key=None):
        self.rule = rule
        self.instance = instance
        self.site = site
        self.status = status
        self.detail = detail
        self.deep = deep  # needed a path / origin / automaton computation
        self.key = key or "%s|%s" % (rule, instance)

    def to_json(self):
        return dict(rule=self.rule, instance=self.instance, site=self.site, status=self.status, detail=self.detail)


class Report:
    """Collects obligations for one property."""

    def __init__(self, prop: str, A):
        self.prop = prop
        self.A = A
        self.obs: List[Obligation] = []
        self.notes: List[str] = []
        self.unknown_origins = 0
        self._rule_counts: Dict[str, int] = {}
        self._minimums: Dict[str, int] = {}

    # -- recording
    def ok(self, rule, instance, node=None, detail="", deep=True):
        self._add(rule, instance, node, OK, detail, deep)

    def bad(self, rule, instance, node=None, detail="", key=None):
        self._add(rule, instance, node, VIOLATED, detail, True, key)

    def check(self, cond: bool, rule, instance, node=None, detail="", bad_detail=None, deep=True, key=None):
        if cond:
            self.ok(rule, instance, node, detail, deep)
        else:
            self.bad(rule, instance, node, bad_detail if bad_detail is not None else detail, key)
        return cond

    def unknown(self, rule, instance, node=None, detail=""):
        self._add(rule, instance, node, UNKNOWN, detail, False)
        self.unknown_origins += 1

    def _add(self, rule, instance, node, status, detail, deep, key=None):
        s = node if isinstance(node, str) else (site_of(node) if node is not None else "")
        self.obs.append(Obligation(rule, instance, s, status, detail, deep, key))
        self._rule_counts[rule] = self._rule_counts.get(rule, 0) + 1

    def expect_min(self, rule, n):
        """Non-vacuity: the rule must have matched at least n instances."""
        self._minimums[rule] = n

    def finish_counts(self):
        for rule, n in self._minimums.items():
            got = self._rule_counts.get(rule, 0)
            if got < n:
                raise AnalysisError("rule %s matched %d instance(s), fewer than the %d confirmed by hand" % (rule, got, n))

    @property
    def violations(self):
        return [o for o in self.obs if o.status == VIOLATED]


def load_known() -> List[dict]:
    if not KNOWN.exists():
        return []
    return json.loads(KNOWN.read_text()).get("findings", [])


def run_property(prop: str, tier: str, rules_fn: Callable, A_factory: Callable, meta: dict, thorough_fn: Optional[Callable] = None) -> int:
    """Runs the rule set of one property, writes evidence, prints the verdict
    lines and returns the exit code (0 pass, 1 violation, 2 analysis error)."""
    t0 = time.time()
    seed = int(os.environ.get("VERIF_SEED", "0") or 0)
    EVIDENCE_DIR.mkdir(parents=True, exist_ok=True)
    ev_path = EVIDENCE_DIR / ("%s.json" % prop)
    try:
        ev_path.unlink()
    except FileNotFoundError:
        pass
    try:
        A = A_factory()
        rep = Report(prop, A)
        rules_fn(A, rep, tier)
        if not rep.violations:
            # non-vacuity is only meaningful when nothing was reported: a rule that
            # reported a violation legitimately skips its dependent obligations
            rep.finish_counts()
    except AnalysisError as ex:
        print("ANALYSIS-ERROR property=%s %s" % (prop, ex))
        return 2
    except Exception:  # a traceback must never look like a verdict
        print("ANALYSIS-ERROR property=%s internal error\n%s" % (prop, traceback.format_exc()))
        return 2

    extra_cov: Dict[str, Any] = {}
    if tier == "thorough" and thorough_fn is not None and not rep.violations:
        try:
            extra_cov = thorough_fn(A, rep) or {}
        except AnalysisError as ex:
            print("ANALYSIS-ERROR property=%s %s" % (prop, ex))
            return 2
        except Exception:
            print("ANALYSIS-ERROR property=%s internal error in the thorough tier\n%s" % (prop, traceback.format_exc()))
            return 2

    known = [k for k in load_known() if k.get("property") == prop and k.get("status") == "known"]
    unlisted, listed = [], []
    for o in rep.violations:
        hit = next((k for k in known if k.get("key") == o.key), None)
        (listed if hit else unlisted).append((o, hit))
    for o, hit in listed:
        print("KNOWN-FINDING: property=%s %s [%s %s]" % (prop, hit.get("what", o.detail), o.rule, o.site))

    obs = rep.obs
    n_ok = sum(1 for o in obs if o.status == OK)
    distinct = len({(o.rule, o.instance, o.site) for o in obs if o.deep and o.status != UNKNOWN})
    samples = [o.to_json() for o in obs if o.deep][:6]
    if rep.violations:
        samples = [o.to_json() for o in rep.violations][:6] + samples[:3]
    per_rule: Dict[str, Dict[str, int]] = {}
    for o in obs:
        d = per_rule.setdefault(o.rule, {"discharged": 0, "VIOLATED": 0, "unknown": 0})
        d[o.status] += 1
    st = A.stats()
    evidence = {
        "property_id": prop,
        "tier": tier,
        "seed": seed,
        "level": "other",
        "coverage": {
            "explanation": meta.get("explanation", ""),
            "rule": "one obligation per (rule, instance, site) found by role in the current /repo source; "
                    "non-trivial = discharge needed a CFG path query, origin trace, guard normal form or automaton "
                    "computation (not a mere presence test); distinct = distinct (rule, instance, site)",
            "evaluations": len(obs),
            "distinct_nontrivial": distinct,
            "obligations": len(obs),
            "discharged": n_ok,
            "unknown": sum(1 for o in obs if o.status == UNKNOWN),
            "per_rule": per_rule,
            "samples": samples,
            "analysed": st,
            "source_digest": A.prog.digest,
            "exhaustive": False,
            "rules": meta.get("rules", []),
            "notes": rep.notes,
            "checker_cmd": "/venv/bin/python -m sa check %s --tier %s" % (prop, tier),
            "trusted_base": meta.get("trusted", []),
        },
        "assumptions": meta.get("assumptions", []),
        "wall_s": round(time.time() - t0, 3),
        "violations": len(rep.violations),
    }
    evidence["coverage"].update(extra_cov)
    ev_path.write_text(json.dumps(evidence, indent=1, sort_keys=False, default=str) + "\n")

    print("%s tier=%s obligations=%d discharged=%d violated=%d unknown=%d functions=%d callsites=%d wall=%.2fs" % (
        prop, tier, len(obs), n_ok, len(rep.violations), evidence["coverage"]["unknown"], st["functions"], st["calls"],
        evidence["wall_s"]))
    if unlisted:
        REPORT_DIR.mkdir(parents=True, exist_ok=True)
        rp = REPORT_DIR / ("%s.violations.json" % prop)
        rp.write_text(json.dumps({"property": prop, "violations": [o.to_json() | {"key": o.key} for o, _ in unlisted]}, indent=1) + "\n")
        for o, _ in unlisted:
            print("  %s [%s] %s :: %s" % (o.rule, o.instance, o.site, o.detail))
        print("VIOLATION property=%s replay=%s" % (prop, rp))
        return 1
    return 0
