"""The analysis context handed to every rule: program model, resolver, call
graph (with the repository's higher-order idioms), exception summaries, CFG
cache and the query helpers rules are written with."""
from __future__ import annotations

import ast
import copy
import itertools
from typing import Callable, Dict, FrozenSet, Iterable, Iterator, List, Optional, Sequence, Set, Tuple

from . import cfg as cfgm
from .cfg import CFG, Builder, Node, is_back, is_exc
from .exc import ABORT, ExcAnalysis, async_may_raise
from .model import AnalysisError, FunctionInfo, Program, enclosing_stmt, norm, walk_local
from .resolve import CallGraph, Resolver

Atom = Tuple[str, bool]
Conj = FrozenSet[Atom]


class Analysis:
    def __init__(self, prog: Optional[Program] = None):
        self.prog = prog or Program()
        self.res = Resolver(self.prog)
        self.canonical_calls = self._canonicalise_calls()
        self.cg = CallGraph(self.prog, self.res)
        self._exc: Optional[ExcAnalysis] = None
        self._cfgs: Dict[Tuple[str, str], CFG] = {}
        self.idiom_edges: List[Tuple[str, str, str]] = []
        self._add_idiom_edges()

    # ------------------------------------------------------------ basics
    def stats(self) -> dict:
        s = dict(self.prog.stats)
        s["unresolved_calls"] = len(self.res.unresolved)
        s["idiom_edges"] = len(self.idiom_edges)
        s["cfgs_built"] = len(self._cfgs)
        return s

    @property
    def exc(self) -> ExcAnalysis:
        if self._exc is None:
            self._exc = ExcAnalysis(self.prog, self.res)
        return self._exc

    def fn(self, fq: str) -> FunctionInfo:
        return self.prog.func(fq)

    def cfg(self, fi: FunctionInfo, model: str = "sync") -> CFG:
        key = (fi.fq, model)
        g = self._cfgs.get(key)
        if g is None:
            if model == "plain":
                g = Builder(self.prog, fi, cfgm.no_raise, exc_class=self.exc.exc_class).g
            elif model == "sync":
                g = Builder(self.prog, fi, self.exc.may_raise, exc_class=self.exc.exc_class).g
            elif model == "async":
                g = Builder(self.prog, fi, async_may_raise(self.exc), exc_class=self.exc.exc_class).g
            elif model == "async-only":
                g = Builder(self.prog, fi, async_may_raise(None), exc_class=self.exc.exc_class).g
            else:
                raise ValueError(model)
            self._cfgs[key] = g
        return g

    # ------------------------------------------------- higher-order idioms
    def _add_idiom_edges(self):
        p, cg = self.prog, self.cg

        def add(src: str, dst: str, why: str):
            if src in p.functions and dst in p.functions:
                cg.edges.setdefault(src, set()).add(dst)
                self.idiom_edges.append((src, dst, why))

        # @cli_command: command_main calls the decorated main
        wrapper = "conductor.utils.user_code.cli_command.command_main"
        decorated = [f for f in p.functions.values() if "cli_command" in f.decorators]
        for f in decorated:
            add(wrapper, f.fq, "@cli_command")
        # set_defaults(func=main) -> args.func(args) in __main__.main
        for f in decorated:
            add("conductor.__main__.main", wrapper, "set_defaults(func=main)")
        # COND constructors: shim -> RawTaskType.load_from_cond_file -> validator
        shim = "conductor.parsing.task_loader.TaskLoader._wrap_task_function.shim"
        add(shim, "conductor.task_types.raw.RawTaskType.load_from_cond_file", "task_constructor(**kwargs)")
        add("conductor.task_types.raw.RawTaskType.load_from_cond_file",
            "conductor.parsing.validation.generate_type_validator.validate", "self._validator(args)")
        # exec of COND code calls the shims, include and the stdlib
        for src in ("conductor.parsing.task_loader.TaskLoader.parse_cond_file",):
            add(src, shim, "exec(COND) calls task constructors")
            add(src, "conductor.parsing.task_loader.TaskLoader._run_include", "exec(COND) calls include()")
            add(src, "conductor.task_types.stdlib.run_experiment_group.run_experiment_group", "exec(COND) calls stdlib")
        add("conductor.task_types.stdlib.run_experiment_group.run_experiment_group", shim, "run_experiment()/combine()")
        # TaskType.from_raw_task: constructor(...) -> __init__ of every full type
        for c in p.subclasses("conductor.task_types.base.TaskType", strict=True):
            init = p.find_method(c, "__init__")
            if init is not None:
                add("conductor.task_types.base.TaskType.from_raw_task", init.fq, "constructor(**raw_task)")

    # ------------------------------------------------------------- calls
    def calls_in(self, node: ast.AST, *targets: str) -> List[ast.Call]:
        out = []
        for sub in walk_local(node):
            if isinstance(sub, ast.Call) and self.res.is_call_to(sub, *targets):
                out.append(sub)
        return out

    def calls_in_func(self, fi: FunctionInfo, *targets: str) -> List[ast.Call]:
        return self.calls_in(fi.node, *targets)

    def all_calls_to(self, *targets: str, exclude_pkgs: Sequence[str] = ()) -> List[Tuple[FunctionInfo, ast.Call]]:
        out = []
        for fq, sites in self.cg.sites.items():
            if any(fq.startswith(x) for x in exclude_pkgs):
                continue
            fi = self.prog.functions[fq]
            if fi.inlined:
                continue
            for (c, _exp) in sites:
                if self.res.is_call_to(c, *targets):
                    out.append((fi, c))
        return out

    def callees(self, call: ast.Call) -> List[str]:
        return self.res.callees(call)

    def _enum_member(self, e: ast.expr) -> bool:
        """`Cls.MEMBER` where Cls is a project class deriving from enum.Enum (plain Enum: == is identity)."""
        if not (isinstance(e, ast.Attribute) and isinstance(e.value, ast.Name)):
            return False
        cache = getattr(self, "_enum_classes", None)
        if cache is None:
            cache = {c.name for c in self.prog.classes.values()
                     if any(norm(b) in ("enum.Enum", "Enum") for b in c.node.bases)}
            self._enum_classes = cache
        return e.value.id in cache

    def kw(self, call: ast.Call, name: str) -> Optional[ast.expr]:
        """The argument bound to parameter `name`: the keyword, or — calls are kept in canonical positional form —
        the positional argument at that parameter's place in the callee's signature."""
        for k in call.keywords:
            if k.arg == name:
                return k.value
        sig = self.signature(call)
        if sig is not None and name in sig:
            i = sig.index(name)
            if i < len(call.args) and not any(isinstance(a, ast.Starred) for a in call.args[:i + 1]):
                return call.args[i]
        return None

    def kwmap(self, call: ast.Call) -> Dict[str, ast.expr]:
        """name → argument for every argument whose parameter name is known (keywords, and positionals through the signature)."""
        out: Dict[str, ast.expr] = {}
        sig = self.signature(call)
        if sig is not None:
            for p_, a in zip(sig, call.args):
                if isinstance(a, ast.Starred):
                    break
                out[p_] = a
        for k in call.keywords:
            if k.arg is not None:
                out[k.arg] = k.value
        return out

    # signatures of the library calls whose arguments rules look at positionally
    _EXT_SIGS = {
        "shutil.copytree": ["src", "dst"], "shutil.copy2": ["src", "dst"], "shutil.copy": ["src", "dst"],
        "shutil.copyfile": ["src", "dst"], "shutil.move": ["src", "dst"], "os.rename": ["src", "dst"],
        "os.replace": ["src", "dst"], "shutil.rmtree": ["path"], "os.kill": ["pid", "sig"], "os.killpg": ["pgid", "sig"],
        "os.path.relpath": ["path", "start"],
    }

    def signature(self, call: ast.Call) -> Optional[List[str]]:
        """Names of the positional parameters the call's arguments bind to (receiver excluded), when every possible
        callee agrees on them."""
        if not hasattr(call, "_module"):
            return None
        try:
            cs = self.res.callees(call)
        except Exception:
            return None
        sigs = []
        for c in cs:
            if c in self.prog.functions:
                f = self.prog.functions[c]
            elif c in self.prog.classes:
                f = self.prog.find_method(c, "__init__")
                if f is None:
                    return None
            elif c in self._EXT_SIGS:
                sigs.append(list(self._EXT_SIGS[c]))
                continue
            else:
                return None
            a = f.node.args
            if a.vararg is not None:
                return None
            params = [x.arg for x in a.posonlyargs + a.args]
            if f.cls is not None and not f.is_static and params and params[0] in ("self", "cls"):
                if not isinstance(call.func, ast.Name) or f.name == "__init__":
                    params = params[1:]
            sigs.append(params)
        if not sigs or any(s_ != sigs[0] for s_ in sigs[1:]):
            return None
        return sigs[0]

    def _canonicalise_calls(self) -> int:
        """Calls are put in one canonical form: an argument passed by keyword to a positional parameter is moved to its
        position when every parameter before it is supplied too (`f(a, y=c, x=b)` → `f(a, b, c)` for `def f(p, x, y)`).
        Rules read `call.args[i]` / `A.kw(call, name)`; both see the same argument whichever spelling the source uses."""
        n = 0
        for m in self.prog.modules.values():
            for call in ast.walk(m.tree):
                if not isinstance(call, ast.Call) or not call.keywords or not hasattr(call, "_module"):
                    continue
                if any(k.arg is None for k in call.keywords) or any(isinstance(a, ast.Starred) for a in call.args):
                    continue
                sig = self.signature(call)
                if sig is None:
                    continue
                kws = {k.arg: k for k in call.keywords}
                moved = False
                while len(call.args) < len(sig) and sig[len(call.args)] in kws:
                    k = kws.pop(sig[len(call.args)])
                    call.keywords.remove(k)
                    k.value._parent = call  # type: ignore[attr-defined]
                    call.args.append(k.value)
                    moved = True
                n += moved
        return n

    def bind_args(self, call: ast.Call, callee: FunctionInfo) -> Dict[str, ast.expr]:
        """Bind the arguments of a call to the parameter names of the callee."""
        params = callee.params
        if callee.cls is not None and not callee.is_static and params and params[0] in ("self", "cls"):
            # bound call: receiver is implicit
            if not (isinstance(call.func, ast.Name)):
                params = params[1:]
            elif callee.name == "__init__":
                params = params[1:]
        out: Dict[str, ast.expr] = {}
        for p_, a in zip(params, call.args):
            if isinstance(a, ast.Starred):
                break
            out[p_] = a
        for k in call.keywords:
            if k.arg is not None:
                out[k.arg] = k.value
        return out

    # ------------------------------------------------------- local def-use
    def defs(self, fi: FunctionInfo, name: str) -> List[ast.AST]:
        """Statements/constructs that bind `name` in fi (values where known)."""
        out = []
        for node in walk_local(fi.node):
            if isinstance(node, ast.Assign):
                for tg in node.targets:
                    if isinstance(tg, ast.Name) and tg.id == name:
                        out.append(node)
                    elif isinstance(tg, (ast.Tuple, ast.List)) and any(isinstance(e, ast.Name) and e.id == name for e in ast.walk(tg)):
                        out.append(node)
            elif isinstance(node, (ast.AnnAssign, ast.AugAssign)) and isinstance(node.target, ast.Name) and node.target.id == name:
                out.append(node)
            elif isinstance(node, (ast.For, ast.comprehension)) and any(isinstance(e, ast.Name) and e.id == name for e in ast.walk(node.target)):
                out.append(node)
            elif isinstance(node, ast.With):
                for it in node.items:
                    if it.optional_vars is not None and any(isinstance(e, ast.Name) and e.id == name for e in ast.walk(it.optional_vars)):
                        out.append(node)
            elif isinstance(node, ast.ExceptHandler) and node.name == name:
                out.append(node)
            elif isinstance(node, ast.NamedExpr) and node.target.id == name:
                out.append(node)
        return out

    def single_def_value(self, fi: FunctionInfo, name: str) -> Optional[ast.expr]:
        if name in fi.params:
            return None
        ds = self.defs(fi, name)
        if len(ds) == 1 and isinstance(ds[0], (ast.Assign, ast.AnnAssign)):
            d = ds[0]
            if isinstance(d, ast.Assign) and len(d.targets) == 1 and isinstance(d.targets[0], ast.Name):
                return d.value
            if isinstance(d, ast.AnnAssign):
                return d.value
            # `a, b = x, y`: element-wise
            if isinstance(d, ast.Assign) and len(d.targets) == 1 and isinstance(d.targets[0], (ast.Tuple, ast.List)) and isinstance(d.value, (ast.Tuple, ast.List)) \
                    and len(d.targets[0].elts) == len(d.value.elts) and not any(isinstance(x, ast.Starred) for x in d.targets[0].elts + d.value.elts):
                for tg, v in zip(d.targets[0].elts, d.value.elts):
                    if isinstance(tg, ast.Name) and tg.id == name:
                        return v
            # `a, b = m.group("x", "y")`: a match object's multi-group call is the tuple of the single-group calls
            if isinstance(d, ast.Assign) and len(d.targets) == 1 and isinstance(d.targets[0], (ast.Tuple, ast.List)) and isinstance(d.value, ast.Call) \
                    and isinstance(d.value.func, ast.Attribute) and d.value.func.attr == "group" and not d.value.keywords \
                    and len(d.value.args) == len(d.targets[0].elts) >= 2 and all(isinstance(a, ast.Constant) for a in d.value.args):
                for tg, a in zip(d.targets[0].elts, d.value.args):
                    if isinstance(tg, ast.Name) and tg.id == name:
                        one = ast.Call(func=copy.deepcopy(d.value.func), args=[copy.deepcopy(a)], keywords=[])
                        ast.copy_location(one, d.value)
                        ast.fix_missing_locations(one)
                        for sub_ in ast.walk(one):
                            if hasattr(d.value, "_module") and not hasattr(sub_, "_module"):
                                sub_._module = d.value._module  # type: ignore[attr-defined]
                                sub_._func = getattr(d.value, "_func", None)  # type: ignore[attr-defined]
                        return one
        return None

    def preceding_def(self, stmt: ast.stmt, name: str) -> Optional[ast.expr]:
        """Value of the closest assignment `name = value` that precedes stmt in
        its own block or an enclosing block (straight-line reaching definition)."""
        cur = stmt
        while cur is not None and not isinstance(cur, (ast.FunctionDef, ast.AsyncFunctionDef)):
            par = getattr(cur, "_parent", None)
            if par is None:
                break
            for field in ("body", "orelse", "finalbody"):
                blk = getattr(par, field, None)
                if isinstance(blk, list) and cur in blk:
                    for prev in reversed(blk[: blk.index(cur)]):
                        if isinstance(prev, ast.Assign) and len(prev.targets) == 1 and isinstance(prev.targets[0], ast.Name) and prev.targets[0].id == name:
                            return prev.value
                        if isinstance(prev, ast.AnnAssign) and isinstance(prev.target, ast.Name) and prev.target.id == name and prev.value is not None:
                            return prev.value
                        if any(isinstance(x, ast.Name) and x.id == name and isinstance(x.ctx, ast.Store) for x in ast.walk(prev)):
                            return None  # assigned in a nested construct: not straight-line
            cur = par
        return None

    def expand(self, e: ast.expr, fi: Optional[FunctionInfo], depth=6, stop: Iterable[str] = ()) -> ast.expr:
        """Copy of e with single-assignment locals inlined (recursively).
        Names in `stop` are kept."""
        if fi is None:
            return e
        A = self
        stop = set(stop)

        class Tr(ast.NodeTransformer):
            def __init__(self, d):
                self.d = d

            def visit_Name(self, n):
                if isinstance(n.ctx, ast.Load) and self.d > 0 and n.id not in stop:
                    v = A.single_def_value(fi, n.id)
                    if v is not None:
                        return Tr(self.d - 1).visit(copy.deepcopy(v))
                return n

            def visit_Lambda(self, n):
                return n

        return Tr(depth).visit(copy.deepcopy(e))

    def xtext(self, e: ast.expr, fi: Optional[FunctionInfo], stop: Iterable[str] = ()) -> str:
        return norm(self.expand(e, fi, stop=stop))

    def ctext(self, e: ast.expr, fi: Optional[FunctionInfo] = None, stop: Iterable[str] = (), expand=True) -> str:
        """Canonical text: single-assignment locals inlined, then equivalent
        spellings unified (see `canon`)."""
        x = self.expand(e, fi, stop=stop) if (expand and fi is not None) else copy.deepcopy(e)
        return norm(canon(x))

    def rvalues(self, fi: FunctionInfo, e: ast.expr, at: ast.AST, g: Optional[CFG] = None, start: Optional[Node] = None,
                keep: Optional[Callable[[str], bool]] = None, depth: int = 3, calls: bool = False) -> List[Tuple[Conj, str]]:
        """Reaching conditional values of expression `e` at statement `at`: for every acyclic path
        to `at`, locals in `e` are replaced by their last definition on that path (recursively, to
        `depth`), conditional expressions are split; the result is a list of (path guard, canonical
        value text), merged per value.  `keep(atom_text)` filters which guard atoms are retained."""
        g = g or self.cfg(fi, "plain")
        nodes = g.nodes_of(at) if not isinstance(at, Node) else [at]
        if not nodes:
            raise AnalysisError("rvalues: statement has no CFG node")
        target = nodes[0]
        paths = g.enum_paths(start or g.entry, {target}, skip_labels=lambda l: is_exc(l) or is_back(l))
        out: List[Tuple[Conj, str]] = []
        for path in paths:
            conj: List[Conj] = [frozenset()]
            last: Dict[str, ast.expr] = {}
            nullk: Dict[str, str] = {}
            dead = False
            for (n, l) in path[:-1]:
                if n.kind == "test" and cfgm.branch_of(l):
                    d_ = self.dnf(n.ast, cfgm.branch_of(l) == "T", fi)
                    # prune by what is known about the None-ness of locals on this path
                    d2 = []
                    for c_ in d_:
                        okc = True
                        keepc = set()
                        for (a_, p_) in c_:
                            if a_.startswith("none(") and a_[5:-1] in nullk:
                                if (nullk[a_[5:-1]] == "none") != p_:
                                    okc = False
                                    break
                                continue   # implied
                            keepc.add((a_, p_))
                        if okc:
                            d2.append(frozenset(keepc))
                    conj = _and_all([conj, d2]) if d2 else []
                    if not conj:
                        dead = True
                        break
                elif n.kind == "stmt" and isinstance(n.ast, (ast.Assign, ast.AnnAssign)) and n.ast.value is not None:
                    tg = n.ast.targets[0] if isinstance(n.ast, ast.Assign) and len(n.ast.targets) == 1 else (n.ast.target if isinstance(n.ast, ast.AnnAssign) else None)
                    pairs = []
                    if isinstance(tg, ast.Name):
                        pairs = [(tg.id, n.ast.value)]
                    elif isinstance(tg, (ast.Tuple, ast.List)):
                        v_ = n.ast.value
                        if isinstance(v_, (ast.Tuple, ast.List)) and len(v_.elts) == len(tg.elts) and not any(isinstance(x, ast.Starred) for x in tg.elts + v_.elts):
                            pairs = [(a.id, b) for a, b in zip(tg.elts, v_.elts) if isinstance(a, ast.Name)]
                        else:
                            for x in ast.walk(tg):
                                if isinstance(x, ast.Name):
                                    last.pop(x.id, None)
                    for (nm_, val_) in pairs:
                        nk = self.nullness(val_, fi)
                        if nk is None and isinstance(val_, ast.Name) and val_.id in nullk:
                            nk = nullk[val_.id]
                        if nk is None:
                            nullk.pop(nm_, None)
                        else:
                            nullk[nm_] = nk
                        # call results are not propagated (a call is an effect, and its text would hide the local's role)
                        if not calls and any(isinstance(x, ast.Call) for x in ast.walk(val_)):
                            last.pop(nm_, None)
                        else:
                            last[nm_] = val_
                elif n.kind == "stmt" and isinstance(n.ast, ast.AugAssign) and isinstance(n.ast.target, ast.Name):
                    last.pop(n.ast.target.id, None)
            if dead:
                continue

            def subst(x: ast.expr, d: int) -> ast.expr:
                if d <= 0:
                    return x

                class T(ast.NodeTransformer):
                    def visit_Name(self, nm):
                        if isinstance(nm.ctx, ast.Load) and nm.id in last:
                            return subst(copy.deepcopy(last[nm.id]), d - 1)
                        return nm

                    def visit_Lambda(self, nm):
                        return nm
                return T().visit(copy.deepcopy(x))
            val = subst(e, depth)

            class FoldNone(ast.NodeTransformer):
                def visit_Compare(self_, c):
                    self_.generic_visit(c)
                    if len(c.ops) == 1 and isinstance(c.ops[0], (ast.Is, ast.IsNot)) and isinstance(c.comparators[0], ast.Constant) and c.comparators[0].value is None:
                        k = None
                        if isinstance(c.left, ast.Name) and c.left.id in nullk:
                            k = nullk[c.left.id]
                        elif isinstance(c.left, ast.Constant):
                            k = "none" if c.left.value is None else "notnone"
                        if k is not None:
                            return ast.copy_location(ast.Constant(value=((k == "none") == isinstance(c.ops[0], ast.Is))), c)
                    return c

                def visit_Lambda(self_, nm):
                    return nm
            val = FoldNone().visit(val)
            for (extra, v) in _split_ifexp(self, val, fi):
                for c1 in conj:
                    for e2 in extra:
                        c2 = c1 | e2
                        if _consistent(c2):
                            if keep is not None:
                                c2 = frozenset(a for a in c2 if keep(a[0]))
                            out.append((frozenset(c2), norm(canon(v))))
        by_val: Dict[str, List[Conj]] = {}
        for c, v in out:
            by_val.setdefault(v, []).append(c)
        res = []
        for v, cs in by_val.items():
            for c in _simplify(cs):
                res.append((c, v))
        return sorted(res, key=lambda t: (t[1], sorted(t[0])))

    def all_paths_pass_dw(self, g: CFG, fi: FunctionInfo, src: Node, dst: Node, via: Iterable[Node], skip_labels=None) -> bool:
        """Must-pass-through that knows do-while loops: `flag = True; while flag: …` / `while True: …` run their
        body at least once, so the loop's exit edge is only reachable after an iteration.  The exit edge of such a
        loop is ignored when every iteration passes a `via` node (otherwise the plain rule applies)."""
        via = list(via)
        dw_edges = []
        for n in g.nodes:
            if n.kind == "test" and isinstance(n.info, ast.While) and n.ast is n.info.test:
                loop = n.info
                first_true = isinstance(loop.test, ast.Constant) and loop.test.value is True
                if isinstance(loop.test, ast.Name):
                    pd = self.preceding_def(loop, loop.test.id)
                    first_true = isinstance(pd, ast.Constant) and pd.value is True
                if not first_true:
                    continue
                body_entry = [m for (m, l) in n.succ if cfgm.branch_of(l) == "T"]
                r = g.reach(body_entry, removed=via, skip_labels=skip_labels)
                skips = any(any(m is n and is_back(l) for (m, l) in x.succ) for x in r)
                if not skips:
                    dw_edges.append((n, "F"))
        if src in via or dst in via:
            return True
        return dst not in g.reach([src], removed=via, skip_labels=skip_labels, removed_edges=dw_edges)

    def eval_guard(self, test: ast.expr, sub: ast.AST, fi: Optional[FunctionInfo]) -> List[Conj]:
        """Condition under which the sub-expression `sub` of the test expression `test` is evaluated at all
        (short-circuit evaluation): in `a and b`, b runs only if a is true; in `a or b`, only if a is false."""
        def contains(x):
            return any(y is sub for y in ast.walk(x))
        if test is sub or not contains(test):
            return [frozenset()]
        if isinstance(test, ast.BoolOp):
            pre: List[List[Conj]] = []
            for v in test.values:
                if contains(v):
                    return _and_all(pre + [self.eval_guard(v, sub, fi)]) if pre else self.eval_guard(v, sub, fi)
                pre.append(self.dnf(v, isinstance(test.op, ast.And), fi))
        if isinstance(test, ast.UnaryOp):
            return self.eval_guard(test.operand, sub, fi)
        return [frozenset()]

    def edges_not_true(self, g: CFG, fi: FunctionInfo, call: ast.Call) -> List[Tuple[Node, str]]:
        """Branch edges of the test node containing `call` on which the call did NOT return a true value
        (it returned false, or was not evaluated because of short-circuiting)."""
        atom = self.atom(call, fi)[0]
        out = []
        for n in g.nodes:
            if n.kind == "test" and n.ast is not None and any(x is call for x in ast.walk(n.ast)):
                for lab in ("T", "F"):
                    d = self.dnf(n.ast, lab == "T", fi, inline=False)
                    if d and not any((atom, True) in c for c in d):
                        out.append((n, lab))
        return out

    def edges_implying(self, g: CFG, fi: FunctionInfo, atom: str, pol: bool, inline_preds=False) -> List[Tuple[Node, str]]:
        """Branch edges (test node, 'T'|'F') whose condition implies atom == pol, whatever the spelling
        (`if not x: …` / `if x: … else …` / `x and y`)."""
        out = []
        for n in g.nodes:
            if n.kind == "test" and n.ast is not None:
                for lab in ("T", "F"):
                    try:
                        d = self.dnf(n.ast, lab == "T", fi, inline_preds=inline_preds)
                    except Exception:
                        continue
                    if d and all((atom, pol) in c for c in d):
                        out.append((n, lab))
        return out

    def ret_values(self, f: FunctionInfo, bind: Optional[Dict[str, str]] = None, keep=None) -> List[Tuple[Conj, str]]:
        """Conditional return values of a function: (guard, canonical value text) per return, with
        conditional expressions split and parameters textually replaced by `bind`."""
        g = self.cfg(f, "plain")
        out: List[Tuple[Conj, str]] = []
        for n in g.nodes:
            if n.kind == "stmt" and isinstance(n.ast, ast.Return) and n.ast.value is not None:
                out.extend(self.rvalues(f, n.ast.value, n, g, keep=keep))
        if bind:
            import re as _re

            def sub(t: str) -> str:
                for k, v in bind.items():
                    t = _re.sub(r"\b%s\b" % _re.escape(k), v, t)
                return t
            out = [(frozenset((sub(a), p_) for a, p_ in c), sub(v)) for c, v in out]
        return out

    def cvalues(self, fi: FunctionInfo, name: str, g: Optional[CFG] = None, start: Optional[Node] = None,
                stop: Iterable[str] = ()) -> List[Tuple[Conj, str]]:
        """Conditional value set of a local: one (guard, canonical value text) per
        definition, with conditional expressions split — so that
        `x = a if c else b` and `if c: x = a / else: x = b` give the same set."""
        g = g or self.cfg(fi, "plain")
        out: List[Tuple[Conj, str]] = []
        for d in self.defs(fi, name):
            if not isinstance(d, (ast.Assign, ast.AnnAssign)) or d.value is None:
                continue
            if isinstance(d, ast.Assign) and not (len(d.targets) == 1 and isinstance(d.targets[0], ast.Name)):
                continue
            nodes = g.nodes_of(d)
            if not nodes:
                continue
            guards = self.path_guards(g, start or g.entry, nodes[0], fi)
            for conj in guards:
                for (extra, val) in _split_ifexp(self, d.value, fi):
                    for e2 in extra:
                        c2 = conj | e2
                        if _consistent(c2):
                            out.append((frozenset(c2), self.ctext(val, fi, stop=list(stop) + [name])))
        # merge entries with the same value
        by_val: Dict[str, List[Conj]] = {}
        for c, v in out:
            by_val.setdefault(v, []).append(c)
        res = []
        for v, cs in by_val.items():
            for c in _simplify(cs):
                res.append((c, v))
        return sorted(res, key=lambda t: (t[1], sorted(t[0])))

    # ---------------------------------------------------- boolean guards
    def atom(self, e: ast.expr, fi: Optional[FunctionInfo]) -> Atom:
        """Canonical atom (text, polarity) for a non-boolean-operator test."""
        def tx(x):
            # canonical spelling (comprehension variables renamed, map/filter/lambda unified)
            if any(isinstance(y, (ast.Lambda, ast.GeneratorExp, ast.ListComp)) for y in ast.walk(x)):
                return norm(canon(x))
            return norm(x)
        if isinstance(e, ast.UnaryOp) and isinstance(e.op, ast.Not):
            a, pol = self.atom(e.operand, fi)
            return (a, not pol)
        if isinstance(e, ast.Compare) and len(e.ops) == 1:
            op, l, r = e.ops[0], e.left, e.comparators[0]
            # len(X) ? k
            def is_len(x):
                return isinstance(x, ast.Call) and isinstance(x.func, ast.Name) and x.func.id == "len" and len(x.args) == 1
            def const(x):
                return x.value if isinstance(x, ast.Constant) and isinstance(x.value, int) and not isinstance(x.value, bool) else None
            if is_len(l) and const(r) is not None:
                X, k = tx(l.args[0]), const(r)
                if (isinstance(op, ast.Eq) and k == 0) or (isinstance(op, ast.Lt) and k == 1) or (isinstance(op, ast.LtE) and k == 0):
                    return ("empty(%s)" % X, True)
                if (isinstance(op, ast.NotEq) and k == 0) or (isinstance(op, ast.Gt) and k == 0) or (isinstance(op, ast.GtE) and k == 1):
                    return ("empty(%s)" % X, False)
            if is_len(r) and const(l) is not None:
                X, k = tx(r.args[0]), const(l)
                if (isinstance(op, ast.Eq) and k == 0) or (isinstance(op, ast.Gt) and k == 1) or (isinstance(op, ast.GtE) and k == 0):
                    return ("empty(%s)" % X, True)
                if (isinstance(op, ast.NotEq) and k == 0) or (isinstance(op, ast.Lt) and k == 0) or (isinstance(op, ast.LtE) and k == 1):
                    return ("empty(%s)" % X, False)
            if isinstance(op, (ast.Is, ast.IsNot)) and isinstance(r, ast.Constant) and r.value is None:
                # `x = M.get(k)` … `x is None`  ≡  `k not in M`  (a memo whose values are never None)
                mg = self.memo_get(l, fi, e)
                if mg is not None:
                    return ("in(%s,%s)" % (tx(mg[0]), tx(mg[1])), isinstance(op, ast.IsNot))
                return ("none(%s)" % tx(l), isinstance(op, ast.Is))
            if isinstance(op, ast.Lt):
                return ("lt(%s,%s)" % (tx(l), tx(r)), True)
            if isinstance(op, ast.Gt):
                return ("lt(%s,%s)" % (tx(r), tx(l)), True)
            if isinstance(op, ast.GtE):
                return ("lt(%s,%s)" % (tx(l), tx(r)), False)
            if isinstance(op, ast.LtE):
                return ("lt(%s,%s)" % (tx(r), tx(l)), False)
            if isinstance(op, (ast.Eq, ast.NotEq)):
                a, b = sorted([tx(l), tx(r)])
                return ("eq(%s,%s)" % (a, b), isinstance(op, ast.Eq))
            if isinstance(op, (ast.In, ast.NotIn)):
                return ("in(%s,%s)" % (tx(l), tx(r)), isinstance(op, ast.In))
            if isinstance(op, (ast.Is, ast.IsNot)):
                a, b = sorted([tx(l), tx(r)])
                # members of an Enum are singletons: identity and equality with a member are the same test
                if self._enum_member(l) or self._enum_member(r):
                    return ("eq(%s,%s)" % (a, b), isinstance(op, ast.Is))
                return ("is(%s,%s)" % (a, b), isinstance(op, ast.Is))
        if isinstance(e, ast.Constant):
            return ("const", bool(e.value))
        # truthiness of a sized container == not empty
        ty = None
        try:
            src = getattr(e, "_func", None) or fi
            ty = self.res.type_of(e, src) if hasattr(e, "_module") else None
        except Exception:
            ty = None
        if ty is not None and ty[0] in ("list", "dict", "set", "deque", "tuple", "str", "bytes", "frozenset"):
            return ("empty(%s)" % tx(e), False)
        if isinstance(e, ast.Call) and isinstance(e.func, ast.Name) and e.func.id == "bool" and len(e.args) == 1:
            return self.atom(e.args[0], fi)
        return ("t(%s)" % tx(e), True)

    def nullness(self, e: ast.expr, fi: Optional[FunctionInfo]) -> Optional[str]:
        """'none' / 'notnone' when the expression's None-ness is evident (a constant, a display, a constructor call,
        a call of a project function whose declared return type is not Optional), else None."""
        if isinstance(e, ast.Constant):
            return "none" if e.value is None else "notnone"
        if isinstance(e, (ast.List, ast.Tuple, ast.Dict, ast.Set, ast.JoinedStr, ast.ListComp, ast.SetComp, ast.DictComp, ast.GeneratorExp, ast.Lambda)):
            return "notnone"
        if isinstance(e, ast.Call) and hasattr(e, "_module"):
            try:
                cs = self.res.callees(e)
            except Exception:
                cs = []
            if not cs:
                return None
            for c in cs:
                f = self.prog.functions.get(c)
                if f is None:
                    return "notnone" if c in self.prog.classes else None
                if f.name == "__init__":
                    continue
                ann = f.node.returns
                if ann is None:
                    return None
                t_ = ast.unparse(ann)
                if "Optional" in t_ or "None" in t_ or "Any" in t_ or "Union" in t_:
                    return None
            return "notnone"
        return None

    def memo_get(self, x: ast.expr, fi: Optional[FunctionInfo], at: Optional[ast.AST] = None) -> Optional[Tuple[ast.expr, ast.expr]]:
        """(key, memo) when x is — or is a local that holds, at `at` — the result of `memo.get(key)` on a
        dict into which the function never stores None."""
        v = x
        if isinstance(x, ast.Name) and fi is not None:
            v = self.single_def_value(fi, x.id)
            if v is None and at is not None:
                st = at
                while st is not None and not isinstance(st, ast.stmt):
                    st = getattr(st, "_parent", None)
                if st is not None:
                    v = self.preceding_def(st, x.id)
        if not (isinstance(v, ast.Call) and isinstance(v.func, ast.Attribute) and v.func.attr == "get" and len(v.args) == 1 and not v.keywords):
            return None
        memo = v.func.value
        if fi is not None:
            ty = None
            try:
                ty = self.res.type_of(memo, fi) if hasattr(memo, "_module") else None
            except Exception:
                ty = None
            if ty is not None and ty[0] != "dict":
                return None
            for n in walk_local(fi.node):
                if isinstance(n, ast.Assign) and any(isinstance(t_, ast.Subscript) and norm(t_.value) == norm(memo) for t_ in n.targets) \
                        and isinstance(n.value, ast.Constant) and n.value.value is None:
                    return None
        return (v.args[0], memo)

    def _is_new_predicate(self, call: ast.Call) -> bool:
        """`recv.pred()` whose only callee is a method the reference tree does not have (a predicate somebody introduced):
        it is read through, like any other unknown helper."""
        kf = getattr(self.prog, "known_functions", None)
        if kf is None or call.args or call.keywords or not isinstance(call.func, ast.Attribute) or not hasattr(call, "_module"):
            return False
        try:
            cs = [c for c in self.res.callees(call) if c in self.prog.functions]
        except Exception:
            return False
        return len(cs) == 1 and cs[0] not in kf

    def pred_body(self, call: ast.Call, fi: Optional[FunctionInfo]) -> Optional[ast.expr]:
        """If `call` is `recv.pred()` (no arguments) of a repository method whose body is a single
        `return <expr>`, the returned expression with `self` replaced by the receiver."""
        if call.args or call.keywords or not isinstance(call.func, ast.Attribute) or not hasattr(call, "_module"):
            return None
        cs = [c for c in self.res.callees(call) if c in self.prog.functions]
        if len(cs) != 1:
            return None
        f = self.prog.functions[cs[0]]
        body = [b for b in f.node.body if not (isinstance(b, ast.Expr) and isinstance(b.value, ast.Constant))]
        if f.is_static or len(f.params) != 1:
            return None
        if len(body) != 1 or not isinstance(body[0], ast.Return) or body[0].value is None:
            # `if T: return V … return W` (guard clauses only): the value as one boolean expression
            def as_expr(stmts):
                if not stmts:
                    return None
                st = stmts[0]
                if isinstance(st, ast.Return) and st.value is not None:
                    return st.value
                if isinstance(st, ast.If):
                    a = as_expr(list(st.body))
                    b = as_expr(list(st.orelse) if st.orelse else stmts[1:])
                    if a is None or b is None:
                        return None
                    def const(x, v):
                        return isinstance(x, ast.Constant) and x.value is v
                    if const(a, True):        # if T: return True; return b   ≡   T or b
                        return ast.BoolOp(op=ast.Or(), values=[st.test, b])
                    if const(a, False):       # if T: return False; return b  ≡   not T and b
                        return ast.BoolOp(op=ast.And(), values=[ast.UnaryOp(op=ast.Not(), operand=st.test), b])
                    if const(b, False):       # if T: return a; return False  ≡   T and a
                        return ast.BoolOp(op=ast.And(), values=[st.test, a])
                    if const(b, True):        # if T: return a; return True   ≡   not T or a
                        return ast.BoolOp(op=ast.Or(), values=[ast.UnaryOp(op=ast.Not(), operand=st.test), a])
                    return ast.BoolOp(op=ast.Or(), values=[ast.BoolOp(op=ast.And(), values=[st.test, a]),
                                                           ast.BoolOp(op=ast.And(), values=[ast.UnaryOp(op=ast.Not(), operand=st.test), b])])
                return None
            whole = as_expr(body)
            if whole is None:
                return None
            body = [ast.Return(value=whole)]
        recv = call.func.value

        class R(ast.NodeTransformer):
            def visit_Name(self, n):
                if n.id == f.params[0]:
                    return copy.deepcopy(recv)
                return n
        new = R().visit(copy.deepcopy(body[0].value))
        for sub in ast.walk(new):
            if not hasattr(sub, "_module"):
                sub._module = f.module  # type: ignore[attr-defined]
                sub._func = f  # type: ignore[attr-defined]
        return new

    def dnf(self, e: ast.expr, positive: bool, fi: Optional[FunctionInfo], inline=True, _depth=0, inline_preds=False, xstop=None) -> List[Conj]:
        """DNF of a test expression (negated when positive=False). Local
        booleans with a single assignment are inlined."""
        if isinstance(e, ast.Call) and _depth < 4 and (inline_preds or self._is_new_predicate(e)):
            pb = self.pred_body(e, fi)
            if pb is not None:
                # a predicate read through only because it is new keeps the caller's setting for the known ones inside it
                return self.dnf(pb, positive, fi, inline=False, _depth=_depth + 1, inline_preds=inline_preds)
        if isinstance(e, ast.BoolOp):
            is_and = isinstance(e.op, ast.And)
            parts = [self.dnf(v, positive, fi, inline, _depth, inline_preds, xstop) for v in e.values]
            if is_and == positive:  # conjunction
                return _and_all(parts)
            out: List[Conj] = []
            for p_ in parts:
                out.extend(p_)
            return _simplify(out)
        if isinstance(e, ast.UnaryOp) and isinstance(e.op, ast.Not):
            return self.dnf(e.operand, not positive, fi, inline, _depth, inline_preds, xstop)
        # `x is None` where x = (a if c else b):  (c and a is None) or (not c and b is None)
        if getattr(self, "split_none_tests", False) and isinstance(e, ast.Compare) and len(e.ops) == 1 and isinstance(e.ops[0], (ast.Is, ast.IsNot)) and isinstance(e.comparators[0], ast.Constant) \
                and e.comparators[0].value is None and isinstance(e.left, ast.Name) and fi is not None and _depth < 6:
            v = self.single_def_value(fi, e.left.id)
            if isinstance(v, ast.IfExp):
                def isnone(x):
                    c_ = ast.Compare(left=x, ops=[e.ops[0]], comparators=[ast.Constant(value=None)])
                    return c_
                alt = ast.BoolOp(op=ast.Or(), values=[ast.BoolOp(op=ast.And(), values=[v.test, isnone(v.body)]),
                                                      ast.BoolOp(op=ast.And(), values=[ast.UnaryOp(op=ast.Not(), operand=v.test), isnone(v.orelse)])])
                return self.dnf(alt, positive, fi, inline, _depth + 1, inline_preds, xstop)
        if isinstance(e, ast.Compare) and len(e.ops) == 1 and isinstance(e.ops[0], (ast.Is, ast.IsNot)) and isinstance(e.comparators[0], ast.Constant) \
                and e.comparators[0].value is None and isinstance(e.left, ast.Constant):
            truth = (e.left.value is None) == isinstance(e.ops[0], ast.Is)
            return [frozenset()] if truth == positive else []
        # (a, b) == (c, d)  ≡  a == c and b == d   (tuple displays of equal length)
        if isinstance(e, ast.Compare) and len(e.ops) == 1 and isinstance(e.ops[0], (ast.Eq, ast.NotEq)) and isinstance(e.left, ast.Tuple) \
                and isinstance(e.comparators[0], ast.Tuple) and len(e.left.elts) == len(e.comparators[0].elts) and e.left.elts \
                and not any(isinstance(x, ast.Starred) for x in e.left.elts + e.comparators[0].elts):
            parts = [ast.copy_location(ast.Compare(left=l_, ops=[ast.Eq()], comparators=[r_]), e) for l_, r_ in zip(e.left.elts, e.comparators[0].elts)]
            for p_ in parts:
                for sub_ in ast.walk(p_):
                    if not hasattr(sub_, "_module") and hasattr(e, "_module"):
                        sub_._module = e._module  # type: ignore[attr-defined]
            conj_ = ast.BoolOp(op=ast.And(), values=parts) if len(parts) > 1 else parts[0]
            return self.dnf(conj_, positive == isinstance(e.ops[0], ast.Eq), fi, inline, _depth, inline_preds, xstop)
        # isinstance(x, (A, B))  ≡  isinstance(x, A) or isinstance(x, B)
        if isinstance(e, ast.Call) and isinstance(e.func, ast.Name) and e.func.id == "isinstance" and len(e.args) == 2 and isinstance(e.args[1], ast.Tuple) and e.args[1].elts:
            alts = [ast.copy_location(ast.Call(func=e.func, args=[e.args[0], t_], keywords=[]), e) for t_ in e.args[1].elts]
            for a_ in alts:
                for sub in ast.walk(a_):
                    if not hasattr(sub, "_module") and hasattr(e, "_module"):
                        sub._module = e._module  # type: ignore[attr-defined]
            return self.dnf(ast.BoolOp(op=ast.Or(), values=alts), positive, fi, inline, _depth, inline_preds, xstop)
        if inline and isinstance(e, ast.Name) and fi is not None and _depth < 6:
            v = self.single_def_value(fi, e.id)
            if v is not None and isinstance(v, (ast.BoolOp, ast.Compare, ast.UnaryOp, ast.Call, ast.Name, ast.Attribute)):
                return self.dnf(v, positive, fi, inline, _depth + 1, inline_preds, xstop)
        if isinstance(e, ast.IfExp) or isinstance(e, ast.NamedExpr):
            pass
        if xstop is not None and fi is not None:
            src_fi = getattr(e, "_func", None) or fi
            e2 = self.expand(e, src_fi, stop=xstop)
            a, pol = self.atom(e2, fi)
        else:
            a, pol = self.atom(e, fi)
        if a == "const":
            return [frozenset()] if pol == positive else []
        return [frozenset({(a, pol == positive)})]

    def const_elements(self, m, name: str) -> Optional[List[str]]:
        """Normalised element texts of a module-level tuple/list/set/frozenset constant."""
        vals = m.assigns.get(name)
        if not vals or len(vals) != 1:
            return None
        v = vals[0]
        if isinstance(v, ast.Call) and norm(v.func) in ("frozenset", "set", "tuple", "list") and len(v.args) == 1:
            v = v.args[0]
        if isinstance(v, (ast.Tuple, ast.List, ast.Set)):
            return [norm(x) for x in v.elts]
        return None

    def path_guards(self, g: CFG, start: Node, target: Node, fi: FunctionInfo, extra_stop: Iterable[Node] = (), inline_preds=False, xstop=None) -> List[Conj]:
        """DNF of the condition under which control flows start ->* target along
        normal (non-exceptional, non-back) edges."""
        paths = g.enum_paths(start, {target}, skip_labels=lambda l: is_exc(l) or is_back(l), stop=set(extra_stop))
        out: List[Conj] = []
        for path in paths:
            conj: List[Conj] = [frozenset()]
            dead = False
            for (n, l) in path:
                if n.kind == "test" and cfgm.branch_of(l):
                    d = self.dnf(n.ast, cfgm.branch_of(l) == "T", fi, inline_preds=inline_preds, xstop=xstop)
                    conj = _and_all([conj, d])
                    if not conj:
                        dead = True
                        break
            if not dead:
                out.extend(conj)
        return _simplify(out)

    # ------------------------------------------------------- structure
    def loop_body_nodes(self, g: CFG, loop_stmt: ast.stmt) -> Set[Node]:
        ids = {id(n) for n in ast.walk(loop_stmt)}
        return {n for n in g.nodes if (n.ast is not None and id(n.ast) in ids)}

    def stmt_nodes_matching(self, g: CFG, pred) -> List[Node]:
        return [n for n in g.nodes if n.ast is not None and n.kind in ("stmt", "test", "for", "with") and pred(n)]

    def nodes_calling(self, g: CFG, *targets: str) -> List[Node]:
        out = []
        for n in g.nodes:
            if n.ast is None or n.kind in ("except",):
                continue
            root = n.ast
            if n.kind == "for":
                continue
            if self.calls_in(root, *targets):
                out.append(n)
        return out

    # ------------------------------------------------------- class fields
    def field_stores(self, cls_fq: str, attr: str) -> List[Tuple[FunctionInfo, ast.stmt, Optional[ast.expr]]]:
        """All `self.attr = value` (and `x.attr = value` where x has the class
        type) stores in the package."""
        out = []
        for fi in self.prog.scan_functions:
            for node in walk_local(fi.node):
                tgt = val = None
                if isinstance(node, ast.Assign):
                    for tg in node.targets:
                        if isinstance(tg, ast.Attribute) and tg.attr == attr:
                            tgt, val = tg, node.value
                elif isinstance(node, (ast.AnnAssign, ast.AugAssign)) and isinstance(node.target, ast.Attribute) and node.target.attr == attr:
                    tgt, val = node.target, node.value
                if tgt is None:
                    continue
                bt = self.res.type_of(tgt.value, fi)
                if bt is not None and bt[0] in self.prog.classes and (self.prog.is_subclass(bt[0], cls_fq) or self.prog.is_subclass(cls_fq, bt[0])):
                    out.append((fi, node, val))
        return out

    def constructions(self, cls_fq: str) -> List[Tuple[FunctionInfo, ast.Call]]:
        out = []
        for fq, sites in self.cg.sites.items():
            if self.prog.functions[fq].inlined:
                continue
            for (c, exp) in sites:
                if cls_fq in self.res.callees(c):
                    out.append((self.prog.functions[fq], c))
        return out


def _split_ifexp(A, e: ast.expr, fi) -> List[Tuple[List[Conj], ast.expr]]:
    """[(guard DNF, value)] for a (possibly nested) conditional expression."""
    if isinstance(e, ast.IfExp):
        t = A.dnf(e.test, True, fi)
        f = A.dnf(e.test, False, fi)
        out = []
        for (g1, v) in _split_ifexp(A, e.body, fi):
            out.append((_and_all([t, g1]), v))
        for (g1, v) in _split_ifexp(A, e.orelse, fi):
            out.append((_and_all([f, g1]), v))
        return out
    return [([frozenset()], e)]


class _Canon(ast.NodeTransformer):
    """Unifies equivalent spellings:
    map(lambda x: B, IT) / [B for x in IT] / (B for x in IT)  -> (B for _v in IT)
    filter(lambda x: P, IT) -> (_v for _v in IT if P);  filter(None, IT) -> (_v for _v in IT if _v)
    comprehension / lambda variables renamed to _v0, _v1, …; keyword arguments sorted."""

    def __init__(self):
        self.k = 0

    def _fresh(self):
        self.k += 1
        return "_v%d" % (self.k - 1)

    def visit_ListComp(self, n):
        return self.visit(ast.GeneratorExp(elt=n.elt, generators=n.generators))

    def visit_GeneratorExp(self, n):
        ren = {}
        for gen in n.generators:
            for x in ast.walk(gen.target):
                if isinstance(x, ast.Name) and x.id not in ren:
                    ren[x.id] = self._fresh()
        n = _Rename(ren).visit(n)
        self.generic_visit(n)
        return n

    def visit_Call(self, c):
        if isinstance(c.func, ast.Name) and c.func.id in ("map", "filter") and len(c.args) == 2 and not c.keywords:
            fn, it = c.args
            if c.func.id == "map" and isinstance(fn, ast.Lambda) and len(fn.args.args) == 1:
                v = fn.args.args[0].arg
                return self.visit(ast.GeneratorExp(elt=fn.body, generators=[ast.comprehension(target=ast.Name(id=v, ctx=ast.Store()), iter=it, ifs=[], is_async=0)]))
            if c.func.id == "map" and isinstance(fn, (ast.Name, ast.Attribute)):
                v = "_m"
                return self.visit(ast.GeneratorExp(elt=ast.Call(func=fn, args=[ast.Name(id=v, ctx=ast.Load())], keywords=[]),
                                                   generators=[ast.comprehension(target=ast.Name(id=v, ctx=ast.Store()), iter=it, ifs=[], is_async=0)]))
            if c.func.id == "filter" and isinstance(fn, ast.Lambda) and len(fn.args.args) == 1:
                v = fn.args.args[0].arg
                return self.visit(ast.GeneratorExp(elt=ast.Name(id=v, ctx=ast.Load()),
                                                   generators=[ast.comprehension(target=ast.Name(id=v, ctx=ast.Store()), iter=it, ifs=[fn.body], is_async=0)]))
            if c.func.id == "filter" and isinstance(fn, ast.Constant) and fn.value is None:
                v = "_f"
                return self.visit(ast.GeneratorExp(elt=ast.Name(id=v, ctx=ast.Load()),
                                                   generators=[ast.comprehension(target=ast.Name(id=v, ctx=ast.Store()), iter=it, ifs=[ast.Name(id=v, ctx=ast.Load())], is_async=0)]))
        self.generic_visit(c)
        c.keywords = sorted(c.keywords, key=lambda k: k.arg or "")
        return c

    def visit_Lambda(self, n):
        ren = {a.arg: self._fresh() for a in n.args.args}
        n = _Rename(ren).visit(n)
        for a in n.args.args:
            a.arg = ren.get(a.arg, a.arg)
        self.generic_visit(n)
        return n


class _Rename(ast.NodeTransformer):
    def __init__(self, ren):
        self.ren = ren

    def visit_Name(self, n):
        if n.id in self.ren:
            return ast.copy_location(ast.Name(id=self.ren[n.id], ctx=n.ctx), n)
        return n


def fuse_comprehensions(e: ast.expr) -> ast.expr:
    """`[E(t) for t in [F(u) for u in IT] if C(t)]` is `[E(F(u)) for u in IT if C(F(u))]`: a comprehension over a
    comprehension (compute all, then filter / project) fused into one, when the outer target pattern matches the inner
    element (a name, or a tuple of names against a tuple display)."""
    if not isinstance(e, (ast.ListComp, ast.GeneratorExp)) or len(e.generators) != 1:
        return e
    og = e.generators[0]
    inner = og.iter
    if not isinstance(inner, (ast.ListComp, ast.GeneratorExp)) or len(inner.generators) != 1 or og.is_async or inner.generators[0].is_async:
        return e
    inner = fuse_comprehensions(inner)
    ig = inner.generators[0]
    mapping: Dict[str, ast.expr] = {}
    if isinstance(og.target, ast.Name):
        mapping[og.target.id] = inner.elt
    elif isinstance(og.target, ast.Tuple) and isinstance(inner.elt, ast.Tuple) and len(og.target.elts) == len(inner.elt.elts) \
            and all(isinstance(t, ast.Name) for t in og.target.elts):
        for t, v in zip(og.target.elts, inner.elt.elts):
            mapping[t.id] = v
    else:
        return e
    inner_names = {n.id for n in ast.walk(ig.target) if isinstance(n, ast.Name)}

    class S(ast.NodeTransformer):
        def visit_Name(self, n):
            if isinstance(n.ctx, ast.Load) and n.id in mapping:
                return copy.deepcopy(mapping[n.id])
            return n
    # an outer name that is also an inner variable and maps to exactly that variable is fine; other captures are not
    for k, v in mapping.items():
        if k in inner_names and not (isinstance(v, ast.Name) and v.id == k):
            return e
    new_elt = S().visit(copy.deepcopy(e.elt))
    new_ifs = [copy.deepcopy(c) for c in ig.ifs] + [S().visit(copy.deepcopy(c)) for c in og.ifs]
    gen = ast.comprehension(target=copy.deepcopy(ig.target), iter=copy.deepcopy(ig.iter), ifs=new_ifs, is_async=0)
    out = type(e)(elt=new_elt, generators=[gen])
    return ast.fix_missing_locations(ast.copy_location(out, e))


def pathparts(e: ast.expr) -> List[str]:
    """Components of a path-building expression: `pathlib.Path(a, b)`, `Path(a) / b` and `a / b` are all [a, b]."""
    if isinstance(e, ast.BinOp) and isinstance(e.op, ast.Div):
        return pathparts(e.left) + pathparts(e.right)
    if isinstance(e, ast.Call) and norm(e.func) in ("pathlib.Path", "Path", "pathlib.PurePath") and e.args and not e.keywords \
            and not any(isinstance(a, ast.Starred) for a in e.args):
        out: List[str] = []
        for a in e.args:
            out.extend(pathparts(a))
        return out
    return [norm(e)]


def strparts(e: ast.expr) -> Optional[List[str]]:
    """A string-building expression as a list of concatenated parts (texts of the non-literal
    parts, repr of literals): handles `a + b`, `'{}{}.{}'.format(a, b, c)`, f-strings."""
    if isinstance(e, ast.BinOp) and isinstance(e.op, ast.Add):
        l, r = strparts(e.left), strparts(e.right)
        return None if l is None or r is None else _merge_lits(l + r)
    if isinstance(e, ast.Constant) and isinstance(e.value, str):
        return [repr(e.value)] if e.value else []
    if isinstance(e, ast.JoinedStr):
        out: List[str] = []
        for v in e.values:
            if isinstance(v, ast.Constant):
                out.append(repr(v.value))
            elif isinstance(v, ast.FormattedValue) and v.format_spec is None and v.conversion in (-1, 115):
                sub = strparts(v.value)
                out.extend(sub if sub is not None and not (len(sub) == 1 and sub[0] == norm(v.value)) else ["str(%s)" % norm(v.value) if not norm(v.value).startswith("str(") else norm(v.value)])
            else:
                return None
        return _merge_lits(out)
    if isinstance(e, ast.Call) and isinstance(e.func, ast.Attribute) and e.func.attr == "format" and isinstance(e.func.value, ast.Constant) \
            and isinstance(e.func.value.value, str) and not e.keywords:
        import string
        out = []
        args = list(e.args)
        i = 0
        try:
            for lit, field, spec, conv in string.Formatter().parse(e.func.value.value):
                if lit:
                    out.append(repr(lit))
                if field is None:
                    continue
                if field != "" or spec or conv:
                    return None
                if i >= len(args):
                    return None
                sub = strparts(args[i])
                out.extend(sub if sub is not None else [norm(args[i])])
                i += 1
        except ValueError:
            return None
        return _merge_lits(out)
    # ''.join([a, b, c]) is a + b + c
    if isinstance(e, ast.Call) and isinstance(e.func, ast.Attribute) and e.func.attr == "join" and isinstance(e.func.value, ast.Constant) \
            and e.func.value.value == "" and len(e.args) == 1 and not e.keywords and isinstance(e.args[0], (ast.List, ast.Tuple)) \
            and not any(isinstance(x, ast.Starred) for x in e.args[0].elts):
        out = []
        for x in e.args[0].elts:
            sub = strparts(x)
            if sub is None:
                return None
            out.extend(sub)
        return _merge_lits(out)
    return [norm(e)]


def _is_str_lit(p_: str) -> bool:
    try:
        return isinstance(ast.literal_eval(p_), str)
    except Exception:
        return False


def _merge_lits(parts: List[str]) -> List[str]:
    out: List[str] = []
    for p_ in parts:
        if out and _is_str_lit(out[-1]) and _is_str_lit(p_):
            out[-1] = repr(ast.literal_eval(out[-1]) + ast.literal_eval(p_))  # both are reprs of str literals produced above
        else:
            out.append(p_)
    return out


def canon(e: ast.AST) -> ast.AST:
    return ast.fix_missing_locations(_Canon().visit(copy.deepcopy(e)))


def ctext_of(e: ast.AST) -> str:
    return norm(canon(e))


def _and_all(parts: List[List[Conj]]) -> List[Conj]:
    acc: List[Conj] = [frozenset()]
    for p_ in parts:
        nxt: List[Conj] = []
        for a in acc:
            for b in p_:
                c = a | b
                if _consistent(c):
                    nxt.append(c)
        acc = nxt
        if len(acc) > 256:
            raise AnalysisError("guard DNF exceeds 256 disjuncts")
    return _simplify(acc)


def _consistent(c: Conj) -> bool:
    seen = {}
    for a, pol in c:
        if seen.setdefault(a, pol) != pol:
            return False
    return True


def _simplify(d: List[Conj]) -> List[Conj]:
    cur = set(d)
    # merge {X, a} | {X, !a} -> {X} until a fixed point (removes conditions of
    # earlier, independent branches that a path merely passed through)
    changed = True
    while changed and len(cur) < 400:
        changed = False
        lst = sorted(cur, key=lambda c: (len(c), sorted(c)))
        for i, a in enumerate(lst):
            for b in lst[i + 1:]:
                if len(a) != len(b):
                    continue
                diff = a ^ b
                if len(diff) == 2:
                    (x, px), (y, py) = tuple(diff)
                    if x == y and px != py:
                        cur.discard(a)
                        cur.discard(b)
                        cur.add(a & b)
                        changed = True
                        break
            if changed:
                break
    out: List[Conj] = []
    for c in sorted(cur, key=lambda c: (len(c), sorted(c))):
        if any(o <= c for o in out):
            continue
        out.append(c)
    return out


def implies(guard: List[Conj], requirement: List[Set[Atom]]) -> Optional[Conj]:
    """Every disjunct of guard includes some requirement set.  Returns the
    first offending disjunct or None."""
    for c in guard:
        if not any(r <= c for r in requirement):
            return c
    return None


def fmt_conj(c: Iterable[Atom]) -> str:
    return " & ".join(("" if pol else "!") + a for a, pol in sorted(c)) or "true"
