"""Program model: parses /repo/src/conductor with `ast`, builds symbol tables,
import aliases, class hierarchy (with the builtin exception lattice) and
folds module-level string constants.  Nothing from the repository is imported
or executed."""
from __future__ import annotations

import ast
import builtins
import hashlib
import os
import pathlib
from typing import Dict, Iterator, List, Optional, Tuple

REPO = pathlib.Path(os.environ.get("VERIF_REPO", "/repo"))
SRC = REPO / "src"
PKG = "conductor"


class AnalysisError(Exception):
    """An anchor vanished / an idiom is not recognised / tooling failed.
    Never a verdict: the CLI turns it into exit code 2."""


# --------------------------------------------------------------------------
class FunctionInfo:
    def __init__(self, fq, name, node, module, cls=None, parent=None):
        self.fq: str = fq
        self.name: str = name
        self.node: ast.FunctionDef = node
        self.module: "Module" = module
        self.cls: Optional["ClassInfo"] = cls
        self.parent: Optional["FunctionInfo"] = parent  # enclosing function
        self.decorators = [ast.unparse(d) for d in node.decorator_list] if hasattr(node, "decorator_list") else []
        self.nested: Dict[str, "FunctionInfo"] = {}
        self.inlined = False  # an unknown helper whose body was inlined into its caller(s)

    @property
    def is_property(self):
        return "property" in self.decorators

    @property
    def is_static(self):
        return "staticmethod" in self.decorators

    @property
    def is_classmethod(self):
        return "classmethod" in self.decorators

    @property
    def params(self) -> List[str]:
        a = self.node.args
        return [x.arg for x in a.posonlyargs + a.args + a.kwonlyargs]

    def param_annotation(self, name) -> Optional[ast.expr]:
        a = self.node.args
        for x in a.posonlyargs + a.args + a.kwonlyargs:
            if x.arg == name:
                return x.annotation
        return None

    def param_default(self, name) -> Optional[ast.expr]:
        a = self.node.args
        pos = a.posonlyargs + a.args
        for i, x in enumerate(pos):
            if x.arg == name:
                j = i - (len(pos) - len(a.defaults))
                return a.defaults[j] if j >= 0 else None
        for x, d in zip(a.kwonlyargs, a.kw_defaults):
            if x.arg == name:
                return d
        return None

    def __repr__(self):
        return "<fn %s>" % self.fq

    @property
    def loc(self):
        return "%s:%d" % (self.module.relpath, self.node.lineno)


class ClassInfo:
    def __init__(self, fq, name, node, module, outer=None):
        self.fq = fq
        self.name = name
        self.node: ast.ClassDef = node
        self.module: "Module" = module
        self.outer = outer
        self.base_exprs = list(node.bases)
        self.bases: List[str] = []  # resolved fq names (repo or external)
        self.methods: Dict[str, FunctionInfo] = {}
        self.class_attrs: Dict[str, ast.expr] = {}
        self.class_attr_ann: Dict[str, ast.expr] = {}
        self.nested_classes: Dict[str, "ClassInfo"] = {}

    def __repr__(self):
        return "<class %s>" % self.fq


class Module:
    def __init__(self, name, path, relpath, src, tree):
        self.name = name
        self.path = path
        self.relpath = relpath
        self.src = src
        self.tree = tree
        self.imports: Dict[str, str] = {}  # local alias -> fq target
        self.star_imports: List[str] = []
        self.functions: Dict[str, FunctionInfo] = {}
        self.classes: Dict[str, ClassInfo] = {}
        self.assigns: Dict[str, List[ast.expr]] = {}  # module-level NAME = expr
        self.assign_nodes: Dict[str, List[ast.stmt]] = {}
        self.is_pkg = path.name == "__init__.py"

    def __repr__(self):
        return "<module %s>" % self.name


# --------------------------------------------------------------------------
_BUILTIN_EXC: Dict[str, List[str]] = {}
for _n in dir(builtins):
    _o = getattr(builtins, _n)
    if isinstance(_o, type) and issubclass(_o, BaseException):
        _BUILTIN_EXC[_n] = [b.__name__ for b in _o.__mro__[1:] if b is not object]
# a few library exceptions the repository mentions
_BUILTIN_EXC["sqlite3.IntegrityError"] = ["sqlite3.DatabaseError", "sqlite3.Error", "Exception", "BaseException"]
_BUILTIN_EXC["sqlite3.DatabaseError"] = ["sqlite3.Error", "Exception", "BaseException"]
_BUILTIN_EXC["sqlite3.Error"] = ["Exception", "BaseException"]
_BUILTIN_EXC["subprocess.CalledProcessError"] = ["subprocess.SubprocessError", "Exception", "BaseException"]
_BUILTIN_EXC["subprocess.SubprocessError"] = ["Exception", "BaseException"]


class Program:
    def __init__(self, src_root: pathlib.Path = SRC, pkg: str = PKG, inline: bool = True):
        self.src_root = pathlib.Path(src_root)
        self.pkg = pkg
        self.modules: Dict[str, Module] = {}
        self.classes: Dict[str, ClassInfo] = {}
        self.functions: Dict[str, FunctionInfo] = {}
        self.stats = dict(modules=0, classes=0, functions=0, calls=0, trys=0, raises=0, lines=0, inlined_calls=0)
        from .inline import load_known
        self.known_functions = load_known() if inline else None
        self.inlined_helpers: set = set()
        self._load()
        self._link()
        for fq in self.inlined_helpers:
            if fq in self.functions:
                self.functions[fq].inlined = True
        self.stats["inlined_helpers"] = len(self.inlined_helpers)

    # ---------------------------------------------------------------- load
    def _load(self):
        root = self.src_root / self.pkg
        if not root.is_dir():
            raise AnalysisError("source package not found: %s" % root)
        h = hashlib.sha256()
        parsed = []
        for path in sorted(root.rglob("*.py")):
            rel = path.relative_to(self.src_root)
            parts = list(rel.with_suffix("").parts)
            if parts[-1] == "__init__":
                parts = parts[:-1]
            name = ".".join(parts)
            src = path.read_text(encoding="utf-8")
            h.update(rel.as_posix().encode())
            h.update(src.encode())
            try:
                tree = ast.parse(src, filename=str(path))
            except SyntaxError as ex:
                raise AnalysisError("cannot parse %s: %s" % (rel, ex))
            parsed.append((name, path, rel, src, tree))
        foreign = {}
        if self.known_functions is not None:
            from .inline import collect_foreign
            foreign = collect_foreign({n: t for (n, _p, _r, _s, t) in parsed}, self.known_functions)
        for (name, path, rel, src, tree) in parsed:
            if self.known_functions is not None:
                from .inline import preprocess
                inl, n_inl = preprocess(name, tree, self.known_functions, foreign)
                self.inlined_helpers |= inl
                self.stats["inlined_calls"] += n_inl
            m = Module(name, path, "src/" + rel.as_posix(), src, tree)
            self.modules[name] = m
            self.stats["modules"] += 1
            self.stats["lines"] += src.count("\n")
            self._index_module(m)
        self.digest = h.hexdigest()[:16]

    def _index_module(self, m: Module):
        for node in ast.walk(m.tree):
            for ch in ast.iter_child_nodes(node):
                ch._parent = node  # type: ignore[attr-defined]
        m.tree._parent = None  # type: ignore[attr-defined]
        for node in ast.walk(m.tree):
            node._module = m  # type: ignore[attr-defined]
            if isinstance(node, ast.Call):
                self.stats["calls"] += 1
            elif isinstance(node, ast.Try):
                self.stats["trys"] += 1
            elif isinstance(node, ast.Raise):
                self.stats["raises"] += 1
        self._index_body(m, m.tree.body, prefix=m.name, cls=None, fn=None)
        # module level (also inside `if TYPE_CHECKING:` / try blocks)
        for node in self._toplevel_stmts(m.tree.body):
            if isinstance(node, ast.Import):
                for a in node.names:
                    if a.asname:
                        m.imports[a.asname] = a.name
                    else:
                        m.imports[a.name.split(".")[0]] = a.name.split(".")[0]
            elif isinstance(node, ast.ImportFrom):
                base = self._abs_from(m, node)
                for a in node.names:
                    if a.name == "*":
                        m.star_imports.append(base)
                    else:
                        m.imports[a.asname or a.name] = base + "." + a.name
            elif isinstance(node, ast.Assign):
                for t in node.targets:
                    if isinstance(t, ast.Name):
                        m.assigns.setdefault(t.id, []).append(node.value)
                        m.assign_nodes.setdefault(t.id, []).append(node)
            elif isinstance(node, ast.AnnAssign) and isinstance(node.target, ast.Name) and node.value is not None:
                m.assigns.setdefault(node.target.id, []).append(node.value)
                m.assign_nodes.setdefault(node.target.id, []).append(node)

    def _toplevel_stmts(self, body) -> Iterator[ast.stmt]:
        for node in body:
            yield node
            if isinstance(node, ast.If):
                yield from self._toplevel_stmts(node.body)
                yield from self._toplevel_stmts(node.orelse)
            elif isinstance(node, ast.Try):
                yield from self._toplevel_stmts(node.body)
            elif isinstance(node, ast.With):
                yield from self._toplevel_stmts(node.body)

    def _abs_from(self, m: Module, node: ast.ImportFrom) -> str:
        if node.level == 0:
            return node.module or ""
        parts = m.name.split(".")
        if not m.is_pkg:
            parts = parts[:-1]
        if node.level > 1:
            parts = parts[: len(parts) - (node.level - 1)]
        if node.module:
            parts = parts + node.module.split(".")
        return ".".join(parts)

    def _index_body(self, m, body, prefix, cls, fn):
        for node in body:
            if isinstance(node, (ast.FunctionDef, ast.AsyncFunctionDef)):
                fq = prefix + "." + node.name
                fi = FunctionInfo(fq, node.name, node, m, cls=cls, parent=fn)
                self.functions[fq] = fi
                self.stats["functions"] += 1
                if fn is not None:
                    fn.nested[node.name] = fi
                elif cls is not None:
                    cls.methods[node.name] = fi
                else:
                    m.functions[node.name] = fi
                for sub in ast.walk(node):
                    if not hasattr(sub, "_func") or sub is node:
                        pass
                self._mark_func(node, fi)
                self._index_body(m, node.body, fq, None, fi)
            elif isinstance(node, ast.ClassDef):
                fq = prefix + "." + node.name
                ci = ClassInfo(fq, node.name, node, m, outer=cls)
                self.classes[fq] = ci
                self.stats["classes"] += 1
                if cls is not None:
                    cls.nested_classes[node.name] = ci
                elif fn is None:
                    m.classes[node.name] = ci
                for st in node.body:
                    if isinstance(st, ast.Assign):
                        for t in st.targets:
                            if isinstance(t, ast.Name):
                                ci.class_attrs[t.id] = st.value
                    elif isinstance(st, ast.AnnAssign) and isinstance(st.target, ast.Name):
                        ci.class_attr_ann[st.target.id] = st.annotation
                        if st.value is not None:
                            ci.class_attrs[st.target.id] = st.value
                self._index_body(m, node.body, fq, ci, None)
            elif isinstance(node, (ast.If, ast.Try, ast.With, ast.For, ast.While)):
                # definitions nested in compound statements
                for field in ("body", "orelse", "finalbody"):
                    self._index_body(m, getattr(node, field, []) or [], prefix, cls, fn)
                for h in getattr(node, "handlers", []) or []:
                    self._index_body(m, h.body, prefix, cls, fn)

    def _mark_func(self, fnode, fi):
        """Every node inside the function (not inside nested defs) gets _func."""
        fnode._func = fi
        stack = list(ast.iter_child_nodes(fnode))
        while stack:
            n = stack.pop()
            n._func = fi
            if isinstance(n, (ast.FunctionDef, ast.AsyncFunctionDef, ast.ClassDef)) and n is not fnode:
                # the def statement itself belongs to the outer function; its
                # body is re-marked when the nested def is indexed
                continue
            stack.extend(ast.iter_child_nodes(n))

    # ---------------------------------------------------------------- link
    def _link(self):
        for ci in self.classes.values():
            for b in ci.base_exprs:
                fq = self.resolve_name_expr(ci.module, b, ci)
                ci.bases.append(fq or ast.unparse(b))

    def resolve_global(self, m: Module, name: str, _seen=None) -> Optional[str]:
        """fq target of a module-level name (class/function/module/constant)."""
        if name in m.classes:
            return m.classes[name].fq
        if name in m.functions:
            return m.functions[name].fq
        if name in m.imports:
            return self.canonical(m.imports[name])
        if name in m.assigns:
            return m.name + "." + name
        for base in m.star_imports:
            bm = self.modules.get(base)
            if bm is not None:
                _seen = _seen or set()
                if (bm.name, name) in _seen:
                    continue
                _seen.add((bm.name, name))
                r = self.resolve_global(bm, name, _seen)
                if r:
                    return r
        return None

    def canonical(self, fq: str, depth=0) -> str:
        """Follow re-exports: conductor.errors.ConductorAbort ->
        conductor.errors.generated.ConductorAbort."""
        if fq in self.classes or fq in self.functions or fq in self.modules or depth > 6:
            return fq
        if "." in fq:
            mod, _, name = fq.rpartition(".")
            mod = self.canonical(mod, depth + 1) if mod not in self.modules else mod
            m = self.modules.get(mod)
            if m is not None:
                if name in m.classes:
                    return m.classes[name].fq
                if name in m.functions:
                    return m.functions[name].fq
                if name in m.imports:
                    return self.canonical(m.imports[name], depth + 1)
                if name in m.assigns:
                    return m.name + "." + name
                if mod + "." + name in self.modules:
                    return mod + "." + name
                for base in m.star_imports:
                    r = self.canonical(base + "." + name, depth + 1)
                    if r in self.classes or r in self.functions:
                        return r
                    bm = self.modules.get(base)
                    if bm is not None and name in bm.assigns:
                        return base + "." + name
            else:
                # nested class: conductor.utils.git.Git.Commit
                ci = self.classes.get(mod)
                if ci is not None:
                    if name in ci.nested_classes:
                        return ci.nested_classes[name].fq
                    if name in ci.methods:
                        return ci.methods[name].fq
        return fq

    def resolve_name_expr(self, m: Module, e: ast.expr, cls: Optional[ClassInfo] = None) -> Optional[str]:
        """fq name of a dotted expression evaluated at module level."""
        if isinstance(e, ast.Name):
            r = self.resolve_global(m, e.id)
            if r is None and cls is not None and cls.outer is not None and e.id in cls.outer.nested_classes:
                return cls.outer.nested_classes[e.id].fq
            if r is None and hasattr(builtins, e.id):
                return e.id
            return r
        if isinstance(e, ast.Attribute):
            base = self.resolve_name_expr(m, e.value, cls)
            if base is None:
                return None
            return self.canonical(base + "." + e.attr)
        if isinstance(e, ast.Constant) and isinstance(e.value, str):
            # forward reference in an annotation
            try:
                return self.resolve_name_expr(m, ast.parse(e.value, mode="eval").body, cls)
            except SyntaxError:
                return None
        return None

    # ------------------------------------------------------------ hierarchy
    def mro(self, fq: str) -> List[str]:
        """Linearised ancestors (simple DFS order, enough for single inheritance)."""
        out: List[str] = []
        stack = [fq]
        while stack:
            c = stack.pop(0)
            if c in out:
                continue
            out.append(c)
            ci = self.classes.get(c)
            if ci is not None:
                stack = list(ci.bases) + stack
            elif c in _BUILTIN_EXC:
                for b in _BUILTIN_EXC[c]:
                    if b not in out:
                        out.append(b)
        return out

    def is_subclass(self, a: str, b: str) -> bool:
        return b in self.mro(a)

    def subclasses(self, fq: str, strict=False) -> List[str]:
        out = [c for c in self.classes if self.is_subclass(c, fq) and (not strict or c != fq)]
        return sorted(out)

    def find_method(self, cls_fq: str, name: str) -> Optional[FunctionInfo]:
        for c in self.mro(cls_fq):
            ci = self.classes.get(c)
            if ci is not None and name in ci.methods:
                return ci.methods[name]
        return None

    def overriders(self, cls_fq: str, name: str) -> List[FunctionInfo]:
        """The method as seen from cls_fq plus every override in subclasses."""
        out = []
        base = self.find_method(cls_fq, name)
        if base is not None:
            out.append(base)
        for s in self.subclasses(cls_fq, strict=True):
            ci = self.classes[s]
            if name in ci.methods and ci.methods[name] not in out:
                out.append(ci.methods[name])
        return out

    @property
    def scan_functions(self):
        """Functions to scan in package-wide inventories: helpers that were
        inlined into their callers are skipped (their statements are counted at
        the call sites)."""
        return [f for f in self.functions.values() if not f.inlined]

    # -------------------------------------------------------------- lookup
    def func(self, fq: str) -> FunctionInfo:
        fq2 = fq if fq.startswith(self.pkg + ".") else self.pkg + "." + fq
        fi = self.functions.get(fq2)
        if fi is None:
            raise AnalysisError("anchor function vanished: %s" % fq2)
        return fi

    def cls(self, fq: str) -> ClassInfo:
        fq2 = fq if fq.startswith(self.pkg + ".") else self.pkg + "." + fq
        ci = self.classes.get(fq2)
        if ci is None:
            raise AnalysisError("anchor class vanished: %s" % fq2)
        return ci

    def module(self, name: str) -> Module:
        n = name if name.startswith(self.pkg) else self.pkg + "." + name
        m = self.modules.get(n)
        if m is None:
            raise AnalysisError("anchor module vanished: %s" % n)
        return m

    # ------------------------------------------------------ constant folding
    def fold(self, m: Module, e: ast.expr, depth=0, env: Optional[dict] = None):
        """Fold a module-level constant expression to a Python value.
        Returns the sentinel `NOFOLD` when it cannot."""
        if depth > 12:
            return NOFOLD
        if isinstance(e, ast.Constant):
            return e.value
        if isinstance(e, ast.Name):
            if env and e.id in env:
                return env[e.id]
            if e.id in m.assigns and len(m.assigns[e.id]) == 1:
                return self.fold(m, m.assigns[e.id][0], depth + 1)
            if e.id in m.imports:
                return self.fold_fq(m.imports[e.id], depth + 1)
            return NOFOLD
        if isinstance(e, ast.Attribute):
            base = self.resolve_name_expr(m, e.value)
            if base in self.modules:
                return self.fold_fq(base + "." + e.attr, depth + 1)
            return NOFOLD
        if isinstance(e, ast.BinOp) and isinstance(e.op, ast.Add):
            a, b = self.fold(m, e.left, depth + 1, env), self.fold(m, e.right, depth + 1, env)
            if a is NOFOLD or b is NOFOLD:
                return NOFOLD
            try:
                return a + b
            except TypeError:
                return NOFOLD
        if isinstance(e, ast.JoinedStr):
            parts = []
            for v in e.values:
                if isinstance(v, ast.Constant):
                    parts.append(str(v.value))
                elif isinstance(v, ast.FormattedValue) and v.format_spec is None and v.conversion == -1:
                    x = self.fold(m, v.value, depth + 1, env)
                    if x is NOFOLD:
                        return NOFOLD
                    parts.append(str(x))
                else:
                    return NOFOLD
            return "".join(parts)
        if isinstance(e, ast.Call) and isinstance(e.func, ast.Attribute):
            recv = self.fold(m, e.func.value, depth + 1, env)
            if isinstance(recv, str) and e.func.attr in ("format", "replace", "strip", "lower", "upper"):
                args = [self.fold(m, a, depth + 1, env) for a in e.args]
                kw = {k.arg: self.fold(m, k.value, depth + 1, env) for k in e.keywords if k.arg}
                if any(a is NOFOLD for a in args) or any(v is NOFOLD for v in kw.values()) or any(k.arg is None for k in e.keywords):
                    return NOFOLD
                try:
                    return getattr(recv, e.func.attr)(*args, **kw)
                except Exception:
                    return NOFOLD
        if isinstance(e, (ast.Tuple, ast.List)):
            vals = [self.fold(m, x, depth + 1, env) for x in e.elts]
            if any(v is NOFOLD for v in vals):
                return NOFOLD
            return tuple(vals) if isinstance(e, ast.Tuple) else vals
        if isinstance(e, ast.UnaryOp) and isinstance(e.op, ast.USub):
            v = self.fold(m, e.operand, depth + 1, env)
            return -v if isinstance(v, (int, float)) else NOFOLD
        return NOFOLD

    def fold_fq(self, fq: str, depth=0):
        fq = self.canonical(fq)
        mod, _, name = fq.rpartition(".")
        m = self.modules.get(mod)
        if m is None or name not in m.assigns or len(m.assigns[name]) != 1:
            return NOFOLD
        return self.fold(m, m.assigns[name][0], depth + 1)

    def fold_in(self, node: ast.expr):
        """Fold an expression that occurs anywhere in a module (uses the
        module's globals; locals are not folded)."""
        return self.fold(node._module, node)  # type: ignore[attr-defined]


class _NoFold:
    def __repr__(self):
        return "NOFOLD"


NOFOLD = _NoFold()


# --------------------------------------------------------------------------
def enclosing_stmt(node: ast.AST) -> ast.stmt:
    n = node
    while not isinstance(n, ast.stmt):
        n = n._parent  # type: ignore[attr-defined]
    return n


def ancestors(node: ast.AST) -> Iterator[ast.AST]:
    n = getattr(node, "_parent", None)
    while n is not None:
        yield n
        n = getattr(n, "_parent", None)


def walk_local(node: ast.AST) -> Iterator[ast.AST]:
    """ast.walk that does not descend into nested function/class/lambda bodies
    (the nested def statement itself is yielded)."""
    stack = [node]
    first = True
    while stack:
        n = stack.pop()
        yield n
        if not first and isinstance(n, (ast.FunctionDef, ast.AsyncFunctionDef, ast.ClassDef, ast.Lambda)):
            continue
        first = False
        stack.extend(reversed(list(ast.iter_child_nodes(n))))


def norm(node: ast.AST) -> str:
    """Normalised source text of a node (formatting-independent)."""
    return ast.unparse(node)


def site(node: ast.AST) -> str:
    m = getattr(node, "_module", None)
    f = getattr(node, "_func", None)
    where = m.relpath if m is not None else "?"
    fn = f.fq.split(".", 1)[1] if f is not None and "." in f.fq else (f.fq if f else "<module>")
    return "%s:%s %s" % (where, getattr(node, "lineno", "?"), fn)
