"""Statement-level control-flow graphs for the statement kinds the repository
uses, with typed exceptional edges, plus the path queries the rules need
(must-pass-through, dominance, path enumeration with branch conditions)."""
from __future__ import annotations

import ast
from typing import Callable, Dict, FrozenSet, Iterable, List, Optional, Sequence, Set, Tuple

from .model import AnalysisError, FunctionInfo, Program

ANY = "*"  # any Exception subclass


class Node:
    __slots__ = ("id", "kind", "ast", "succ", "pred", "info")

    def __init__(self, id, kind, node=None, info=None):
        self.id = id
        self.kind = kind  # entry exit raise stmt test for with except finally-enter loopexit join
        self.ast = node
        self.succ: List[Tuple["Node", str]] = []
        self.pred: List[Tuple["Node", str]] = []
        self.info = info

    def __repr__(self):
        txt = ""
        if self.ast is not None:
            try:
                txt = ast.unparse(self.ast).split("\n")[0][:60]
            except Exception:
                txt = type(self.ast).__name__
        return "<%d %s %s>" % (self.id, self.kind, txt)

    @property
    def lineno(self):
        return getattr(self.ast, "lineno", None)


class CFG:
    def __init__(self, fi: Optional[FunctionInfo]):
        self.fi = fi
        self.nodes: List[Node] = []
        self.entry = self.new("entry")
        self.exit = self.new("exit")
        self.raise_exit = self.new("raise")
        self.by_ast: Dict[int, List[Node]] = {}

    def new(self, kind, node=None, info=None) -> Node:
        n = Node(len(self.nodes), kind, node, info)
        self.nodes.append(n)
        if node is not None:
            self.by_ast.setdefault(id(node), []).append(n)
        return n

    def edge(self, a: Node, b: Node, label="n"):
        for (x, l) in a.succ:
            if x is b and l == label:
                return
        a.succ.append((b, label))
        b.pred.append((a, label))

    # ------------------------------------------------------------- queries
    def nodes_of(self, astnode) -> List[Node]:
        """All CFG nodes created for an ast node (several when the node sits
        in a duplicated `finally`)."""
        return self.by_ast.get(id(astnode), [])

    def node_of(self, astnode) -> Node:
        ns = self.nodes_of(astnode)
        if not ns:
            raise AnalysisError("no CFG node for %s" % ast.dump(astnode)[:80])
        return ns[0]

    def reach(self, srcs: Iterable[Node], removed: Iterable[Node] = (), skip_labels: Callable[[str], bool] = None,
              removed_edges: Iterable[Tuple[Node, str]] = ()) -> Set[Node]:
        removed = set(removed)
        redges = set((a.id, l) for a, l in removed_edges)
        seen: Set[Node] = set()
        stack = [s for s in srcs if s not in removed]
        while stack:
            n = stack.pop()
            if n in seen:
                continue
            seen.add(n)
            for (m, l) in n.succ:
                if m in removed or m in seen:
                    continue
                if skip_labels is not None and skip_labels(l):
                    continue
                if (n.id, l) in redges or (branch_of(l) and (n.id, branch_of(l)) in redges):
                    continue
                stack.append(m)
        return seen

    def all_paths_pass(self, src: Node, dst: Node, via: Iterable[Node], skip_labels=None) -> bool:
        """True iff every path src ->* dst passes through a node of `via`."""
        via = set(via)
        if src in via or dst in via:
            return True
        return dst not in self.reach([src], removed=via, skip_labels=skip_labels)

    def dominates(self, a: Node, b: Node, skip_labels=None) -> bool:
        if a is b:
            return True
        return b not in self.reach([self.entry], removed=[a], skip_labels=skip_labels)

    def reachable(self, a: Node, b: Node, skip_labels=None, removed=()) -> bool:
        return b in self.reach([a], removed=removed, skip_labels=skip_labels)

    def find_path(self, src: Node, dst: Node, removed: Iterable[Node] = (), skip_labels=None) -> Optional[List[Node]]:
        removed = set(removed)
        prev: Dict[Node, Optional[Node]] = {src: None}
        dq = [src]
        while dq:
            n = dq.pop(0)
            if n is dst:
                out = []
                while n is not None:
                    out.append(n)
                    n = prev[n]
                return out[::-1]
            for (m, l) in n.succ:
                if m in removed or m in prev:
                    continue
                if skip_labels is not None and skip_labels(l):
                    continue
                prev[m] = n
                dq.append(m)
        return None

    def enum_paths(self, src: Node, dsts: Set[Node], skip_labels=None, limit=4000, stop: Set[Node] = frozenset()) -> List[List[Tuple[Node, str]]]:
        """All acyclic paths from src to any node in dsts.  A path is a list of
        (node, label-of-edge-taken-from-node) ending with (dst, '')."""
        out: List[List[Tuple[Node, str]]] = []
        path: List[Tuple[Node, str]] = []
        on: Set[Node] = set()

        def rec(n: Node):
            if len(out) > limit:
                raise AnalysisError("path enumeration exceeded %d paths" % limit)
            if n in dsts:
                out.append(path + [(n, "")])
                return
            if n in on or n in stop:
                return
            on.add(n)
            for (m, l) in n.succ:
                if skip_labels is not None and skip_labels(l):
                    continue
                path.append((n, l))
                rec(m)
                path.pop()
            on.discard(n)

        rec(src)
        return out

    def dump(self) -> str:
        lines = []
        for n in self.nodes:
            lines.append("%r -> %s" % (n, ", ".join("%d[%s]" % (m.id, l) for m, l in n.succ)))
        return "\n".join(lines)


def is_exc(label: str) -> bool:
    return label.startswith("exc")


def is_back(label: str) -> bool:
    return label.startswith("loop")


def branch_of(label: str):
    """'T' / 'F' for a branch edge (also when it is a back edge), else None."""
    if label in ("T", "F"):
        return label
    if label in ("loop:T", "loop:F"):
        return label[-1]
    return None


# ---------------------------------------------------------------------------
class _Ctx:
    def __init__(self, ret, brk, cont, exc, handler_types=None):
        self.ret = ret
        self.brk = brk
        self.cont = cont
        self.exc = exc
        self.handler_types = handler_types  # types caught by the enclosing except clause (for bare raise)


Dangling = List[Tuple[Node, str]]


class Builder:
    """may_raise(stmt_or_expr_node, kind) -> set of exception type names
    (fq for repo classes, bare names for builtins, ANY for unknown)."""

    def __init__(self, prog: Program, fi: Optional[FunctionInfo], may_raise: Callable[[ast.AST, str], Set[str]],
                 body: Optional[List[ast.stmt]] = None, exc_class: Optional[Callable[[ast.expr], Optional[str]]] = None):
        self.p = prog
        self.fi = fi
        self.may_raise = may_raise
        self.exc_class = exc_class or (lambda e: None)
        self.g = CFG(fi)
        g = self.g
        g.escaped = set()  # type: ignore[attr-defined]

        def top_exc(n, types):
            if types:
                g.edge(n, g.raise_exit, "exc")
                g.escaped.update(types)  # type: ignore[attr-defined]

        top = _Ctx(ret=lambda d: self._connect(d, g.exit), brk=None, cont=None, exc=top_exc)
        stmts = body if body is not None else fi.node.body
        out = self.block(stmts, [(g.entry, "n")], top)
        self._connect(out, g.exit)

    def _connect(self, dangling: Dangling, target: Node):
        for (n, l) in dangling:
            self.g.edge(n, target, l)

    def _raise_from(self, n: Node, astnode, kind, ctx: _Ctx):
        types = self.may_raise(astnode, kind)
        if types:
            ctx.exc(n, frozenset(types))

    # ---------------------------------------------------------------- block
    def block(self, stmts: Sequence[ast.stmt], preds: Dangling, ctx: _Ctx) -> Dangling:
        for s in stmts:
            if not preds:
                break  # unreachable code
            preds = self.stmt(s, preds, ctx)
        return preds

    def stmt(self, s: ast.stmt, preds: Dangling, ctx: _Ctx) -> Dangling:
        g = self.g
        if isinstance(s, ast.If):
            t = g.new("test", s.test, info=s)
            g.by_ast.setdefault(id(s), []).append(t)
            self._connect(preds, t)
            self._raise_from(t, s.test, "expr", ctx)
            a = self.block(s.body, [(t, "T")], ctx)
            b = self.block(s.orelse, [(t, "F")], ctx) if s.orelse else [(t, "F")]
            return a + b
        if isinstance(s, ast.While):
            t = g.new("test", s.test, info=s)
            g.by_ast.setdefault(id(s), []).append(t)
            self._connect(preds, t)
            self._raise_from(t, s.test, "expr", ctx)
            brk: Dangling = []
            inner = _Ctx(ctx.ret, lambda d: brk.extend(d), lambda d: self._connect_back(d, t), ctx.exc, ctx.handler_types)
            body_out = self.block(s.body, [(t, "T")], inner)
            self._connect_back(body_out, t)
            is_true = isinstance(s.test, ast.Constant) and bool(s.test.value) is True
            out: Dangling = [] if is_true else [(t, "F")]
            if s.orelse and not is_true:
                out = self.block(s.orelse, out, ctx)
            return out + brk
        if isinstance(s, ast.For):
            it = g.new("stmt", s.iter, info=("for-iter", s))
            self._connect(preds, it)
            self._raise_from(it, s.iter, "expr", ctx)
            h = g.new("for", s, info=s)
            g.edge(it, h, "n")
            self._raise_from(h, s, "for-next", ctx)
            brk = []
            inner = _Ctx(ctx.ret, lambda d: brk.extend(d), lambda d: self._connect_back(d, h), ctx.exc, ctx.handler_types)
            body_out = self.block(s.body, [(h, "T")], inner)
            self._connect_back(body_out, h)
            out = [(h, "F")]
            if s.orelse:
                out = self.block(s.orelse, out, ctx)
            return out + brk
        if isinstance(s, ast.Try):
            return self.try_(s, preds, ctx)
        if isinstance(s, ast.With):
            cur = preds
            for item in s.items:
                w = g.new("with", item.context_expr, info=s)
                g.by_ast.setdefault(id(s), []).append(w)
                self._connect(cur, w)
                self._raise_from(w, item.context_expr, "expr", ctx)
                cur = [(w, "n")]
            out = self.block(s.body, cur, ctx)
            if out:
                wx = g.new("withexit", None, info=s)
                self._connect(out, wx)
                out = [(wx, "n")]
            return out
        if isinstance(s, ast.Return):
            n = g.new("stmt", s)
            self._connect(preds, n)
            if s.value is not None:
                self._raise_from(n, s.value, "expr", ctx)
            ctx.ret([(n, "ret")])
            return []
        if isinstance(s, ast.Raise):
            n = g.new("stmt", s)
            self._connect(preds, n)
            types = self._raised_types(s, ctx)
            extra = self.may_raise(s, "raise-eval")
            ctx.exc(n, frozenset(set(types) | set(extra)))
            return []
        if isinstance(s, ast.Break):
            n = g.new("stmt", s)
            self._connect(preds, n)
            if ctx.brk is None:
                raise AnalysisError("break outside loop")
            ctx.brk([(n, "break")])
            return []
        if isinstance(s, ast.Continue):
            n = g.new("stmt", s)
            self._connect(preds, n)
            ctx.cont([(n, "continue")])
            return []
        if isinstance(s, (ast.FunctionDef, ast.AsyncFunctionDef, ast.ClassDef)):
            n = g.new("stmt", s, info="def")
            self._connect(preds, n)
            return [(n, "n")]
        if isinstance(s, (ast.Match, ast.AsyncFor, ast.AsyncWith, ast.TryStar if hasattr(ast, "TryStar") else ast.Match)):
            raise AnalysisError("unsupported statement kind %s at line %d" % (type(s).__name__, s.lineno))
        # simple statements
        n = g.new("stmt", s)
        self._connect(preds, n)
        self._raise_from(n, s, "stmt", ctx)
        return [(n, "n")]

    def _connect_back(self, d: Dangling, head: Node):
        for (n, l) in d:
            self.g.edge(n, head, "loop:" + l if l in ("T", "F") else "loop")

    def _raised_types(self, s: ast.Raise, ctx: _Ctx) -> Set[str]:
        if s.exc is None:
            return set(ctx.handler_types) if ctx.handler_types else {ANY}
        c = self.exc_class(s.exc)
        if c is None and isinstance(s.exc, ast.Name) and ctx.handler_types:
            # `raise ex` of the caught exception
            return set(ctx.handler_types)
        return {c} if c else {ANY}

    # ------------------------------------------------------------------ try
    def try_(self, s: ast.Try, preds: Dangling, ctx: _Ctx) -> Dangling:
        g = self.g
        has_fin = bool(s.finalbody)
        fin_cache: Dict[object, Tuple[Node, Dangling]] = {}

        def fin_copy(kind_key, ctx_for_fin) -> Tuple[Node, Dangling]:
            if kind_key not in fin_cache:
                head = g.new("finally", None, info=(s, kind_key if isinstance(kind_key, str) else "raise"))
                out = self.block(s.finalbody, [(head, "n")], ctx_for_fin)
                fin_cache[kind_key] = (head, out)
            return fin_cache[kind_key]

        # continuation wrappers through finally
        def wrap(kind, outer_k):
            if not has_fin or outer_k is None:
                return outer_k

            def k(d: Dangling):
                head, out = fin_copy(kind, ctx)
                self._connect(d, head)
                if out:
                    outer_k([(n, kind if kind in ("ret", "break", "continue") else l) for n, l in out])
            return k

        def outer_exc(n: Node, types: FrozenSet[str]):
            if not types:
                return
            if has_fin:
                head, out = fin_copy(("raise", types), ctx)
                g.edge(n, head, "exc")
                for (x, _l) in out:
                    ctx.exc(x, types)
            else:
                ctx.exc(n, types)

        handler_entries: List[Tuple[ast.ExceptHandler, Node, Optional[List[str]]]] = []
        for h in s.handlers:
            hn = g.new("except", h, info=s)
            handler_entries.append((h, hn, self._handler_types(h)))

        def body_exc(n: Node, types: FrozenSet[str]):
            remaining = set(types)
            for (h, hn, htypes) in handler_entries:
                if not remaining:
                    break
                caught_some = False
                for ty in list(remaining):
                    c = self._catches(htypes, ty)
                    if c == "yes":
                        caught_some = True
                        remaining.discard(ty)
                    elif c == "maybe":
                        caught_some = True
                if caught_some:
                    g.edge(n, hn, "exc")
            if remaining:
                outer_exc(n, frozenset(remaining))

        body_ctx = _Ctx(wrap("ret", ctx.ret), wrap("break", ctx.brk), wrap("continue", ctx.cont), body_exc, ctx.handler_types)
        t = g.new("try", None, info=s)
        g.by_ast.setdefault(id(s), []).append(t)
        self._connect(preds, t)
        out = self.block(s.body, [(t, "n")], body_ctx)
        rest_ctx_base = (wrap("ret", ctx.ret), wrap("break", ctx.brk), wrap("continue", ctx.cont), outer_exc)
        if s.orelse:
            out = self.block(s.orelse, out, _Ctx(*rest_ctx_base, ctx.handler_types))
        for (h, hn, htypes) in handler_entries:
            hctx = _Ctx(*rest_ctx_base, htypes if htypes is not None else [ANY])
            out = out + self.block(h.body, [(hn, "n")], hctx)
        if has_fin and out:
            head, fout = fin_copy("normal", ctx)
            self._connect(out, head)
            out = list(fout)
        return out

    def _handler_types(self, h: ast.ExceptHandler) -> Optional[List[str]]:
        if h.type is None:
            return None
        exprs = h.type.elts if isinstance(h.type, ast.Tuple) else [h.type]
        out = []
        for e in exprs:
            m = e._module  # type: ignore[attr-defined]
            fq = self.p.resolve_name_expr(m, e)
            out.append(fq or ast.unparse(e))
        return out

    def _catches(self, htypes: Optional[List[str]], ty: str) -> str:
        return catches(self.p, htypes, ty)


def catches(p: Program, htypes: Optional[List[str]], ty: str) -> str:
    """Does an `except htypes` clause catch an exception of static type ty?"""
    if htypes is None or "BaseException" in htypes:
        return "yes"
    if ty == ANY:
        return "yes" if "Exception" in htypes else "maybe"
    for h in htypes:
        if p.is_subclass(ty, h):
            return "yes"
    for h in htypes:
        if p.is_subclass(h, ty):
            return "maybe"
    return "no"


# ---------------------------------------------------------------------------
def no_raise(node, kind):
    return set()


def build_plain(prog: Program, fi: FunctionInfo, body=None) -> CFG:
    """CFG with explicit `raise` statements only (no implicit exceptions)."""
    return Builder(prog, fi, no_raise, body=body).g
