"""Engine self-check run by `setup`: tiny positive examples that must match."""
import ast


def engine_selfcheck() -> int:
    from .regex_auto import selfcheck as rx
    try:
        rx()
    except Exception as ex:  # pragma: no cover
        print("ANALYSIS-ERROR selfcheck regex: %s" % ex)
        return 2
    print("engine selfcheck ok")
    return 0
