"""Typed exception summaries (synchronous model) and the asynchronous
(signal -> ConductorAbort) model used by the CFG builder."""
from __future__ import annotations

import ast
from typing import Dict, Optional, Set

from .cfg import ANY, Builder, CFG
from .model import FunctionInfo, Program, walk_local
from .resolve import Resolver

ABORT = "conductor.errors.generated.ConductorAbort"

# external callee -> exception types (prefix match on the resolved name)
_EXT_RAISES = [
    ("open", {"OSError"}),
    ("os.path.relpath", {"ValueError"}),
    ("os.path.", set()),
    ("os.environ", set()),
    ("os.WIF", set()), ("os.WEXITSTATUS", set()), ("os.WTERMSIG", set()),
    ("os.", {"OSError"}),
    ("shutil.", {"OSError"}),
    ("subprocess.", {"OSError"}),
    ("signal.", {"OSError", "ValueError"}),
    ("pathlib.Path.relative_to", {"ValueError"}),
    ("pathlib.Path.mkdir", {"OSError"}), ("pathlib.Path.unlink", {"OSError"}), ("pathlib.Path.iterdir", {"OSError"}),
    ("pathlib.Path.symlink_to", {"OSError"}), ("pathlib.Path.resolve", {"OSError"}), ("pathlib.Path.cwd", {"OSError"}),
    ("pathlib.Path.rmdir", {"OSError"}), ("pathlib.Path.rename", {"OSError"}), ("pathlib.Path.touch", {"OSError"}),
    ("pathlib.Path.read_text", {"OSError"}), ("pathlib.Path.write_text", {"OSError"}),
    ("pathlib.", set()),
    ("IO.", {"OSError"}),
    ("json.", {"TypeError", "ValueError", "OSError"}),
    ("sqlite3.", {"sqlite3.Error"}),
    ("list.pop", {"IndexError"}), ("deque.popleft", {"IndexError"}), ("deque.pop", {"IndexError"}),
    ("dict.pop", {"KeyError"}), ("set.remove", {"KeyError"}), ("list.remove", {"ValueError"}), ("list.index", {"ValueError"}),
    ("int", {"ValueError", "TypeError"}),
    ("exec", {ANY}), ("compile", {ANY}), ("eval", {ANY}),
    ("concurrent.futures.Future.result", {ANY}),
    ("concurrent.futures.", set()),
    ("multiprocessing.cpu_count", {"NotImplementedError"}),
    ("tomli.", {ANY}), ("tomllib.", {ANY}),
    ("input", {"EOFError"}),
    ("sys.exit", {"SystemExit"}),
    ("max", {"ValueError"}), ("min", {"ValueError"}),
]
_PURE_UNRESOLVED = {"group", "strip", "split", "lower", "upper", "splitlines", "strftime", "add", "update", "copy",
                    "append", "format", "join", "startswith", "endswith", "items", "keys", "values", "get", "flush",
                    "write", "log", "setLevel", "add_argument", "add_parser", "set_defaults", "add_subparsers",
                    "parse_args", "print_help"}


def ext_raises(name: str) -> Set[str]:
    for prefix, types in _EXT_RAISES:
        if name == prefix or (prefix.endswith(".") and name.startswith(prefix)) or name.startswith(prefix + "."):
            return set(types)
        if not prefix.endswith(".") and name == prefix:
            return set(types)
    if name.startswith("?"):
        meth = name.rsplit(".", 1)[-1].lstrip("?")
        return set() if meth in _PURE_UNRESOLVED else {ANY}
    return set()


class ExcAnalysis:
    def __init__(self, prog: Program, res: Resolver, include_implicit=True):
        self.p = prog
        self.r = res
        self.summ: Dict[str, Set[str]] = {}
        self._cfgs: Dict[str, CFG] = {}
        self.include_implicit = include_implicit
        self._fixpoint()

    # -- classification of a raised expression
    def exc_class(self, e: ast.expr) -> Optional[str]:
        fi = getattr(e, "_func", None)
        cur = e
        # e.add_extra_context(...) / add_file_context(...) return self
        while isinstance(cur, ast.Call) and isinstance(cur.func, ast.Attribute) and cur.func.attr in (
                "add_extra_context", "add_file_context", "add_file_context_if_missing", "with_traceback"):
            cur = cur.func.value
        if isinstance(cur, ast.Call):
            ty = self.r.type_of(cur.func, fi, cur._module)  # type: ignore[attr-defined]
            if ty is not None and ty[0] == "class":
                return ty[1][0]
            if ty is not None and ty[0] == "builtin":
                return ty[1][0]
            if ty is not None and ty[0] == "ext":
                return ty[1][0]
            return None
        ty = self.r.type_of(cur, fi, cur._module)  # type: ignore[attr-defined]
        if ty is not None:
            if ty[0] == "class":
                return ty[1][0]
            if ty[0] == "builtin":
                return ty[1][0]
            if ty[0] in self.p.classes or ty[0][:1].isupper() or "." in ty[0]:
                return ty[0]
        return None

    # -- what may a statement / expression raise (sync model)
    def may_raise(self, node: ast.AST, kind: str) -> Set[str]:
        out: Set[str] = set()
        if kind == "for-next":
            return out
        if isinstance(node, (ast.FunctionDef, ast.AsyncFunctionDef, ast.ClassDef)):
            return out
        if isinstance(node, ast.Assert):
            out.add("AssertionError")
        fi = getattr(node, "_func", None)
        for sub in walk_local(node):
            if isinstance(sub, (ast.Lambda,)):
                continue
            if isinstance(sub, ast.Call):
                for c in self.r.callees(sub):
                    out |= self._callee_raises(c)
            elif isinstance(sub, ast.Attribute) and isinstance(sub.ctx, ast.Load):
                par = getattr(sub, "_parent", None)
                if isinstance(par, ast.Call) and par.func is sub:
                    continue
                base = self.r.type_of(sub.value, fi)
                if base is not None and base[0] in self.p.classes:
                    for f in self.p.overriders(base[0], sub.attr):
                        if f.is_property:
                            out |= self.summ.get(f.fq, set())
            elif self.include_implicit and isinstance(sub, ast.Subscript) and isinstance(sub.ctx, ast.Load):
                out |= {"KeyError", "IndexError"}
        return out

    def _callee_raises(self, c: str) -> Set[str]:
        if c in self.p.functions:
            return self.summ.get(c, set())
        if c in self.p.classes:
            init = self.p.find_method(c, "__init__")
            return self.summ.get(init.fq, set()) if init is not None else set()
        return ext_raises(c)

    def cfg(self, fi: FunctionInfo) -> CFG:
        g = self._cfgs.get(fi.fq)
        if g is None:
            g = Builder(self.p, fi, self.may_raise, exc_class=self.exc_class).g
            self._cfgs[fi.fq] = g
        return g

    def _fixpoint(self):
        funcs = list(self.p.functions.values())
        for f in funcs:
            self.summ[f.fq] = set()
        for _round in range(12):
            changed = False
            for f in funcs:
                g = Builder(self.p, f, self.may_raise, exc_class=self.exc_class).g
                esc = set(g.escaped)  # type: ignore[attr-defined]
                if esc != self.summ[f.fq]:
                    self.summ[f.fq] = esc
                    changed = True
            if not changed:
                break
        self._cfgs.clear()
        self.rounds = _round + 1


def async_may_raise(base: Optional[ExcAnalysis] = None):
    """Asynchronous model: a signal handler may raise ConductorAbort at every
    node; optionally on top of the synchronous exceptions."""
    def f(node, kind):
        s = {ABORT}
        if base is not None:
            s |= base.may_raise(node, kind)
        return s
    return f
