"""Reader for the SQLite subset used in version_index_queries.py.  A query
outside the subset raises SqlUnrecognised (→ analysis error, never a pass)."""
from __future__ import annotations

import re
from typing import Dict, List, Optional, Tuple


class SqlUnrecognised(Exception):
    pass


_TOK = re.compile(r"\s*(?:(?P<id>[A-Za-z_][A-Za-z_0-9]*(?:\.[A-Za-z_][A-Za-z_0-9]*)?)|(?P<num>\d+)|(?P<p>[(),=?*])|(?P<other>\S))")


def tokens(sql: str) -> List[str]:
    out = []
    pos = 0
    sql = sql.strip()
    while pos < len(sql):
        m = _TOK.match(sql, pos)
        if not m:
            break
        if m.group("other"):
            raise SqlUnrecognised("unexpected character %r" % m.group("other"))
        out.append(m.group("id") or m.group("num") or m.group("p"))
        pos = m.end()
    return out


class P:
    def __init__(self, toks):
        self.t = toks
        self.i = 0

    def peek(self, k=0) -> Optional[str]:
        return self.t[self.i + k] if self.i + k < len(self.t) else None

    def kw(self, *words) -> bool:
        for j, w in enumerate(words):
            x = self.peek(j)
            if x is None or x.upper() != w:
                return False
        self.i += len(words)
        return True

    def expect(self, w):
        x = self.peek()
        if x is None or x.upper() != w.upper():
            raise SqlUnrecognised("expected %s, found %s" % (w, x))
        self.i += 1

    def ident(self) -> str:
        x = self.peek()
        if x is None or not re.match(r"[A-Za-z_]", x):
            raise SqlUnrecognised("expected identifier, found %s" % x)
        self.i += 1
        return x


def parse(sql: str) -> dict:
    p = P(tokens(sql))
    if p.kw("WITH"):
        name = p.ident()
        p.expect("AS")
        p.expect("(")
        sub = _select(p)
        p.expect(")")
        q = _select(p)
        q["with"] = {name: sub}
        _end(p)
        return q
    if p.peek() and p.peek().upper() == "SELECT":
        q = _select(p)
        _end(p)
        return q
    if p.kw("INSERT", "INTO"):
        table = p.ident()
        cols = []
        if p.peek() == "(":
            p.expect("(")
            cols = _idlist(p)
            p.expect(")")
        if p.kw("VALUES"):
            p.expect("(")
            vals = []
            while True:
                x = p.peek()
                if x != "?":
                    raise SqlUnrecognised("VALUES item %s" % x)
                p.i += 1
                vals.append("?")
                if p.peek() == ",":
                    p.i += 1
                    continue
                break
            p.expect(")")
            _end(p)
            return {"type": "insert", "table": table, "columns": cols, "values": vals}
        if p.peek() and p.peek().upper() == "SELECT":
            sub = _select(p, allow_consts=True)
            _end(p)
            return {"type": "insert-select", "table": table, "columns": cols, "select": sub}
        raise SqlUnrecognised("INSERT form")
    if p.kw("CREATE", "TABLE"):
        table = p.ident()
        p.expect("(")
        cols = []
        pk: List[str] = []
        while True:
            if p.kw("PRIMARY", "KEY"):
                p.expect("(")
                pk = _idlist(p)
                p.expect(")")
            else:
                name = p.ident()
                typ = p.ident()
                notnull = p.kw("NOT", "NULL")
                cols.append((name, typ.upper(), notnull))
            if p.peek() == ",":
                p.i += 1
                continue
            break
        p.expect(")")
        _end(p)
        return {"type": "create", "table": table, "columns": cols, "primary_key": pk}
    raise SqlUnrecognised("statement kind %s" % p.peek())


def _end(p: P):
    if p.peek() is not None:
        raise SqlUnrecognised("trailing tokens from %s" % p.peek())


def _idlist(p: P) -> List[str]:
    out = [p.ident()]
    while p.peek() == ",":
        p.i += 1
        out.append(p.ident())
    return out


def _select(p: P, allow_consts=False) -> dict:
    p.expect("SELECT")
    cols = []
    while True:
        x = p.peek()
        if x is not None and x.upper() in ("MAX", "MIN", "COUNT"):
            fn = x.upper()
            p.i += 1
            p.expect("(")
            arg = p.ident()
            p.expect(")")
            alias = None
            if p.kw("AS"):
                alias = p.ident()
            cols.append({"fn": fn, "arg": arg, "alias": alias})
        elif allow_consts and x is not None and (x.upper() == "NULL" or x.isdigit()):
            p.i += 1
            cols.append({"const": x.upper()})
        else:
            c = p.ident()
            cols.append({"col": c})
        if p.peek() == ",":
            p.i += 1
            continue
        break
    p.expect("FROM")
    table = p.ident()
    alias = None
    if p.kw("AS"):
        alias = p.ident()
    q = {"type": "select", "columns": cols, "from": table, "alias": alias, "joins": [], "where": [], "group_by": [],
         "order_by": None, "limit": None}
    while p.kw("INNER", "JOIN"):
        jt = p.ident()
        ja = None
        if p.kw("AS"):
            ja = p.ident()
        p.expect("ON")
        on = [_eq(p)]
        while p.kw("AND"):
            on.append(_eq(p))
        q["joins"].append({"table": jt, "alias": ja, "on": on})
    if p.kw("WHERE"):
        q["where"].append(_eq(p))
        while p.kw("AND"):
            q["where"].append(_eq(p))
    if p.kw("GROUP", "BY"):
        q["group_by"] = _idlist(p)
    if p.kw("ORDER", "BY"):
        col = p.ident()
        direction = "ASC"
        if p.kw("DESC"):
            direction = "DESC"
        elif p.kw("ASC"):
            direction = "ASC"
        q["order_by"] = (col, direction)
    if p.kw("LIMIT"):
        x = p.peek()
        if x is None or not x.isdigit():
            raise SqlUnrecognised("LIMIT %s" % x)
        p.i += 1
        q["limit"] = int(x)
    return q


def _eq(p: P) -> Tuple[str, str]:
    a = p.ident()
    p.expect("=")
    x = p.peek()
    if x == "?":
        p.i += 1
        return (a, "?")
    b = p.ident()
    return (a, b)


def colnames(q: dict) -> List[str]:
    out = []
    for c in q["columns"]:
        if "col" in c:
            out.append(c["col"].split(".")[-1])
        elif "fn" in c:
            out.append("%s(%s)" % (c["fn"], c["arg"]))
        else:
            out.append(c["const"])
    return out
