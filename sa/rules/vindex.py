"""Version-index rules: SQL1–SQL3, VI1, VI2, VI4–VI7."""
from __future__ import annotations

import ast
from typing import Dict, List, Optional, Tuple

from ..analysis import Analysis, fmt_conj
from ..cfg import branch_of, is_back, is_exc
from ..model import AnalysisError, NOFOLD, norm, walk_local
from ..sqlread import SqlUnrecognised, colnames, parse

QMOD = "execution.version_index_queries"
VI = "execution.version_index.VersionIndex."
VI_CLS = "conductor.execution.version_index.VersionIndex"
COLS4 = ["task_identifier", "timestamp", "git_commit_hash", "has_uncommitted_changes"]
COLS3 = COLS4[1:]


def skip(l):
    return is_exc(l) or is_back(l)


def queries(A: Analysis) -> Dict[str, dict]:
    m = A.prog.module(QMOD)
    out = {}
    for name in m.assigns:
        v = A.prog.fold_fq(m.name + "." + name)
        if v is NOFOLD or not isinstance(v, str):
            raise AnalysisError("query constant %s cannot be folded" % name)
        if name.startswith("v1_") or "format_version" in name:
            continue
        try:
            out[name] = parse(v)
        except SqlUnrecognised as ex:
            # not a verdict by itself: the rule that needs this query reports that it
            # cannot establish the required form (and shows the text)
            out[name] = {"type": "unrecognised", "error": str(ex), "text": " ".join(v.split())[:200], "columns": [], "from": None,
                         "where": None, "order_by": None, "limit": None, "joins": [], "group_by": None}
    return out


def executed_query(A: Analysis, call: ast.Call) -> Optional[str]:
    """name of the query constant passed to cursor.execute / conn.execute."""
    if call.args and isinstance(call.args[0], ast.Attribute) and isinstance(call.args[0].value, ast.Name):
        m = call._module
        target = m.imports.get(call.args[0].value.id)
        if target and A.prog.canonical(target) == A.prog.module(QMOD).name:
            return call.args[0].attr
    return None


def _sel(q, cols, where=None, order=None, limit=None, joins=0, group=None):
    return (q.get("type") == "select" and colnames(q) == cols and q["from"] == "version_index" and
            q["where"] == (where or []) and q["order_by"] == order and q["limit"] == limit and len(q["joins"]) == joins and
            q["group_by"] == (group or []) and "with" not in q)


def rule_sql1(A: Analysis, rep, Q=None):
    Q = Q or queries(A)
    m = A.prog.module(QMOD)
    q = Q.get("latest_task_version")
    rep.check(q is not None and _sel(q, COLS3, [("task_identifier", "?")], ("timestamp", "DESC"), 1), "SQL1", "latest_task_version", m.tree,
              "newest row of one task: WHERE task_identifier = ? ORDER BY timestamp DESC LIMIT 1", "latest_task_version is %s" % q)
    q = Q.get("all_entries_for_task")
    rep.check(q is not None and _sel(q, COLS4, [("task_identifier", "?")]), "SQL1", "all_entries_for_task", m.tree,
              "all rows of one task, no LIMIT", "all_entries_for_task is %s" % q)
    return Q


def rule_sql2(A: Analysis, rep, Q=None):
    Q = Q or queries(A)
    m = A.prog.module(QMOD)
    for name in ("all_entries", "all_versions"):
        q = Q.get(name)
        rep.check(q is not None and _sel(q, COLS4), "SQL2", name, m.tree, "every row, no WHERE/LIMIT", "%s is %s" % (name, q))
    q = Q.get("latest_entry_for_task")
    rep.check(q is not None and _sel(q, COLS4, [("task_identifier", "?")], ("timestamp", "DESC"), 1), "SQL2", "latest_entry_for_task", m.tree,
              "newest row of one task", "latest_entry_for_task is %s" % q)
    q = Q.get("all_entries_latest")
    ok = False
    if q is not None and "with" in q and len(q["with"]) == 1:
        (wname, w), = q["with"].items()
        okw = (colnames(w) == ["task_identifier", "MAX(timestamp)"] and w["columns"][1].get("alias") == "timestamp" and w["from"] == "version_index"
               and w["group_by"] == ["task_identifier"] and not w["where"] and w["limit"] is None)
        okm = (colnames(q) == COLS4 and q["from"] == "version_index" and len(q["joins"]) == 1 and q["joins"][0]["table"] == wname
               and not q["where"] and q["limit"] is None)
        if okm:
            a, b = q["alias"] or "version_index", q["joins"][0]["alias"] or wname
            on = {tuple(sorted(x)) for x in q["joins"][0]["on"]}
            want = {tuple(sorted(("%s.task_identifier" % a, "%s.task_identifier" % b))), tuple(sorted(("%s.timestamp" % a, "%s.timestamp" % b)))}
            okm = on == want and all(c["col"].startswith(a + ".") for c in q["columns"])
        ok = okw and okm
    rep.check(ok, "SQL2", "all_entries_latest", m.tree, "each task's newest row: join on BOTH task_identifier and MAX(timestamp)",
              "all_entries_latest does not select exactly each task's newest row: %s" % q)
    # copy_entries_to: 2×2 selection table
    fi = A.fn(VI + "copy_entries_to")
    g = A.cfg(fi, "plain")
    table = {}
    qmod_alias = [k for k, v in fi.module.imports.items() if A.prog.canonical(v) == A.prog.module(QMOD).name]
    keep = lambda a: a in ("none(tasks)", "t(latest_only)")
    for n in g.nodes:
        if n.kind == "stmt":
            for c in walk_local(n.ast):
                if isinstance(c, ast.Call) and isinstance(c.func, ast.Attribute) and c.func.attr == "execute" and c.args:
                    for (cj, val) in A.rvalues(fi, c.args[0], n, g, keep=keep):
                        name = val.split(".", 1)[1] if "." in val and val.split(".", 1)[0] in qmod_alias else None
                        # a guard that does not mention one of the two flags covers both of its values
                        for tn in ([True, False] if not any(a == "none(tasks)" for a, _ in cj) else [("none(tasks)", True) in cj]):
                            for lo in ([True, False] if not any(a == "t(latest_only)" for a, _ in cj) else [("t(latest_only)", True) in cj]):
                                table.setdefault((tn, lo), set()).add(name)
    want = {(True, True): {"all_entries_latest"}, (True, False): {"all_entries"}, (False, True): {"latest_entry_for_task"}, (False, False): {"all_entries_for_task"}}
    rep.check(table == want, "SQL2", "copy_entries_to picks the query by (tasks is None, latest_only)", fi.node,
              "2×2 table: all/latest × project-wide/per-task", "copy_entries_to selection table is %s" % table)
    # per-task branch iterates all tasks and loads every cursor into dest
    loops = [l for l in walk_local(fi.node) if isinstance(l, ast.For) and norm(l.iter) == "tasks"]
    ok = len(loops) == 1 and not any(isinstance(x, (ast.Break, ast.Continue)) for x in walk_local(loops[0]))
    bl = A.calls_in_func(fi, "VersionIndex.bulk_load")
    ok = ok and len(bl) == 2 and all(norm(c.func.value) == fi.params[1] and c.args and isinstance(c.args[0], ast.Name) for c in bl)
    # every execute is followed by a bulk_load of *that* cursor before the next execute / the return
    exn = [(n, norm(c.func.value)) for n in g.nodes if n.kind == "stmt" for c in walk_local(n.ast)
           if isinstance(c, ast.Call) and isinstance(c.func, ast.Attribute) and c.func.attr == "execute"]
    for (e_, cur) in exn:
        bln = [n for n in g.nodes if n.kind == "stmt" and any(norm(c.args[0]) == cur for c in A.calls_in(n.ast, "VersionIndex.bulk_load") if c.args)]
        ok = ok and bool(bln) and g.all_paths_pass(e_, g.exit, bln, skip_labels=is_exc)
    ok = ok and bool(exn)
    rep.check(ok, "SQL2", "every selected row is loaded into dest", fi.node, "", "copy_entries_to does not bulk_load every selected cursor into `dest`")
    binds = [c for c in walk_local(fi.node) if isinstance(c, ast.Call) and isinstance(c.func, ast.Attribute) and c.func.attr == "execute" and len(c.args) == 2]
    loops_t = [l for l in walk_local(fi.node) if isinstance(l, ast.For) and norm(l.iter) == "tasks"]
    tv = norm(loops_t[0].target) if loops_t else "?"
    def _bind_txt(c):
        # the bound parameters, through a local that is (re)assigned inside the same loop iteration
        a = c.args[1]
        if isinstance(a, ast.Name) and loops_t:
            ds = [d for d in A.defs(fi, a.id) if isinstance(d, ast.Assign)]
            if len(ds) == 1 and id(ds[0]) in {id(x) for x in ast.walk(loops_t[0])}:
                return norm(ds[0].value)
        return norm(a)
    rep.check(all(_bind_txt(c) == "(str(%s),)" % tv and id(c) in {id(x) for x in ast.walk(loops_t[0])} for c in binds) and len(binds) >= 1 and bool(loops_t), "SQL2", "per-task binding", fi.node, "",
              "per-task queries are not bound to str(<task id>) inside the loop over `tasks`")
    rep.expect_min("SQL2", 6)
    return Q


def rule_sql3(A: Analysis, rep, Q=None):
    Q = Q or queries(A)
    q = Q.get("create_table")
    ok = q is not None and q["type"] == "create" and q["table"] == "version_index" and q["primary_key"] == ["task_identifier", "timestamp"] \
        and [c[0] for c in q["columns"]] == COLS4
    rep.check(ok, "SQL3", "PRIMARY KEY (task_identifier, timestamp)", A.prog.module(QMOD).tree,
              "a (task, version) pair can be recorded only once", "create_table is %s" % q)
    return Q


def _row_index(A: Analysis, f, e, is_flag: bool, row_params=()):
    """Index, in the selected row, of the column that expression `e` carries (None if it is not a plain column).
    `row_params`: parameters of f that stand for the row itself (a helper that is handed the row)."""
    if e is None:
        return None
    if is_flag:
        # 0/1 → bool wrappers
        if isinstance(e, ast.IfExp) and norm(e.body) == "False" and norm(e.orelse) == "True" and isinstance(e.test, ast.Compare) and norm(e.test.comparators[0]) == "0" and isinstance(e.test.ops[0], ast.Eq):
            return _row_index(A, f, e.test.left, False, row_params)
        if isinstance(e, ast.IfExp) and norm(e.body) == "True" and norm(e.orelse) == "False":
            t_ = e.test
            if isinstance(t_, ast.Compare) and norm(t_.comparators[0]) == "0" and isinstance(t_.ops[0], ast.NotEq):
                return _row_index(A, f, t_.left, False, row_params)
            return _row_index(A, f, t_, False, row_params)
        if isinstance(e, ast.Compare) and len(e.ops) == 1 and isinstance(e.ops[0], ast.NotEq) and norm(e.comparators[0]) == "0":
            return _row_index(A, f, e.left, False, row_params)
        if isinstance(e, ast.UnaryOp) and isinstance(e.op, ast.Not) and isinstance(e.operand, ast.Compare) and isinstance(e.operand.ops[0], ast.Eq) and norm(e.operand.comparators[0]) == "0":
            return _row_index(A, f, e.operand.left, False, row_params)
        if isinstance(e, ast.Call) and norm(e.func) == "bool" and len(e.args) == 1:
            return _row_index(A, f, e.args[0], False, row_params)
        return None

    def base_offset(x, depth=0):
        """offset of x[0] inside the row when x is the row or a tail slice of it"""
        if depth > 4:
            return None
        if isinstance(x, ast.Subscript) and isinstance(x.slice, ast.Slice) and x.slice.upper is None and x.slice.step is None:
            lo = x.slice.lower
            k = 0 if lo is None else (lo.value if isinstance(lo, ast.Constant) and isinstance(lo.value, int) else None)
            b = base_offset(x.value, depth + 1)
            return None if k is None or b is None else b + k
        if isinstance(x, ast.Name):
            if _is_row_name(x.id):
                return 0
            v = A.single_def_value(f, x.id)
            if v is not None:
                return base_offset(v, depth + 1)
        return None

    def _is_row_name(name):
        if name in row_params:
            return True
        for d in A.defs(f, name):
            if isinstance(d, (ast.For, ast.comprehension)) and isinstance(d.target, ast.Name) and d.target.id == name and "cursor" in norm(d.iter):
                return True
            if isinstance(d, (ast.Assign, ast.AnnAssign)) and d.value is not None and norm(d.value).endswith(".fetchone()"):
                return True
        return False
    if isinstance(e, ast.Subscript) and isinstance(e.slice, ast.Constant) and isinstance(e.slice.value, int):
        b = base_offset(e.value)
        return None if b is None else b + e.slice.value
    if isinstance(e, ast.Name):
        for d in A.defs(f, e.id):
            tg, src = None, None
            if isinstance(d, ast.Assign) and len(d.targets) == 1 and isinstance(d.targets[0], (ast.Tuple, ast.List)):
                tg, src = d.targets[0], d.value
            elif isinstance(d, (ast.For, ast.comprehension)) and isinstance(d.target, (ast.Tuple, ast.List)) and "cursor" in norm(d.iter):
                tg, src = d.target, None
            if tg is not None and not any(isinstance(x, ast.Starred) for x in tg.elts):
                for i_, el in enumerate(tg.elts):
                    if isinstance(el, ast.Name) and el.id == e.id:
                        if isinstance(src, (ast.Tuple, ast.List)) and len(src.elts) == len(tg.elts):
                            return _row_index(A, f, src.elts[i_], False, row_params)     # `a, b = row[0], row[1]`
                        off = 0 if src is None else base_offset(src)
                        return None if off is None else off + i_
        v = A.single_def_value(f, e.id)
        if v is not None and not isinstance(v, ast.Name):
            return _row_index(A, f, v, False, row_params)
    return None


def rule_vi2(A: Analysis, rep, Q=None):
    """Column lists ↔ row slices ↔ Version constructor."""
    Q = Q or queries(A)
    q = Q.get("insert_new_version")
    rep.check(q is not None and q["type"] == "insert" and q["columns"] == COLS4 and len(q["values"]) == 4, "VI2", "INSERT column order", A.prog.module(QMOD).tree,
              "", "insert_new_version is %s" % q)
    ins = A.fn(VI + "insert_output_version")
    ex = [c for c in walk_local(ins.node) if isinstance(c, ast.Call) and isinstance(c.func, ast.Attribute) and c.func.attr == "execute"]
    ok = len(ex) == 1 and executed_query(A, ex[0]) == "insert_new_version" and len(ex[0].args) == 2
    if ok:
        tup = A.expand(ex[0].args[1], ins)
        ti, ver = ins.params[1], ins.params[2]
        ok = norm(tup) == "(str(%s), %s.timestamp, %s.commit_hash, 1 if %s.has_uncommitted_changes else 0)" % (ti, ver, ver, ver)
        if not ok and isinstance(tup, ast.Tuple) and len(tup.elts) == 4 and [norm(x) for x in tup.elts[:3]] == ["str(%s)" % ti, "%s.timestamp" % ver, "%s.commit_hash" % ver]:
            # the 0/1 flag through a local assigned on the two branches of an `if`: its reaching values at the execute
            st_ = ex[0]
            while not isinstance(st_, ast.stmt):
                st_ = st_._parent
            raw = ex[0].args[1]
            raw = raw if isinstance(raw, ast.Tuple) else A.single_def_value(ins, raw.id) if isinstance(raw, ast.Name) else None
            if isinstance(raw, ast.Tuple) and len(raw.elts) == 4:
                rv = set(A.rvalues(ins, raw.elts[3], st_, keep=lambda a: a == "t(%s.has_uncommitted_changes)" % ver))
                ok = rv == {(frozenset({("t(%s.has_uncommitted_changes)" % ver, True)}), "1"), (frozenset({("t(%s.has_uncommitted_changes)" % ver, False)}), "0")}
    rep.check(ok, "VI2", "INSERT bindings", ins.node, "(str(id), timestamp, commit_hash, dirty flag) in column order",
              "insert_output_version binds its values in a different order / from different fields")
    # consumers: every Version built from a selected row takes each field from the column of that name, whatever the
    # plumbing (row[k], row[1:][k], tuple unpacking of the row or of the loop target, a private helper — inlined)
    consumers = {"get_latest_output_version": "latest_task_version", "get_all_versions_for_task": "all_entries_for_task", "get_all_versions": "all_versions"}
    FIELD_COL = {"timestamp": "timestamp", "commit_hash": "git_commit_hash", "has_uncommitted_changes": "has_uncommitted_changes"}
    vinit = A.fn("execution.version_index.Version.__init__")
    for fn, qname in consumers.items():
        f = A.fn(VI + fn)
        exs = [c for c in walk_local(f.node) if isinstance(c, ast.Call) and isinstance(c.func, ast.Attribute) and c.func.attr == "execute"]
        ok = len(exs) == 1 and executed_query(A, exs[0]) == qname
        cols = colnames(Q[qname]) if qname in Q and Q[qname].get("type") == "select" else []
        if fn != "get_all_versions" and ok:
            ok = len(exs[0].args) == 2 and A.xtext(exs[0].args[1], f, stop=f.params) == "(str(%s),)" % f.params[1]
        cons = A.calls_in_func(f, "conductor.execution.version_index.Version")
        det = "query %s" % (executed_query(A, exs[0]) if exs else None)
        hf, hoff, hrow = f, 0, ()
        if ok and not cons:
            # the row is handed to one helper that builds the Version: resolve inside the helper, shifted by the slice passed
            for c_ in walk_local(f.node):
                if isinstance(c_, ast.Call) and len(c_.args) == 1 and not c_.keywords:
                    for cal in A.res.callees(c_):
                        h_ = A.prog.functions.get(cal)
                        if h_ is not None and h_.cls is not None and h_.cls.fq.endswith("VersionIndex") and len(A.calls_in_func(h_, "conductor.execution.version_index.Version")) == 1:
                            rp = [p_ for p_ in h_.params if p_ not in ("self", "cls")]
                            off = _row_index(A, f, ast.Subscript(value=c_.args[0], slice=ast.Constant(value=0), ctx=ast.Load()), False)
                            if len(rp) == 1 and off is not None:
                                hf, hoff, hrow = h_, off, (rp[0],)
                                cons = A.calls_in_func(h_, "conductor.execution.version_index.Version")
        if ok:
            ok = len(cons) == 1
            det = "%d Version construction(s)" % len(cons)
        if ok:
            bnd = A.bind_args(cons[0], vinit)
            got = {}
            for field, col in FIELD_COL.items():
                idx = _row_index(A, hf, bnd.get(field), field == "has_uncommitted_changes", hrow)
                idx = None if idx is None else idx + hoff
                got[field] = cols[idx] if idx is not None and 0 <= idx < len(cols) else None
            ok = got == FIELD_COL
            det = "fields come from columns %s" % got
            if ok and fn == "get_all_versions":
                ids = [c for c in walk_local(f.node) if isinstance(c, ast.Call) and norm(c.func) == "TaskIdentifier.from_str" and c.args]
                idx = _row_index(A, f, ids[0].args[0], False) if len(ids) == 1 else None
                ok = idx is not None and 0 <= idx < len(cols) and cols[idx] == "task_identifier"
                det = "identifier parsed from column %s" % (cols[idx] if idx is not None and 0 <= idx < len(cols) else None)
        rep.check(ok, "VI2", "%s reads %s" % (fn, qname), f.node, "query, binding and the column each Version field is taken from agree",
                  "%s no longer runs %s bound to its task and builds the Version from the matching columns (%s)" % (fn, qname, det))
    # Version property getters
    for prop, field in (("timestamp", "_timestamp"), ("commit_hash", "_commit_hash"), ("has_uncommitted_changes", "_has_uncommitted_changes")):
        pf = A.fn("execution.version_index.Version." + prop)
        r = [x for x in walk_local(pf.node) if isinstance(x, ast.Return)]
        rep.check(len(r) == 1 and norm(r[0].value) == "self." + field, "VI2", "Version.%s" % prop, pf.node, "", "getter changed", deep=False)
    vi = A.fn("execution.version_index.Version.__init__")
    st = sorted(norm(s) for s in vi.node.body if isinstance(s, ast.Assign))
    rep.check(st == sorted(["self._timestamp = timestamp", "self._commit_hash = commit_hash", "self._has_uncommitted_changes = has_uncommitted_changes"]), "VI2", "Version fields", vi.node,
              "", "Version.__init__ stores %s" % st, deep=False)
    bl = A.fn(VI + "bulk_load")
    exs = [c for c in walk_local(bl.node) if isinstance(c, ast.Call) and isinstance(c.func, ast.Attribute) and c.func.attr == "executemany"]
    rep.check(len(exs) == 1 and executed_query(A, exs[0]) == "insert_new_version" and norm(exs[0].args[1]) == bl.params[1], "VI2", "bulk_load inserts the rows as selected", bl.node,
              "4-column SELECT order = INSERT order", "bulk_load does not executemany(insert_new_version, rows)")
    rep.expect_min("VI2", 9)
    return Q


# ---------------------------------------------------------------------- VI4 / VI5
def rule_vi4(A: Analysis, rep):
    fi = A.fn(VI + "generate_new_output_version")
    g = A.cfg(fi, "plain")
    L = "self._last_timestamp"
    rets = [n for n in g.nodes if n.kind == "stmt" and isinstance(n.ast, ast.Return)]
    paths = []
    for r in rets:
        paths.extend(g.enum_paths(g.entry, {r}, skip_labels=skip))
    problems = []
    n_paths = 0
    for path in paths:
        val = None  # ('t', k) | ('L', k) | ('ok',)
        var = None
        rel = {"<", "=", ">"}  # possible relation of t to L
        stored = None
        bad = None
        env = {}     # other locals holding a symbolic value (`now`, `earliest_unused = last + 1`, …)
        for (n, lbl) in path:
            st = n.ast
            if n.kind == "stmt" and isinstance(st, (ast.Assign, ast.AnnAssign)) and getattr(st, "value", None) is not None and (isinstance(st, ast.AnnAssign) or len(st.targets) == 1):
                tg, v = norm(st.targets[0] if isinstance(st, ast.Assign) else st.target), st.value
                if norm(v) in ("int(time.time())", "int(time.time_ns() // 1000000000)"):
                    if var is None:
                        var, val = tg, ("t", 0)
                    env[tg] = ("t", 0)
                elif tg == L:
                    stored = val if (var is not None and norm(v) == var) else _sym(v, var, val, L, env)
                elif var is not None and tg == var:
                    val = _sym(v, var, val, L, env)
                    env[tg] = val
                    if val is None:
                        bad = "unrecognised timestamp expression `%s`" % norm(v)
                else:
                    s_ = _sym(v, var, val, L, env)
                    if s_ is not None:
                        env[tg] = s_
                        # the variable that ends up in Version(...) may be a later local computed from the clock reading
                        retv_ = path[-1][0].ast.value
                        if isinstance(retv_, ast.Call) and retv_.args and norm(retv_.args[0]) == tg and tg != var:
                            var, val = tg, s_
            elif n.kind == "stmt" and isinstance(st, ast.AugAssign) and var is not None and norm(st.target) == var:
                if isinstance(st.op, ast.Add) and isinstance(st.value, ast.Constant) and isinstance(st.value.value, int) and val and val[0] in ("t", "L"):
                    val = (val[0], val[1] + st.value.value)
                else:
                    bad = "unrecognised update `%s`" % norm(st)
            elif n.kind == "test" and branch_of(lbl) and var is not None:
                r_ = _rel_of_test(st, var, L)
                if r_ is None:
                    continue
                if val != ("t", 0):
                    continue
                rel &= (r_ if branch_of(lbl) == "T" else {"<", "=", ">"} - r_)
        if not rel:
            continue  # infeasible
        n_paths += 1
        if bad:
            problems.append(bad)
            continue
        if stored is None or val is None:
            problems.append("a path returns without storing the new timestamp in _last_timestamp")
            continue
        if stored != val:
            problems.append("the stored last timestamp differs from the one returned")
        if not _greater(val, rel):
            problems.append("on the path where time() %s last, the new version is %s — not strictly greater than the last one" % (
                "/".join(sorted(rel)), _show(val)))
        # the Version(...) gets the variable
        retv = path[-1][0].ast.value
        ok_arg = isinstance(retv, ast.Call) and retv.args and norm(retv.args[0]) == var
        if not ok_arg:
            problems.append("the returned Version does not carry the generated timestamp")
    rep.check(not problems and n_paths >= 1, "VI4", "monotone generator", fi.node,
              "on each of the %d feasible paths the stored and returned timestamp is > the previous one (difference-domain interpretation)" % n_paths,
              "; ".join(sorted(set(problems))) or "no feasible path")


def _sym(v, var, cur, L, env=None):
    tx = norm(v)
    env = env or {}
    if tx == L:
        return ("L", 0)
    if isinstance(v, ast.Name) and tx != var and tx in env:
        return env[tx]
    if isinstance(v, ast.BinOp) and isinstance(v.op, ast.Add) and isinstance(v.right, ast.Constant) and isinstance(v.right.value, int) \
            and isinstance(v.left, ast.Name) and norm(v.left) != var and norm(v.left) in env and env[norm(v.left)] and env[norm(v.left)][0] in ("t", "L"):
        b_ = env[norm(v.left)]
        return (b_[0], b_[1] + v.right.value)
    if isinstance(v, ast.BinOp) and isinstance(v.op, ast.Add) and isinstance(v.right, ast.Constant) and isinstance(v.right.value, int):
        if norm(v.left) == L:
            return ("L", v.right.value)
        if var is not None and norm(v.left) == var and cur and cur[0] in ("t", "L"):
            return (cur[0], cur[1] + v.right.value)
    if isinstance(v, ast.Call) and isinstance(v.func, ast.Name) and v.func.id == "max" and len(v.args) == 2:
        parts = [_sym(a, var, cur, L, env) if norm(a) != var else cur for a in v.args]
        if all(p is not None for p in parts):
            return ("max", tuple(parts))
    if var is not None and tx == var:
        return cur
    return None


def _rel_of_test(e, var, L):
    if isinstance(e, ast.Compare) and len(e.ops) == 1:
        l, r, op = norm(e.left), norm(e.comparators[0]), e.ops[0]
        if (l, r) == (L, var):
            flip = {ast.Lt: ast.Gt, ast.Gt: ast.Lt, ast.LtE: ast.GtE, ast.GtE: ast.LtE}
            op = flip.get(type(op), type(op))()
            l, r = r, l
        if (l, r) == (var, L):
            return {ast.Eq: {"="}, ast.NotEq: {"<", ">"}, ast.Lt: {"<"}, ast.LtE: {"<", "="}, ast.Gt: {">"}, ast.GtE: {">", "="}}.get(type(op))
    return None


def _greater(val, rel) -> bool:
    if val[0] == "L":
        return val[1] >= 1
    if val[0] == "t":
        k = val[1]
        if k <= 0:
            return rel <= {">"}
        return rel <= {">", "="}  # t + k > L when t >= L
    if val[0] == "max":
        return any(_greater(p, rel) for p in val[1])
    return False


def _show(val):
    if val[0] == "max":
        return "max(%s)" % ", ".join(_show(p) for p in val[1])
    return "%s%+d" % ("time()" if val[0] == "t" else "last", val[1])


def rule_vi5(A: Analysis, rep, Q=None):
    Q = Q or queries(A)
    q = Q.get("get_max_timestamp")
    ok = q is not None and q["type"] == "select" and colnames(q) == ["MAX(timestamp)"] and q["from"] == "version_index" and not q["where"] and not q["joins"]
    rep.check(ok, "VI5", "seed query = MAX(timestamp) over all rows", A.prog.module(QMOD).tree, "", "get_max_timestamp is %s" % q)
    fi = A.fn(VI + "create_or_load")
    init = A.fn(VI + "__init__")
    cons = [c for c in A.calls_in_func(fi, VI_CLS)]
    g = A.cfg(fi, "plain")
    seeded, fresh = [], []
    for c in cons:
        b = A.bind_args(c, init)
        lt_ = b.get("last_timestamp")
        if lt_ is None:
            continue
        at = _stmt_of(c)
        # value of last_timestamp reaching the construction, keeping only the None-tests of the fetched row
        rv = A.rvalues(fi, lt_, at, g, keep=lambda a: a.startswith("none("), depth=4)
        if all(v == "0" for _c, v in rv):
            fresh.append((c, rv))
        else:
            seeded.append((c, rv))
    ok = False
    det = "%d construction(s) seeded from the index" % len(seeded)
    if len(seeded) == 1:
        c, rv = seeded[0]
        vals = {v for _c, v in rv}
        rows = sorted({v for v in vals if v != "0"})
        ok = len(rows) == 1 and rows[0].endswith("[0]")
        if ok:
            row = rows[0][:-3]
            # row comes from <conn>.execute(q.get_max_timestamp).fetchone()
            src_ok = False
            for cc in walk_local(fi.node):
                if isinstance(cc, ast.Call) and isinstance(cc.func, ast.Attribute) and cc.func.attr == "fetchone" and isinstance(cc.func.value, ast.Call) and \
                        executed_query(A, cc.func.value) == "get_max_timestamp":
                    src_ok = True
            rowx = row
            want_row = [frozenset({("none(%s)" % rowx, False), ("none(%s[0])" % rowx, False)})]
            got_row = sorted(map(sorted, [c_ for c_, v in rv if v == rows[0]]))
            got_zero = [c_ for c_, v in rv if v == "0"]
            from ..analysis import _simplify
            zero_ok = sorted(map(sorted, _simplify(got_zero))) in (
                sorted(map(sorted, [frozenset({("none(%s)" % rowx, True)}), frozenset({("none(%s[0])" % rowx, True)})])),
                sorted(map(sorted, [frozenset({("none(%s)" % rowx, True)}), frozenset({("none(%s)" % rowx, False), ("none(%s[0])" % rowx, True)})])))
            ok = src_ok and got_row == sorted(map(sorted, want_row)) and zero_ok
            det = "last_timestamp takes %s (row fetched from get_max_timestamp: %s)" % ([(fmt_conj(c_), v) for c_, v in rv], src_ok)
    rep.check(ok, "VI5", "seed from the recorded maximum", fi.node, "an existing index seeds last_timestamp with MAX(timestamp) (0 when empty)",
              "create_or_load does not seed last_timestamp from get_max_timestamp: " + det)
    rep.check(len(fresh) == 1, "VI5", "new index starts at 0", fi.node, "", "a new index is not seeded with 0", deep=False)
    cl = A.fn(VI + "clone")
    cc = [c for c in A.calls_in_func(cl, VI_CLS)]
    rep.check(len(cc) == 1 and A.kw(cc[0], "last_timestamp") is not None and norm(A.kw(cc[0], "last_timestamp")) == "self._last_timestamp", "VI5", "clone keeps the counter", cl.node,
              "", "clone() does not copy _last_timestamp")
    stores = sorted({f.name for (f, _s, _v) in A.field_stores(VI_CLS, "_last_timestamp")})
    rep.check(stores == ["__init__", "generate_new_output_version"], "VI5", "writers of the counter", None, "", "_last_timestamp is written in %s" % stores, deep=False)
    return Q


# ---------------------------------------------------------------------- VI6
def rule_vi6(A: Analysis, rep):
    gen = A.fn(VI + "generate_new_output_version")
    commit = gen.params[1]
    cons = A.calls_in_func(gen, "conductor.execution.version_index.Version")
    ok = False
    det = "no Version(...) construction"
    if len(cons) >= 1:
        # one construction with conditional values, or one construction per case: the union of what reaches them
        keep = lambda a: a == "none(%s)" % commit
        none_t, none_f = frozenset({("none(%s)" % commit, True)}), frozenset({("none(%s)" % commit, False)})
        rv_h, rv_d = [], []
        for con in cons:
            b = A.bind_args(con, A.fn("execution.version_index.Version.__init__"))
            ch = b.get("commit_hash")
            dirty = b.get("has_uncommitted_changes")
            at = _stmt_of(con)
            rv_h += A.rvalues(gen, ch, at, keep=keep) if ch is not None else [(frozenset(), "?")]
            rv_d += A.rvalues(gen, dirty, at, keep=keep) if dirty is not None else [(frozenset(), "?")]
        ok_hash = set(rv_h) == {(none_f, "%s.hash" % commit), (none_t, "None")}
        ok_dirty = set(rv_d) == {(none_f, "%s.has_changes" % commit), (none_t, "False")}
        ok = ok_dirty and ok_hash
        det = "commit_hash takes %s, dirty flag takes %s (expected commit.hash / commit.has_changes when a commit is given, None / False otherwise)" % (
            [(fmt_conj(c), v) for c, v in rv_h], [(fmt_conj(c), v) for c, v in rv_d])
    rep.check(ok, "VI6", "version carries the commit's hash and dirty flag", gen.node, "Version(ts, commit.hash, commit.has_changes)", det)
    cnv = A.fn("task_types.run.RunExperiment.create_new_version")   # its private helper, if any, is inlined
    calls = A.calls_in_func(cnv, "VersionIndex.generate_new_output_version")
    ctx = cnv.params[1]
    ok = len(calls) == 1 and norm(calls[0].func.value) == "%s.version_index" % ctx and \
        norm(A.kw(calls[0], "commit") or (calls[0].args[0] if calls[0].args else ast.Constant(0))) == "%s.current_commit" % ctx
    g = A.cfg(cnv, "plain")
    stores = [n for n in g.nodes if n.kind == "stmt" and isinstance(n.ast, ast.Assign) and norm(n.ast.targets[0]) == "self._most_relevant_version"]
    call_txt = norm(calls[0]) if calls else "?"
    # the field receives that call's result (directly or through a local)
    ok = ok and len(stores) == 1 and {v for _c, v in A.rvalues(cnv, stores[0].ast.value, stores[0], g, keep=lambda a: False, calls=True)} == {call_txt}
    rep.check(ok, "VI6", "new version from HEAD of this invocation", cnv.node, "generate_new_output_version(commit=ctx.current_commit)",
              "create_new_version does not generate the version from ctx.current_commit and store it as the task's version")
    r = [n for n in g.nodes if n.kind == "stmt" and isinstance(n.ast, ast.Return)]
    okr = len(r) == 1 and len(stores) == 1 and A.all_paths_pass_dw(g, cnv, g.entry, r[0], stores, skip_labels=skip)
    if okr:
        rv = {v for _c, v in A.rvalues(cnv, r[0].ast.value, r[0], g, keep=lambda a: False, calls=True)}
        okr = rv in ({"self._most_relevant_version"}, {call_txt})
        # nothing may overwrite the field between the store and the return
        okr = okr and not any(n is not stores[0] and n in g.reach([stores[0]], skip_labels=skip) for n in stores)
    rep.check(okr, "VI6", "create_new_version returns it", cnv.node,
              "", "create_new_version does not return the freshly generated version")
    cc = A.fn("utils.git.Git.current_commit")
    cons = [c for c in walk_local(cc.node) if isinstance(c, ast.Call) and norm(c.func) in ("self.Commit", "Git.Commit")]
    ok = False
    if len(cons) == 1:
        h, d = A.kw(cons[0], "commit_hash"), A.kw(cons[0], "has_changes")
        hx, dx = (A.xtext(h, cc) if h is not None else ""), (A.xtext(d, cc) if d is not None else "")
        ok = "['git', 'rev-parse', 'HEAD']" in hx and hx.endswith(".stdout.strip()") and "['git', 'diff-index', '--quiet', 'HEAD']" in dx and dx.endswith(".returncode != 0")
    rep.check(ok, "VI6", "current_commit = (rev-parse HEAD, diff-index dirty)", cc.node, "", "Git.current_commit no longer reports HEAD's hash and the dirty flag")
    for prop, field in (("hash", "_hash"), ("has_changes", "_has_changes")):
        pf = A.fn("utils.git.Git.Commit." + prop)
        r = [x for x in walk_local(pf.node) if isinstance(x, ast.Return)]
        rep.check(len(r) == 1 and norm(r[0].value) == "self." + field, "VI6", "Commit.%s" % prop, pf.node, "", "getter changed", deep=False)
    ctxc = A.fn("context.Context.current_commit")
    gcc = A.cfg(ctxc, "plain")
    st = [n for n in gcc.nodes if n.kind == "stmt" and isinstance(n.ast, ast.Assign) and norm(n.ast.targets[0]) == "self._curr_commit"]
    vals = set()
    for n in st:
        for c, v_ in A.rvalues(ctxc, n.ast.value, n, gcc, keep=lambda a: a == "t(self.uses_git)", calls=True):
            vals.add((tuple(sorted(c)), v_))
    want_cc = {((("t(self.uses_git)", True),), "self._git.current_commit()"), ((("t(self.uses_git)", False),), "None")}
    rep.check(vals == want_cc, "VI6", "ctx.current_commit", ctxc.node,
              "HEAD's commit when the project uses git, None otherwise", "Context.current_commit stores %s" % sorted(vals))
    rep.expect_min("VI6", 6)


def _stmt_of(node):
    n = node
    while not isinstance(n, ast.stmt):
        n = n._parent
    return n


# ---------------------------------------------------------------------- VI7 / VI1
def rule_vi7(A: Analysis, rep):
    n = 0
    for f in A.prog.scan_functions:
        if f.fq.startswith("conductor.envs") or f.fq.startswith("conductor.explorer"):
            continue
        for c in walk_local(f.node):
            # the transaction mode of a connection is never changed after it was opened
            if isinstance(c, (ast.Assign, ast.AugAssign, ast.AnnAssign)):
                tgts = c.targets if isinstance(c, ast.Assign) else [c.target]
                for tg in tgts:
                    if isinstance(tg, ast.Attribute) and tg.attr in ("isolation_level", "autocommit"):
                        rep.bad("VI7", "transaction mode changed", c, "`%s` (in %s) switches the connection's transaction handling: later INSERTs would commit by themselves and "
                                "commit_changes()/rollback_changes() would have nothing to commit or undo" % (norm(c)[:80], f.fq))
            if isinstance(c, ast.Call) and norm(c.func) == "setattr" and len(c.args) >= 2 and isinstance(c.args[1], ast.Constant) and c.args[1].value in ("isolation_level", "autocommit"):
                rep.bad("VI7", "transaction mode changed", c, "setattr(..., %r, ...) switches the connection's transaction handling" % c.args[1].value)
            if isinstance(c, ast.With):
                for it in c.items:
                    bt = A.res.type_of(it.context_expr, f)
                    if bt is not None and bt[0] == "sqlite3.Connection":
                        rep.bad("VI7", "`with <connection>` commits implicitly", c,
                                "`with %s:` commits the open transaction on exit (in %s) — rows become durable outside the single commit point" % (norm(it.context_expr), f.fq))
            if not isinstance(c, ast.Call):
                continue
            fx = norm(c.func)
            if fx == "sqlite3.connect":
                n += 1
                kws = {k.arg for k in c.keywords}
                rep.check(not (kws & {"isolation_level", "autocommit"}) and len(c.args) == 1, "VI7", "default transaction mode", c,
                          "connections use sqlite3's implicit transactions", "sqlite3.connect with %s would commit implicitly" % sorted(kws))
            if isinstance(c.func, ast.Attribute) and c.func.attr == "executescript":
                rep.bad("VI7", "executescript", c, "executescript() commits the open transaction")
            if isinstance(c.func, ast.Attribute) and c.func.attr in ("execute", "executemany") and c.args:
                v = A.prog.fold(c._module, c.args[0])
                if isinstance(c.args[0], ast.Call) and isinstance(c.args[0].func, ast.Attribute) and c.args[0].func.attr == "format":
                    v = A.prog.fold(c._module, c.args[0].func.value)
                if isinstance(v, str) and v.strip().split()[0].upper() in ("CREATE", "DROP", "ALTER", "PRAGMA", "DELETE", "UPDATE", "VACUUM", "BEGIN", "COMMIT", "END"):
                    okf = f.name in ("create_or_load", "_run_v1_to_v2_migration")
                    rep.check(okf, "VI7", "DDL/PRAGMA only while opening", c, "", "%s statement executed in %s" % (v.strip().split()[0].upper(), f.fq))
                elif v is NOFOLD:
                    rep.unknown("VI7", "unfoldable SQL", c, "SQL text could not be folded")
    rep.expect_min("VI7", 2)


def rule_vi1(A: Analysis, rep):
    """Who may write which index (by receiver)."""
    def recv_class(fi, e) -> str:
        tx = A.xtext(e, fi)
        if isinstance(e, ast.Attribute) and e.attr == "version_index":
            bt = A.res.type_of(e.value, fi)
            if bt is not None and bt[0] == "conductor.context.Context":
                return "PROJECT"
        if tx in ("dest", "self"):
            return tx.upper()
        if "VersionIndex.create_or_load(" in tx:
            return "LOCAL(%s)" % ("archive" if "ARCHIVE" in tx.upper() else "other")
        if isinstance(e, ast.Name):
            vals = [norm(d.value) for d in A.defs(fi, e.id) if isinstance(d, ast.Assign) and not (isinstance(d.value, ast.Constant) and d.value.value is None)]
            if len(vals) == 1 and vals[0].startswith("VersionIndex.create_or_load("):
                arg = A.xtext(ast.parse(vals[0], mode="eval").body.args[0], None)
                argx = A.xtext(d_value_arg(A, fi, e.id), fi)
                return "LOCAL(%s)" % ("archive" if "ARCHIVE_VERSION_INDEX" in argx else "other")
        return "?(%s)" % tx

    def d_value_arg(A, fi, name):
        for d in A.defs(fi, name):
            if isinstance(d, ast.Assign) and isinstance(d.value, ast.Call) and d.value.args:
                return d.value.args[0]
        return ast.Constant(None)

    short = lambda fq: fq.replace("conductor.", "")
    inv: Dict[str, set] = {}
    for tgt in ("insert_output_version", "bulk_load", "copy_entries_to", "commit_changes", "rollback_changes"):
        for (f, c) in A.all_calls_to("VersionIndex." + tgt, exclude_pkgs=("conductor.explorer", "conductor.envs")):
            r = recv_class(f, c.func.value)
            extra = ""
            if tgt == "copy_entries_to":
                d = A.kw(c, "dest") or (c.args[0] if c.args else None)
                extra = "->" + (recv_class(f, d) if d is not None else "?")
            inv.setdefault(tgt, set()).add("%s:%s%s" % (short(f.fq), r, extra))
    want = {
        "insert_output_version": {"execution.ops.run_task_executable.RunTaskExecutable.finish_execution:PROJECT"},
        "bulk_load": {"execution.version_index.VersionIndex.copy_entries_to:DEST"},
        "copy_entries_to": {"cli.archive.main:PROJECT->LOCAL(archive)", "cli.restore.main:LOCAL(archive)->PROJECT"},
        "commit_changes": {"execution.ops.run_task_executable.RunTaskExecutable.finish_execution:PROJECT", "cli.archive.main:LOCAL(archive)", "cli.restore.main:PROJECT"},
        "rollback_changes": {"cli.restore.main:PROJECT"},
    }
    for k, w in want.items():
        got = inv.get(k, set())
        rep.check(got == w, "VI1", "who may call %s" % k, None, "callers/receivers: %s" % sorted(got),
                  "index writers changed — %s is now called by %s (expected %s)" % (k, sorted(got), sorted(w)))
    # raw connection commits
    raw = set()
    for f in A.prog.scan_functions:
        for c in walk_local(f.node):
            if isinstance(c, ast.Call) and isinstance(c.func, ast.Attribute) and c.func.attr in ("commit", "rollback"):
                bt = A.res.type_of(c.func.value, f)
                if bt is not None and bt[0] == "sqlite3.Connection":
                    raw.add("%s:%s" % (f.name, c.func.attr))
    rep.check(raw == {"create_or_load:commit", "commit_changes:commit", "rollback_changes:rollback", "_run_v1_to_v2_migration:commit", "_run_v1_to_v2_migration:rollback"},
              "VI1", "raw commit/rollback sites", None, "", "raw sqlite commit/rollback sites: %s" % sorted(raw))
    # commit_changes()/rollback_changes(): the connection call is reached on every path on which a transaction is open
    for fname, meth, what in (("commit_changes", "commit", "commits"), ("rollback_changes", "rollback", "rolls back")):
        cm = A.fn(VI + fname)
        g = A.cfg(cm, "plain")
        cn = [n for n in g.nodes if n.kind == "stmt" and isinstance(n.ast, ast.Expr) and norm(n.ast.value) == "self._conn.%s()" % meth]
        ok = len(cn) == 1
        if ok:
            # the only way around the call is the "no transaction open" edge
            no_tx = A.edges_implying(g, cm, "t(self._conn.in_transaction)", False)
            r = g.reach([g.entry], removed=cn, skip_labels=is_exc, removed_edges=no_tx)
            ok = g.exit not in r
        rep.check(ok, "VI1", "%s %s" % (fname, what), cm.node, "", "%s() no longer %s the connection whenever a transaction is open" % (fname, what.replace("s ", " ").rstrip("s") if False else what))
    rep.expect_min("VI1", 7)
