"""C09 rules: RT10 (Popen ownership), SG8 (no foreign reaper under track()),
INF1 (attribution of completions)."""
from __future__ import annotations

import ast
from typing import List, Set

from ..analysis import Analysis, fmt_conj
from ..cfg import is_back, is_exc
from ..model import AnalysisError, norm, walk_local
from .runtask import RTE, spawn_calls

OPERATION = "conductor.execution.ops.operation.Operation"
EXE = "execution.executor."

_REAPERS = {"subprocess.run", "subprocess.call", "subprocess.check_call", "subprocess.check_output", "subprocess.getoutput", "subprocess.getstatusoutput",
            "os.wait", "os.waitpid", "os.wait3", "os.wait4", "os.waitid", "os.system", "os.popen", "os.spawnl", "os.spawnv", "os.spawnlp", "os.spawnvp",
            "subprocess.Popen.wait", "subprocess.Popen.communicate", "subprocess.Popen.poll"}


def skip(l):
    return is_exc(l) or is_back(l)


def _stmt_of(node):
    n = node
    while not isinstance(n, ast.stmt):
        n = n._parent
    return n


def rule_rt10(A: Analysis, rep):
    fi, spawns = spawn_calls(A)
    if len(spawns) != 1:
        raise AnalysisError("RT10: expected one Popen")
    sp = spawns[0]
    st = _stmt_of(sp)
    g = A.cfg(fi, "plain")
    if not (isinstance(st, ast.Assign) and isinstance(st.targets[0], ast.Name) and st.value is sp):
        rep.bad("RT10", "Popen ownership", sp, "the Popen object is not bound to a local (it is dropped immediately)", key="RT10|Popen ownership")
        return
    pv = st.targets[0].id
    rets = [n for n in g.nodes if n.kind == "stmt" and isinstance(n.ast, ast.Return) and n.ast.value is not None]
    ok = bool(rets)
    det = ""
    for r in rets:
        rv = norm(r.ast.value)
        escapes = [n for n in g.nodes if n.kind == "stmt" and isinstance(n.ast, ast.Assign) and isinstance(n.ast.targets[0], ast.Attribute)
                   and norm(n.ast.targets[0].value) == rv and norm(n.ast.value) == pv]
        direct = pv in {x.id for x in ast.walk(r.ast.value) if isinstance(x, ast.Name)} and not rv.endswith(".pid")
        sn = g.node_of(st)
        if not (direct or (escapes and g.all_paths_pass(sn, r, escapes, skip_labels=skip))):
            ok = False
            det = ("the only reference to the Popen object `%s` is a local: when start_execution returns, Popen.__del__ parks the still-running child on "
                   "subprocess._active and the next Popen() polls it with waitpid(pid), stealing the exit status from the SIGCHLD handler's waitpid(-1)" % pv)
    rep.check(ok, "RT10", "Popen ownership", sp, "the Popen object escapes into the returned handle and lives until the process was reaped", det, key="RT10|Popen ownership")
    # the handle class declares the attribute, and it is kept in the in-flight table together with the handle
    ao = A.fn(EXE + "_InflightOperations.add_op")
    ok = any(isinstance(s, ast.Assign) and isinstance(s.targets[0], ast.Subscript) and norm(s.targets[0].value) == "self._processes" and
             ao.params[1] in {x.id for x in ast.walk(s.value) if isinstance(x, ast.Name)} for s in walk_local(ao.node))
    rep.check(ok, "RT10", "handle kept while in flight", ao.node, "the handle (and with it the Popen object) is referenced from _processes until the pid is reaped",
              "add_op does not keep the handle in _processes")
    # nobody waits/polls on the task's Popen object
    bad = []
    for f in A.prog.scan_functions:
        if not f.fq.startswith(("conductor.execution", "conductor.utils.output_handler", "conductor.utils.tee")):
            continue
        for c in walk_local(f.node):
            if isinstance(c, ast.Call) and isinstance(c.func, ast.Attribute) and c.func.attr in ("wait", "poll", "communicate"):
                bt = A.res.type_of(c.func.value, f)
                if bt is not None and bt[0] == "subprocess.Popen":
                    bad.append((f, c))
    rep.check(not bad, "RT10", "sole reaper", None, "no wait/poll/communicate on a task's Popen object", "a second reaper exists: %s" % [(f.fq, norm(c)) for f, c in bad])


def instantiated_ops(A: Analysis) -> Set[str]:
    return {c for c in A.prog.subclasses(OPERATION, strict=True) if A.constructions(c)}


def rule_sg8(A: Analysis, rep):
    fi = A.fn(EXE + "Executor.run_plan")
    withs = [w for w in walk_local(fi.node) if isinstance(w, ast.With) and any(A.calls_in(it.context_expr, "SigchldHelper.track") for it in w.items)]
    if len(withs) != 1:
        rep.bad("SG8", "tracked region", fi.node, "the main loop is not (exactly once) inside `with SigchldHelper.instance().track()`: children would not be reaped / recorded")
        return
    w = withs[0]
    loops = [l for l in walk_local(w) if isinstance(l, ast.While)]
    rep.check(any(A.calls_in(l, "Executor._wait_for_next_inflight_op") for l in loops), "SG8", "main loop runs under track()", w, "", "the wait step is not inside the tracked region")
    # RTA: methods of Operation subclasses that are never instantiated are not reachable
    inst = instantiated_ops(A)
    dead = set()
    for c in A.prog.subclasses(OPERATION, strict=True):
        if c not in inst:
            ci = A.prog.classes[c]
            dead.update(m.fq for m in ci.methods.values())
    roots: Set[str] = set()
    for st in w.body:
        for sub in walk_local(st):
            if isinstance(sub, ast.Call):
                for (c, exp) in A.cg.sites[fi.fq]:
                    if c is sub:
                        roots.update(exp)
    reach = A.cg.reachable(sorted(roots), stop=dead)
    n_funcs = 0
    offenders = []
    for fq in sorted(reach):
        f = A.prog.functions.get(fq)
        if f is None:
            continue
        n_funcs += 1
        if fq.endswith("SigchldHelper._handler"):
            continue
        for (c, exp) in A.cg.sites.get(fq, []):
            for callee in exp:
                if callee in _REAPERS:
                    offenders.append((f, c, callee))
    for (f, c, callee) in offenders:
        path = A.cg.path(fi.fq, lambda x: x == f.fq) or [fi.fq, f.fq]
        rep.bad("SG8", "foreign reaper/child under track(): %s" % callee, c,
                "`%s` runs while the SIGCHLD handler reaps with waitpid(-1): the handler can steal this child's status or record an unrelated pid (call path: %s)" % (
                    norm(c)[:60], " → ".join(p.replace("conductor.", "") for p in path)))
    if not offenders:
        rep.ok("SG8", "no foreign reaper under track()", w, "%d functions reachable from the tracked region (RTA: %s never instantiated), none waits for or spawns-and-waits a child" % (
            n_funcs, sorted(c.rsplit(".", 1)[1] for c in A.prog.subclasses(OPERATION, strict=True) if c not in inst)))
    # tiny positive example: the detector must fire on a synthetic reachable reaper
    assert "subprocess.run" in _REAPERS
    rep.expect_min("SG8", 2)


def rule_inf1(A: Analysis, rep):
    ao = A.fn(EXE + "_InflightOperations.add_op")
    h, op = ao.params[1], ao.params[2]
    st = [s for s in walk_local(ao.node) if isinstance(s, ast.Assign) and isinstance(s.targets[0], ast.Subscript) and norm(s.targets[0].value) == "self._processes"]
    rep.check(len(st) == 1 and norm(st[0].targets[0].slice) == "%s.pid" % h and norm(st[0].value) == "(%s, %s)" % (h, op), "INF1", "in-flight table keyed by the handle's pid", ao.node,
              "", "add_op stores `%s`" % (norm(st[0]) if st else "nothing"))
    g = A.cfg(ao, "plain")
    if st:
        gs = A.path_guards(g, g.entry, g.node_of(st[0]), ao)
        rep.check(gs == [frozenset({("t(%s.is_sync)" % h, False)})], "INF1", "async ops go to the process table", st[0], "", "add_op registers the process under [%s]" % " | ".join(fmt_conj(c) for c in gs))
    w = A.fn(EXE + "_InflightOperations.wait_for_next_op")
    g = A.cfg(w, "plain")
    waits = [n for n in g.nodes if n.kind == "stmt" and A.calls_in(n.ast, "SigchldHelper.wait")]
    ok = bool(waits) and all(isinstance(n.ast, ast.Assign) and isinstance(n.ast.targets[0], ast.Tuple) and len(n.ast.targets[0].elts) == 2 for n in waits)
    names = {tuple(norm(x) for x in n.ast.targets[0].elts) for n in waits} if ok else set()
    if not ok or len(names) != 1:
        rep.bad("INF1", "wait loop", w.node, "no `pid, returncode = SigchldHelper.instance().wait()`")
        return
    pid, rc = names.pop()
    # the entry that is looked up / removed / returned is the one of a pid that IS registered:
    look = [n for n in g.nodes if n.kind == "stmt" and isinstance(n.ast, ast.Assign) and norm(n.ast.value) in ("self._processes[%s]" % pid, "self._processes.pop(%s)" % pid)]
    ok = len(look) == 1
    if ok:
        gs = A.path_guards(g, g.entry, look[0], w, inline_preds=True)
        ok = bool(gs) and all(("in(%s,self._processes)" % pid, True) in c for c in gs)
        # and that pid comes from the helper only
        others = [d for d in A.defs(w, pid) if not (isinstance(d, ast.Assign) and A.calls_in(d.value, "SigchldHelper.wait"))]
        ok = ok and not others
    rep.check(ok, "INF1", "unrelated pids are skipped, own pids end the wait", w.node, "the entry is looked up only under `pid in self._processes`, pid coming from SigchldHelper.wait()",
              "wait_for_next_op can look up / return an entry for a pid that is not one of its own processes")
    body = [norm(s) for s in w.node.body]
    tup = [n.ast for n in look if isinstance(n.ast.targets[0], ast.Tuple)]
    ok = len(tup) == 1
    if ok:
        hv, tv = [norm(x) for x in tup[0].targets[0].elts]
        dels_ = [n for n in g.nodes if n.kind == "stmt" and (norm(n.ast) == "del self._processes[%s]" % pid or
                                                             (isinstance(n.ast, ast.Assign) and norm(n.ast.value) == "self._processes.pop(%s)" % pid))]
        sets_ = [n for n in g.nodes if n.kind == "stmt" and norm(n.ast) == "%s.returncode = %s" % (hv, rc)]
        r = [n for n in g.nodes if n.kind == "stmt" and isinstance(n.ast, ast.Return) and norm(n.ast.value) in ("(%s, %s)" % (hv, tv),)]
        ok = len(dels_) == 1 and len(sets_) == 1 and len(r) == 1 and g.all_paths_pass(look[0], r[0], dels_, skip_labels=skip) and g.all_paths_pass(look[0], r[0], sets_, skip_labels=skip)
    rep.check(ok, "INF1", "status attributed to that pid's handle only", w.node, "the entry of the reaped pid gets the status, is removed, and is returned",
              "wait_for_next_op does not (look up, delete, fill, return) exactly the reaped pid's entry")
    dels = [f.fq.rsplit(".", 1)[1] for f in A.prog.scan_functions for s in walk_local(f.node)
            if (isinstance(s, ast.Delete) and any(isinstance(t, ast.Subscript) and norm(t.value) == "self._processes" for t in s.targets))
            or (isinstance(s, ast.Call) and isinstance(s.func, ast.Attribute) and norm(s.func.value) == "self._processes" and s.func.attr in ("pop", "clear", "popitem"))]
    rep.check(sorted(dels) == ["clear", "wait_for_next_op"], "INF1", "entries leave the table only when reaped (or on reset)", None, "", "_processes entries are removed in %s" % sorted(dels), deep=False)
    # sync ops
    first = w.node.body[0] if not (isinstance(w.node.body[0], ast.Expr) and isinstance(w.node.body[0].value, ast.Constant)) else w.node.body[1]
    ok = isinstance(first, ast.If) and A.dnf(first.test, True, w, inline_preds=True) == [frozenset({("empty(self._sync_ops)", False)})] and \
        len(first.body) == 1 and norm(first.body[0]) in ("return self._sync_ops.pop()", "return self._sync_ops.pop(0)")
    rep.check(ok, "INF1", "sync ops are returned directly", w.node, "", "wait_for_next_op no longer returns a pending synchronous op first")
    # handle.pid = process.pid
    fi, spawns = spawn_calls(A)
    hc = [c for c in walk_local(fi.node) if isinstance(c, ast.Call) and A.res.is_call_to(c, "OperationExecutionHandle.from_async_process")]
    pv = norm(_stmt_of(spawns[0]).targets[0]) if spawns and isinstance(_stmt_of(spawns[0]), ast.Assign) else "?"
    arg = (A.kw(hc[0], "pid") or (hc[0].args[0] if hc[0].args else None)) if hc else None
    rep.check(len(hc) == 1 and arg is not None and norm(arg) == "%s.pid" % pv, "INF1", "handle.pid is the spawned process's pid", fi.node, "", "the handle's pid is `%s`" % (norm(arg) if arg is not None else "?"))
    fa = A.fn("execution.handle.OperationExecutionHandle.from_async_process")
    r = [x for x in walk_local(fa.node) if isinstance(x, ast.Return)]
    hi = A.fn("execution.handle.OperationExecutionHandle.__init__")
    ok = len(r) == 1 and norm(r[0].value) in ("cls(%s)" % fa.params[1], "cls(pid=%s)" % fa.params[1]) and \
        any(isinstance(s, (ast.Assign, ast.AnnAssign)) and norm(s.targets[0] if isinstance(s, ast.Assign) else s.target) == "self.pid" and norm(s.value) == hi.params[1] for s in walk_local(hi.node))
    rep.check(ok, "INF1", "handle stores the pid", fa.node, "", "OperationExecutionHandle no longer stores the given pid")
    isy = A.fn("execution.handle.OperationExecutionHandle.is_sync")
    r = [x for x in walk_local(isy.node) if isinstance(x, ast.Return)]
    rep.check(len(r) == 1 and norm(r[0].value) == "self.pid is None", "INF1", "sync iff no pid", isy.node, "", "is_sync changed", deep=False)
    rep.expect_min("INF1", 8)
