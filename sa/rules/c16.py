"""C16 — An interrupt stops all running tasks and records nothing unfinished."""
from . import executor as E, runtask as R, signals as S

META = {
    "explanation": "Asynchronous exception model (a signal handler may raise ConductorAbort at every statement boundary of main-thread code): "
                   "handlers installed before the command runs (SG1); no try on the way swallows or converts the abort (SG2); every name "
                   "read in an abort-reachable handler/finally is definitely assigned (SG3, must-defined dataflow); from the spawn to the "
                   "registration of the pid every statement aborts into a handler that kills or registers the process (SG4); registered "
                   "processes are terminated first by run_plan's handler, covering all entries, and no abort path commits (SG5); below run_plan no call inside an abort clause can raise and thereby replace the abort (SG10, typed exception summaries); SIGINT/SIGTERM are never ignored, masked or re-routed after start-up (SG11, inventory of signal-disposition calls); no version "
                   "row unless the task exited 0 (RT1, RT2); the abort is reported through cli_command (CLI1).",
    "rules": ["SG1", "SG2", "SG3", "SG4", "SG5", "SG10", "SG11", "RT1", "RT2", "CLI1", "EX6", "EX7", "SG12"],
    "assumptions": ["statement granularity: `x = f()` is the callee's statements followed by an atomic bind (DESIGN §3.7); interruption inside Popen.__init__ after fork is not modelled",
                    "the tee threads' shutdown timing is run-time behaviour"],
    "trusted": ["ast parser", "call graph + RTA for the set of functions reachable from `cond run`"],
}


def run(A, rep, tier):
    S.rule_sg1(A, rep)
    S.rule_sg2(A, rep)
    S.rule_sg3(A, rep)
    S.rule_sg4(A, rep)
    S.rule_sg5(A, rep)
    S.rule_sg10(A, rep)
    S.rule_sg11(A, rep)
    S.rule_sg12(A, rep)
    R.rule_rt1(A, rep)
    R.rule_rt2(A, rep)
    E.rule_cli1(A, rep)
    X = E.ExecFacts(A)
    E.rule_ex6(A, rep, X, stop_rules=False)
    E.rule_ex7(A, rep, X)
