"""C10 — Recorded stdout/stderr and argument records are exact."""
from . import output as O, runtask as R

META = {
    "explanation": "The tee loop copies every chunk unchanged to a binary log and to Conductor's stream until EOF (TEE1), the two pipes of a task are copied concurrently (TEE2: pool size ≥ copy jobs per task), finish() waits "
                   "for it before anything else (OH1, RT2), mode table of the handlers and selection by (record_output, slot) (OH2), "
                   "stream↔file↔pipe pairing and byte pipes (RT9), args.json/options.json written iff non-empty from the declared values (JS1).",
    "rules": ["TEE1", "TEE2", "OH1", "OH2", "RT9", "JS1", "RT2"],
    "assumptions": ["byte-exactness of the OS pipe and json round-tripping of floats are library behaviour", "interleaving between the two streams is unspecified"],
    "trusted": ["ast parser", "constant folder"],
}


def run(A, rep, tier):
    O.rule_tee1(A, rep)
    O.rule_tee2(A, rep)
    var = O.rule_oh(A, rep)
    O.rule_rt9(A, rep, var or "record_type")
    O.rule_js1(A, rep)
    R.rule_rt2(A, rep)
