"""C10 rules: TEE1, OH1, OH2, RT9, JS1 (recorded output and argument records)."""
from __future__ import annotations

import ast

from ..analysis import Analysis, fmt_conj, _and_all
from ..cfg import branch_of, is_back, is_exc
from ..model import AnalysisError, NOFOLD, norm, walk_local
from .runtask import RTE, spawn_calls


def skip(l):
    return is_exc(l) or is_back(l)


def _stmt_of(node):
    n = node
    while not isinstance(n, ast.stmt):
        n = n._parent
    return n


def rule_tee2(A: Analysis, rep):
    """Both pipes of a teed task are drained at the same time: the pool that runs the copy loops has at least as many
    workers as one task submits copy jobs (stdout and stderr).  With fewer, the second pipe is not read until the
    first reaches EOF; a task that fills the unread pipe (64 KiB) blocks for ever and its output is never recorded."""
    se = A.fn(RTE + "start_execution")
    n_jobs = len(A.calls_in(se.node, "OutputHandler.maybe_tee"))
    subs = [(f, c) for (f, c) in A.all_calls_to("TeeProcessor.tee_pipe")]
    pools = []
    for f in A.prog.scan_functions:
        if f.fq.startswith("conductor.utils.tee."):
            for c in walk_local(f.node):
                if isinstance(c, ast.Call) and norm(c.func).endswith("ThreadPoolExecutor"):
                    pools.append((f, c))
    if n_jobs < 2 or len(pools) != 1 or not subs:
        raise AnalysisError("TEE2: anchors not found (maybe_tee calls=%d, pools=%d, tee_pipe callers=%d)" % (n_jobs, len(pools), len(subs)))
    f, c = pools[0]
    mw = A.kw(c, "max_workers") or (c.args[0] if c.args else None)
    val = None if mw is None else A.prog.fold(f.module, mw)
    ok = mw is None or (isinstance(val, int) and not isinstance(val, bool) and val >= n_jobs) or (mw is not None and norm(mw) == "None")
    rep.check(ok, "TEE2", "one worker per teed pipe", c, "%d copy jobs per task, pool of %s workers" % (n_jobs, "default" if mw is None else val),
              "a teed task submits %d copy jobs but the pool has max_workers=%s: the second pipe is not drained while the first is open" % (n_jobs, norm(mw) if mw is not None else "?"))
    # each copy job runs on the pool (not inline in the caller's thread)
    tp = A.fn("utils.tee.TeeProcessor.tee_pipe")
    sub_calls = [x for x in walk_local(tp.node) if isinstance(x, ast.Call) and isinstance(x.func, ast.Attribute) and x.func.attr == "submit"]
    rep.check(len(sub_calls) == 1 and sub_calls[0].args and norm(sub_calls[0].args[0]) == "self._tee_pipe_run", "TEE2", "copy loop runs on the pool", tp.node, "",
              "tee_pipe no longer submits the copy loop to the executor")


def _open_mode(c: ast.Call):
    m = c.args[1] if len(c.args) > 1 else next((k.value for k in c.keywords if k.arg == "mode"), None)
    return m.value if isinstance(m, ast.Constant) else (None if m is None else "?")


def rule_tee1(A: Analysis, rep):
    fi = A.fn("utils.tee.TeeProcessor._tee_pipe_run")
    pipe, stream, fname = fi.params[1], fi.params[2], fi.params[3]
    g = A.cfg(fi, "plain")
    opens = [c for c in walk_local(fi.node) if isinstance(c, ast.Call) and norm(c.func) == "open"]
    ok = len(opens) == 1 and norm(opens[0].args[0]) == fname and _open_mode(opens[0]) in ("wb", "bw")
    rep.check(ok, "TEE1", "log opened in binary write mode at the given path", fi.node, "open(file_name, 'wb')",
              "the tee log is opened as open(%s, %r) — text mode / append would alter or mix bytes" % (norm(opens[0].args[0]) if opens else "?", _open_mode(opens[0]) if opens else None))
    loops = [l for l in walk_local(fi.node) if isinstance(l, (ast.While, ast.For))]
    if len(loops) != 1:
        rep.bad("TEE1", "copy loop", fi.node, "expected one read loop, found %d" % len(loops))
        return
    l = loops[0]
    reads = [s for s in walk_local(fi.node) if isinstance(s, (ast.Assign, ast.AnnAssign)) and isinstance(s.value, ast.Call) and isinstance(s.value.func, ast.Attribute)
             and s.value.func.attr in ("read", "read1", "readline", "readinto") and norm(s.value.func.value) == pipe]
    _tg = lambda r: r.targets[0] if isinstance(r, ast.Assign) else r.target
    names = {norm(_tg(r)) for r in reads}
    if not reads or len(names) != 1 or not any(id(r) in {id(x) for x in walk_local(l)} for r in reads):
        rep.bad("TEE1", "copy loop", l, "expected reads of the pipe into one variable inside the loop, found %s" % [norm(r) for r in reads])
        return
    data = names.pop()
    rds = [g.node_of(r) for r in reads]
    # EOF edges: the branch of a test on the chunk that means "nothing was read"
    eof_edges = []
    for n in g.nodes:
        if n.kind == "test" and n.ast is not None:
            for pol in (True, False):
                d = A.dnf(n.ast, pol, fi, inline=False)
                if d and all(("empty(%s)" % data, True) in c or ("t(%s)" % data, False) in c for c in d):
                    eof_edges.append((n, "T" if pol else "F"))
    first = [r for r in rds if g.dominates(r, g.node_of(l) if g.nodes_of(l) else r, skip_labels=is_exc) or id(r.ast) in {id(x) for x in walk_local(l)}]
    r1 = g.reach(rds, skip_labels=is_exc, removed_edges=eof_edges)
    rets = [x for x in walk_local(fi.node) if isinstance(x, (ast.Return, ast.Raise))]
    # and the first read is reached unconditionally (the loop is entered)
    ent = g.reach([g.entry], removed=rds, skip_labels=is_exc)
    rep.check(bool(eof_edges) and g.exit not in r1 and g.exit not in ent and not rets, "TEE1", "loop ends only at end of stream", l, "the only way out after a read is `len(data) == 0` (EOF)",
              "the copy loop can stop before end of stream (output would be truncated)")
    # each chunk written unchanged to the file and to stream.buffer, on every non-EOF path to the next read / the end
    fvar = None
    for w in walk_local(fi.node):
        if isinstance(w, ast.With):
            for it in w.items:
                if it.context_expr in opens and it.optional_vars is not None:
                    fvar = norm(it.optional_vars)
    wr_file = [n for n in g.nodes if n.kind == "stmt" and norm(n.ast) == "%s.write(%s)" % (fvar, data)]
    wr_stream = [n for n in g.nodes if n.kind == "stmt" and norm(n.ast) in ("%s.buffer.write(%s)" % (stream, data),)]
    def on_all_paths(ws):
        if not ws:
            return False
        for rd in rds:
            seen = set()
            stack = [m for m, lb in rd.succ if not is_exc(lb)]
            while stack:
                n = stack.pop()
                if n in seen or n in ws:
                    continue
                seen.add(n)
                if n in rds or n is g.exit:
                    return False
                for m, lb in n.succ:
                    if is_exc(lb) or (n, branch_of(lb)) in [(a, b) for a, b in eof_edges]:
                        continue
                    stack.append(m)
        return True
    rep.check(on_all_paths(wr_file), "TEE1", "every chunk reaches the log unchanged", l, "file.write(data) with the very bytes read, on every non-EOF iteration",
              "a chunk read from the pipe is not written unchanged to the log file on every path")
    rep.check(on_all_paths(wr_stream), "TEE1", "every chunk is forwarded unchanged", l, "stream.buffer.write(data) on every non-EOF iteration",
              "a chunk read from the pipe is not forwarded unchanged to Conductor's own stream")
    # data is not reassigned between read and writes
    redef = [d for d in A.defs(fi, data) if d not in reads]
    rep.check(not redef, "TEE1", "no transformation of the chunk", l, "", "`%s` is reassigned (%s) between the read and the writes" % (data, [norm(d)[:40] for d in redef]))
    other_writes = [c for c in walk_local(l) if isinstance(c, ast.Call) and isinstance(c.func, ast.Attribute) and c.func.attr == "write" and norm(c.args[0]) != data]
    rep.check(not other_writes, "TEE1", "nothing else is written", l, "", "extra writes in the copy loop: %s" % [norm(c) for c in other_writes])
    rep.expect_min("TEE1", 6)
    # submission: tee_pipe submits _tee_pipe_run with (pipe, stream, file_name)
    tp = A.fn("utils.tee.TeeProcessor.tee_pipe")
    r = [x for x in walk_local(tp.node) if isinstance(x, ast.Return)]
    okc = False
    if len(r) == 1 and isinstance(r[0].value, ast.Call) and norm(r[0].value.func) == "self._executor.submit" and r[0].value.args and norm(r[0].value.args[0]) == "self._tee_pipe_run":
        sub = ast.Call(func=r[0].value.args[0], args=r[0].value.args[1:], keywords=r[0].value.keywords)
        b_ = A.bind_args(sub, fi)
        okc = {k: norm(v_) for k, v_ in b_.items()} == {fi.params[1]: tp.params[1], fi.params[2]: tp.params[2], fi.params[3]: tp.params[3]}
    rep.check(okc, "TEE1", "tee thread gets (pipe, stream, file)", tp.node,
              "", "tee_pipe submits `%s`" % (norm(r[0].value) if r else "?"))


def rule_oh(A: Analysis, rep):
    OH = "utils.output_handler.OutputHandler."
    pa = A.fn(OH + "popen_arg")
    g = A.cfg(pa, "plain")
    # evaluate the guards of every return under each member of the RecordType enum (a decision table over a finite domain)
    import re as _re
    rt_cls = A.prog.cls("conductor.utils.output_handler.RecordType")
    members = [norm(t) for st in rt_cls.node.body if isinstance(st, ast.Assign) for t in st.targets if isinstance(t, ast.Name)]
    table = {}
    pat = _re.compile(r"^eq\((?:self\._type,RecordType\.(\w+)|RecordType\.(\w+),self\._type)\)$")
    for n in list(g.nodes) + [g.exit]:
        if (n.kind == "stmt" and isinstance(n.ast, ast.Return)) or n is g.exit:
            if n is g.exit:
                # falling off the end returns None as well
                val = "None"
                guards = [c for (m0, l0) in g.exit.pred if l0 != "ret" and not is_exc(l0) for c in (A.path_guards(g, g.entry, m0, pa) if m0.kind != "test" else
                          _and_all([A.path_guards(g, g.entry, m0, pa), A.dnf(m0.ast, branch_of(l0) == "T", pa)]))]
            else:
                val = norm(n.ast.value) if n.ast.value is not None else "None"
                guards = A.path_guards(g, g.entry, n, pa)
            for m_ in members:
                for c in guards:
                    sat = True
                    for a_, p_ in c:
                        mm = pat.match(a_)
                        if mm is None:
                            sat = None
                            break
                        if ((mm.group(1) or mm.group(2)) == m_) != p_:
                            sat = False
                            break
                    if sat is None:
                        table.setdefault("?", []).append(a_)
                    elif sat:
                        table.setdefault(val, [])
                        if m_ not in table[val]:
                            table[val].append(m_)
    table = {k: sorted(v) for k, v in table.items()}
    want = {"None": ["NotRecorded"], "subprocess.PIPE": ["Teed"], "self._file": ["OnlyLogged"]}
    rep.check(table == want, "OH2", "popen_arg mode table", pa.node, "NotRecorded→None (inherit), Teed→PIPE, OnlyLogged→the log file", "popen_arg returns %s" % table)
    opens = [c for c in walk_local(pa.node) if isinstance(c, ast.Call) and norm(c.func) == "open"]
    ok = len(opens) == 1 and norm(opens[0].args[0]) == "self._output_path" and _open_mode(opens[0]) in ("wb", "bw")
    rep.check(ok, "OH2", "parallel log opened 'wb' at the handler's own path", pa.node, "", "OnlyLogged opens open(%s, %r)" % (norm(opens[0].args[0]) if opens else "?", _open_mode(opens[0]) if opens else None))
    init = A.fn(OH + "__init__")
    st = {norm(s.targets[0]): norm(s.value) for s in walk_local(init.node) if isinstance(s, ast.Assign)}
    rep.check(st.get("self._output_path") == init.params[1] and st.get("self._type") == init.params[2], "OH2", "handler fields", init.node, "", "OutputHandler.__init__ stores %s" % st, deep=False)
    mt = A.fn(OH + "maybe_tee")
    g = A.cfg(mt, "plain")
    tees = [n for n in g.nodes if n.kind == "stmt" and A.calls_in(n.ast, "TeeProcessor.tee_pipe")]
    ok = len(tees) == 1
    if ok:
        # the assert on the pipe is not a condition of the tee: drop none(pipe) atoms
        gs = [frozenset(x for x in c_ if not x[0].startswith("none(")) for c_ in A.path_guards(g, g.entry, tees[0], mt)]
        c = A.calls_in(tees[0].ast, "TeeProcessor.tee_pipe")[0]
        tp_ = A.fn("utils.tee.TeeProcessor.tee_pipe")
        bound = {k: norm(v_) for k, v_ in A.bind_args(c, tp_).items()}
        ok = gs == [frozenset({("eq(RecordType.Teed,self._type)", True)})] and \
            bound == {tp_.params[1]: mt.params[1], tp_.params[2]: mt.params[2], tp_.params[3]: "self._output_path"} and \
            isinstance(tees[0].ast, ast.Assign) and norm(tees[0].ast.targets[0]) == "self._tee_future"
    rep.check(ok, "OH2", "tee exactly for Teed handlers, into the handler's log", mt.node, "", "maybe_tee no longer tees (pipe, stream) into self._output_path exactly for Teed handlers")
    fn = A.fn(OH + "finish")
    g = A.cfg(fn, "plain")
    res = [n for n in g.nodes if n.kind == "stmt" and norm(n.ast) == "self._tee_future.result()"]
    cl = [n for n in g.nodes if n.kind == "stmt" and norm(n.ast) == "self._file.close()"]
    ok = len(res) == 1 and len(cl) == 1
    if ok:
        g1 = A.path_guards(g, g.entry, res[0], fn)
        g2 = A.path_guards(g, g.entry, cl[0], fn)
        ok = g1 == [frozenset({("eq(RecordType.Teed,self._type)", True), ("none(self._tee_future)", False)})] and \
            all(("eq(RecordType.OnlyLogged,self._type)", True) in c and ("none(self._file)", False) in c for c in g2) and bool(g2)
    rep.check(ok, "OH1", "finish waits for the tee / closes the log", fn.node, "Teed: future.result(); OnlyLogged: file.close()", "finish() no longer waits for the tee thread / closes the log file")
    # record type selection
    fi, spawns = spawn_calls(A)
    g = A.cfg(fi, "plain")
    slot = fi.params[2]
    sel = {}
    var = None
    for n in g.nodes:
        if n.kind == "stmt" and isinstance(n.ast, ast.Assign) and norm(n.ast.value).startswith("RecordType."):
            var = norm(n.ast.targets[0])
            sel[norm(n.ast.value).split(".")[1]] = sorted(sorted(c) for c in A.path_guards(g, g.entry, n, fi))
    want = {"Teed": [sorted([("none(%s)" % slot, True), ("t(self._record_output)", True)])],
            "OnlyLogged": [sorted([("none(%s)" % slot, False), ("t(self._record_output)", True)])],
            "NotRecorded": [[("t(self._record_output)", False)]]}
    rep.check(sel == want, "OH2", "record type by (record_output, slot)", fi.node, "Teed iff recorded ∧ no slot; OnlyLogged iff recorded ∧ slot; else NotRecorded",
              "record type selection is %s" % sel)
    rep.expect_min("OH2", 5)
    return var


def rule_rt9(A: Analysis, rep, rt_var="record_type"):
    fi, spawns = spawn_calls(A)
    sp = spawns[0]
    mod = fi.module
    handlers = {}
    pairs_ = []
    for s in walk_local(fi.node):
        if isinstance(s, ast.Assign) and len(s.targets) == 1:
            if isinstance(s.targets[0], (ast.Tuple, ast.List)) and isinstance(s.value, (ast.Tuple, ast.List)) and len(s.targets[0].elts) == len(s.value.elts):
                pairs_.extend(zip(s.targets[0].elts, s.value.elts))     # `out, err = (OutputHandler(..), OutputHandler(..))`
            else:
                pairs_.append((s.targets[0], s.value))
    for (tg_, val_) in pairs_:
        if isinstance(val_, ast.Call) and A.res.is_call_to(val_, "conductor.utils.output_handler.OutputHandler"):
            c = val_
            s = ast.Assign(targets=[tg_], value=val_)
            ba_ = A.bind_args(c, A.fn("utils.output_handler.OutputHandler.__init__"))
            ohp = A.fn("utils.output_handler.OutputHandler.__init__").params
            p = ba_.get(ohp[1])
            rt_arg = ba_.get(ohp[2])
            if p is None:
                continue
            fname = None
            if isinstance(p, ast.BinOp) and isinstance(p.op, ast.Div) and norm(p.left) == "self._output_path":
                v = A.prog.fold(mod, p.right)
                fname = v if v is not NOFOLD else None
            handlers[norm(s.targets[0])] = (fname, norm(rt_arg) if rt_arg is not None else None)
    by_file = {v[0]: k for k, v in handlers.items()}
    so, se = by_file.get("stdout.log"), by_file.get("stderr.log")
    rep.check(so is not None and se is not None and len(handlers) == 2 and all(v[1] == rt_var for v in handlers.values()), "RT9", "one handler per stream, stdout.log / stderr.log", fi.node,
              "", "output handlers are %s" % handlers)
    kws = {k.arg: norm(k.value) for k in sp.keywords if k.arg}
    rep.check(kws.get("stdout") == "%s.popen_arg()" % so and kws.get("stderr") == "%s.popen_arg()" % se, "RT9", "stdout↔stdout.log, stderr↔stderr.log at the spawn", sp,
              "", "Popen(stdout=%s, stderr=%s)" % (kws.get("stdout"), kws.get("stderr")))
    badkw = sorted(set(kws) & {"text", "encoding", "universal_newlines", "bufsize", "errors"})
    rep.check(not badkw, "RT9", "byte pipes (no text mode / buffering options)", sp, "", "Popen is given %s — bytes would be decoded/re-encoded or buffered" % badkw)
    pv = norm(_stmt_of(sp).targets[0]) if isinstance(_stmt_of(sp), ast.Assign) else "?"
    tees = {norm(c.func.value): [norm(a) for a in c.args] for c in walk_local(fi.node) if isinstance(c, ast.Call) and A.res.is_call_to(c, "OutputHandler.maybe_tee")}
    ok = tees.get(so, [None, None])[:2] == ["%s.stdout" % pv, "sys.stdout"] and tees.get(se, [None, None])[:2] == ["%s.stderr" % pv, "sys.stderr"]
    rep.check(ok, "RT9", "pipes teed to the matching Conductor stream", fi.node, "process.stdout→sys.stdout, process.stderr→sys.stderr", "maybe_tee pairing is %s" % tees)
    hs = {norm(s.targets[0]).split(".")[-1]: norm(s.value) for s in walk_local(fi.node) if isinstance(s, ast.Assign) and isinstance(s.targets[0], ast.Attribute)
          and norm(s.targets[0]).split(".")[-1] in ("stdout", "stderr")}
    rep.check(hs == {"stdout": so, "stderr": se}, "RT9", "handle carries both handlers", fi.node, "", "handle.stdout/stderr are %s" % hs)
    for c, v in (("STDOUT_LOG_FILE", "stdout.log"), ("STDERR_LOG_FILE", "stderr.log")):
        rep.check(A.prog.fold_fq("conductor.config." + c) == v, "RT9", "constant %s" % c, None, "", "%s is not %r" % (c, v), deep=False)
    rep.expect_min("RT9", 6)


def rule_js1(A: Analysis, rep):
    fi = A.fn(RTE + "finish_execution")
    g = A.cfg(fi, "plain")
    mod = fi.module
    seen = {}
    for n in g.nodes:
        if n.kind != "stmt":
            continue
        for c in A.calls_in(n.ast, "RunArguments.serialize_json", "RunOptions.serialize_json"):
            recv = norm(c.func.value)
            p = c.args[0]
            fname = A.prog.fold(mod, p.right) if isinstance(p, ast.BinOp) and norm(p.left) == "self._output_path" else None
            gs = A.path_guards(g, g.entry, n, fi)
            core = [sorted(a for a in cj if "returncode" not in a[0]) for cj in gs]
            seen[recv] = (fname, core)
    want = {"self._args": ("args.json", [sorted([("t(self._serialize_args_options)", True), ("t(self._args.empty())", False)])]),
            "self._options": ("options.json", [sorted([("t(self._serialize_args_options)", True), ("t(self._options.empty())", False)])])}
    rep.check(seen == want, "JS1", "args.json / options.json written iff non-empty", fi.node, "each record is written exactly when its list/dict is non-empty (experiments only)",
              "argument records are written as %s" % seen)
    for cls, field, extra in (("utils.run_arguments.RunArguments", "self._args", ""), ("utils.run_options.RunOptions", "self._options", "")):
        sj = A.fn(cls + ".serialize_json")
        dumps = [c for c in walk_local(sj.node) if isinstance(c, ast.Call) and norm(c.func) == "json.dump"]
        opens = [c for c in walk_local(sj.node) if isinstance(c, ast.Call) and norm(c.func) == "open"]
        ok = len(dumps) == 1 and norm(dumps[0].args[0]) == field and len(opens) == 1 and norm(opens[0].args[0]) == sj.params[1] and _open_mode(opens[0]) == "w"
        rep.check(ok, "JS1", "%s dumps the declared values themselves" % cls.rsplit(".", 1)[1], sj.node, "json.dump(%s, file)" % field, "serialize_json dumps `%s`" % (norm(dumps[0].args[0]) if dumps else "?"))
        # the dump must be total and lossless for every primitive value (any str incl. lone surrogates from
        # os.listdir/os.environ, any float): keywords that change what can be encoded are reported
        lossy = {"ensure_ascii": "non-ASCII text is written raw: a str with a lone surrogate (undecodable file name / env value) raises UnicodeEncodeError in the UTF-8 writer",
                 "default": "values are converted instead of being written as declared", "skipkeys": "entries can be dropped silently",
                 "cls": "a custom encoder may change the representation", "allow_nan": "inf/nan floats would raise instead of round-tripping"}
        for d in dumps:
            for k in d.keywords:
                if k.arg in lossy and not (k.arg == "ensure_ascii" and isinstance(k.value, ast.Constant) and k.value.value is True) \
                        and not (k.arg == "allow_nan" and isinstance(k.value, ast.Constant) and k.value.value is True):
                    rep.bad("JS1", "%s: lossless, total JSON encoding" % cls.rsplit(".", 1)[1], d, "json.dump(..., %s=%s): %s" % (k.arg, norm(k.value), lossy[k.arg]))
            rep.check(True, "JS1", "%s: encoding keywords" % cls.rsplit(".", 1)[1], d, "keywords %s" % sorted(k.arg for k in d.keywords if k.arg), deep=False)
        for o in opens:
            enc = next((k.value for k in o.keywords if k.arg == "encoding"), None)
            errs = next((k.value for k in o.keywords if k.arg == "errors"), None)
            rep.check(enc is not None and isinstance(enc, ast.Constant) and str(enc.value).upper().replace("-", "") == "UTF8" and errs is None, "JS1", "%s: file encoding fixed to UTF-8" % cls.rsplit(".", 1)[1], o,
                      "", "the record is opened with encoding=%s errors=%s" % (norm(enc) if enc is not None else None, norm(errs) if errs is not None else None))
        em = A.fn(cls + ".empty")
        r = [x for x in walk_local(em.node) if isinstance(x, ast.Return)]
        rep.check(len(r) == 1 and A.dnf(r[0].value, True, em) == [frozenset({("empty(%s)" % field, True)})], "JS1", "%s.empty()" % cls.rsplit(".", 1)[1], em.node, "", "empty() is `%s`" % (norm(r[0].value) if r else "?"))
        fr = A.fn(cls + ".from_raw")
        r = [x for x in walk_local(fr.node) if isinstance(x, ast.Return)]
        rep.check(len(r) == 1 and norm(r[0].value) == "cls(%s)" % fr.params[2], "JS1", "%s keeps the validated value" % cls.rsplit(".", 1)[1], fr.node, "", "from_raw returns `%s`" % (norm(r[0].value) if r else "?"))
        ini = A.fn(cls + ".__init__")
        rep.check(any(isinstance(s, ast.Assign) and norm(s.targets[0]) == field and norm(s.value) == ini.params[1] for s in ini.node.body), "JS1", "%s stores it" % cls.rsplit(".", 1)[1], ini.node, "", "constructor changed", deep=False)
    for c, v in (("EXP_ARGS_JSON_FILE_NAME", "args.json"), ("EXP_OPTION_JSON_FILE_NAME", "options.json")):
        rep.check(A.prog.fold_fq("conductor.config." + c) == v, "JS1", "constant %s" % c, None, "", "%s is not %r" % (c, v), deep=False)
    # planner: experiments record output and serialise args; commands do not
    from .planner import PlannerFacts
    F = PlannerFacts(A)
    # decided per task type: the flags that reach a RunTaskExecutable construction on the paths taken for that type
    seen_types = set()
    for (cn, var, call, cls) in F.constructions:
        if not cls.endswith("RunTaskExecutable"):
            continue
        ro, sa = A.kw(call, "record_output"), A.kw(call, "serialize_args_options")
        if ro is None or sa is None:
            rep.bad("JS1", "record flags", call, "RunTaskExecutable(...) without explicit record_output / serialize_args_options")
            continue
        is_type = lambda a: a.startswith("t(isinstance(%s.task, " % F.lt)
        for kind, want_v in (("RunExperiment", "True"), ("RunCommand", "False")):
            def on_type(c):
                # the path is one taken for `kind`: no isinstance atom contradicts it
                for (a_, p_) in c:
                    if is_type(a_):
                        t_ = a_[len("t(isinstance(%s.task, " % F.lt):-2]
                        if (t_ == kind) != p_ and t_ in ("RunExperiment", "RunCommand"):
                            return False
                return True
            vals = {}
            for key, e_ in (("record_output", ro), ("serialize_args_options", sa)):
                rv = A.rvalues(F.fi, e_, cn, F.g, start=F.w.pop_node(), keep=is_type, depth=4)
                vals[key] = sorted({v for c, v in rv if on_type(c)})
            if not vals["record_output"] and not vals["serialize_args_options"]:
                continue   # this construction is not reached for that type
            seen_types.add(kind)
            rep.check(vals["record_output"] == [want_v] and vals["serialize_args_options"] == [want_v], "JS1",
                      "record flags for %s" % ("run_experiment" if kind == "RunExperiment" else "run_command"), call,
                      "", "RunTaskExecutable(record_output=%s, serialize_args_options=%s) for %s" % (vals["record_output"], vals["serialize_args_options"],
                                                                                                   "an experiment" if kind == "RunExperiment" else "a command"))
    rep.check(seen_types == {"RunExperiment", "RunCommand"}, "JS1", "both run task types are lowered to RunTaskExecutable", F.fi.node, "", "lowered types: %s" % sorted(seen_types), deep=False)
    init = A.fn(RTE + "__init__")
    st = {norm(s.targets[0]): norm(s.value) for s in walk_local(init.node) if isinstance(s, ast.Assign)}
    rep.check(st.get("self._record_output") == "record_output" and st.get("self._serialize_args_options") == "serialize_args_options", "JS1", "flags stored", init.node, "", "flags stored as %s" % {k: st.get(k) for k in ("self._record_output", "self._serialize_args_options")}, deep=False)
    rep.expect_min("JS1", 10)
