"""C18 — combine() exposes each dependency's output under its name."""
from . import combine as CB, planner as P

META = {
    "explanation": "CombineOutputs.start_execution creates, for every listed (dependency id, directory) whose directory is non-empty, a link "
                   "named after the dependency that resolves to that directory, replaces only its own links and reports any other entry "
                   "(CB1); the planner pairs each dependency with its own selected output, in order, on the second visit (CB2, PL9); "
                   "duplicate dependency names are rejected (CB3); a combine task is never treated as cached (PL7: only RunExperiment overrides should_run), so its links are rebuilt whenever it is needed.",
    "rules": ["CB1", "CB2", "CB3", "PL9", "W1(planner)", "PL10", "PL7"],
    "assumptions": ["dangling pre-existing links (manually deleted targets) are out of scope"],
    "trusted": ["ast parser"],
}


def run(A, rep, tier):
    CB.rule_cb1(A, rep)
    CB.rule_cb2(A, rep)
    CB.rule_cb3(A, rep)
    F = P.rules_planner_links(A, rep)
    P.rule_w1_planner(A, rep, F)
    P.rule_pl9_snapshot(A, rep, F)
    # a combine task is never treated as cached: its links are rebuilt whenever it is needed
    P.rule_pl7_overriders(A, rep)
