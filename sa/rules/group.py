"""C19 rules: GRP1–GRP5 (run_experiment_group is exactly its documented expansion)."""
from __future__ import annotations

import ast

from ..analysis import Analysis, fmt_conj
from ..cfg import is_back, is_exc
from ..model import AnalysisError, norm, walk_local

MOD = "task_types.stdlib.run_experiment_group"


def skip(l):
    return is_exc(l) or is_back(l)


def rule_grp(A: Analysis, rep):
    fi = A.fn(MOD + ".run_experiment_group")
    g = A.cfg(fi, "plain")
    name, run, exps, chain, deps = fi.params[:5]
    # GRP3 signature and ExperimentInstance
    want_params = ["name", "run", "experiments", "chain_experiments", "deps"]
    dflt = {p: (norm(fi.param_default(p)) if fi.param_default(p) is not None else None) for p in fi.params}
    rep.check(fi.params == want_params and dflt.get("chain_experiments") == "False" and dflt.get("deps") == "None", "GRP3", "documented signature", fi.node,
              "run_experiment_group(name, run, experiments, chain_experiments=False, deps=None)", "signature is %s with defaults %s" % (fi.params, dflt))
    ei = A.prog.cls("conductor." + MOD + ".ExperimentInstance")
    fields = {k: norm(v) for k, v in ei.class_attr_ann.items()}
    defaults = {k: norm(v) for k, v in ei.class_attrs.items()}
    rep.check(list(ei.class_attr_ann) == ["name", "args", "options", "parallelizable"] and defaults == {"args": "[]", "options": "{}", "parallelizable": "False"} and
              [norm(b) for b in ei.node.bases] == ["NamedTuple"], "GRP3", "ExperimentInstance(name, args=[], options={}, parallelizable=False)", ei.node, "",
              "ExperimentInstance fields %s defaults %s" % (list(ei.class_attr_ann), defaults))
    std = A.prog.module("task_types.stdlib")
    v = std.assigns.get("STDLIB_FILES")
    rep.check(v is not None and "run_experiment_group.py" in norm(v[0]), "GRP3", "stdlib file registered", std.tree, "", "run_experiment_group.py is not in STDLIB_FILES", deep=False)
    cs = A.fn("parsing.task_loader.TaskLoader._compile_scope")
    gc = A.cfg(cs, "plain")
    from .conddefs import scope_bindings
    binds = [b for b in scope_bindings(A, cs) if "raw_task_types" in b[4] and "self._wrap_task_function(" in b[3]]
    execs = [n for n in gc.nodes if n.kind == "stmt" and norm(n.ast).startswith("exec(")]
    rep.check(bool(binds) and bool(execs) and all(gc.all_paths_pass(gc.entry, e, [b[0] for b in binds], skip_labels=None) for e in execs) and
              all(norm(e.ast) == "exec(code, %s)" % binds[0][5] for e in execs), "GRP3", "stdlib evaluated after the task constructors are bound, in the same scope", cs.node, "",
              "the stdlib file is not exec'd into the scope after run_experiment/combine were bound")
    # GRP6: the expansion only *defines* tasks: besides its two documented rejections it calls nothing of Conductor's
    # that can reject (the explicit tasks are validated when they are loaded for a target, not when the file is read)
    CE_ = "conductor.errors.base.ConductorError"
    n_calls = 0
    for c in walk_local(fi.node):
        if not isinstance(c, ast.Call):
            continue
        for cal in A.res.callees(c):
            if not cal.startswith("conductor."):
                continue
            n_calls += 1
            is_exc_cls = cal in A.prog.classes and A.prog.is_subclass(cal, CE_)
            init_of_exc = cal.endswith(".__init__") and cal.rsplit(".", 1)[0] in A.prog.classes and A.prog.is_subclass(cal.rsplit(".", 1)[0], CE_)
            is_instance = cal.startswith("conductor.%s.ExperimentInstance" % MOD)
            is_ctor = cal.endswith(("RawTaskType.load_from_cond_file", "TaskLoader._wrap_task_function.shim"))
            rep.check(is_exc_cls or init_of_exc or is_instance or is_ctor, "GRP6", "the expansion calls only the task constructors (%s)" % cal.replace("conductor.", ""), c,
                      "", "`%s` is evaluated while the COND file is read: a value the explicit run_experiment() form would only reject when that task is loaded now rejects the whole file, for every target" % norm(c)[:70])
    rep.notes.append("GRP6: %d resolved project calls in run_experiment_group" % n_calls)
    # GRP5: the iterable is consumed exactly once
    uses = [n for n in walk_local(fi.node) if isinstance(n, ast.Name) and n.id == exps and isinstance(n.ctx, ast.Load)]
    loops = [l for l in walk_local(fi.node) if isinstance(l, ast.For) and norm(l.iter) == exps]
    rep.check(len(uses) == 1 and len(loops) == 1, "GRP5", "`experiments` is iterated exactly once", fi.node,
              "an Iterable may be single-pass (generator): validation and expansion must share one loop",
              "`%s` is used %d time(s) / iterated by %d loop(s): a generator argument would be exhausted by the first pass and the group would expand to nothing" % (exps, len(uses), len(loops)))
    if len(loops) != 1:
        return
    lp = loops[0]
    e = norm(lp.target)
    hdr = [n for n in g.nodes if n.kind == "for" and n.ast is lp][0]
    be = [x for (x, lb) in hdr.succ if lb == "T"][0]
    calls = [c for c in walk_local(fi.node) if isinstance(c, ast.Call) and isinstance(c.func, ast.Name) and c.func.id == "run_experiment"]
    if len(calls) != 1:
        rep.bad("GRP1", "one run_experiment per instance", fi.node, "expected exactly one run_experiment(...) call, found %d" % len(calls))
        return
    call = calls[0]
    cn = g.node_of(_stmt_of(call))
    in_loop = id(call) in {id(x) for x in ast.walk(lp)}
    # every iteration that does not raise defines exactly one experiment
    r = g.reach([be], removed=[cn], skip_labels=is_exc)
    ends = [n for n in r if any(m is hdr and is_back(lb) for m, lb in n.succ)]
    rep.check(in_loop and not ends and not any(isinstance(x, (ast.Break, ast.Continue)) for x in walk_local(lp)), "GRP1", "one run_experiment per instance", call,
              "every instance yields one run_experiment call", "an iteration can end without defining its experiment")
    kws = A.kwmap(call)
    want = {"name": "%s.name" % e, "run": run, "parallelizable": "%s.parallelizable" % e, "args": "%s.args" % e, "options": "%s.options" % e}
    got = {k: norm(v) for k, v in kws.items() if k != "deps"}
    rep.check(got == want and len(got) + ("deps" in kws) == len(call.args) + len(call.keywords), "GRP1", "keyword origins", call, "name/run/parallelizable/args/options come from the instance and the group",
              "run_experiment(%s) — expected %s" % (", ".join("%s=%s" % kv for kv in sorted(got.items())), ", ".join("%s=%s" % kv for kv in sorted(want.items()))))
    from .conddefs import raw_types
    schema = raw_types(A)["run_experiment"][0]
    rep.check(set(kws) == set(schema), "GRP1", "keyword set = run_experiment's schema", call, "", "keywords %s vs schema %s" % (sorted(kws), sorted(schema)))
    # deps: task_deps, or [*task_deps, prev] iff chain ∧ prev is not None
    dv = kws.get("deps")
    ok = False
    det = "deps=%s" % (norm(dv) if dv is not None else "?")
    if dv is not None:
        keep = lambda a: not ("isinstance(" in a or a.startswith("in("))
        rv = A.rvalues(fi, dv, _stmt_of(call), g, start=be, keep=keep, depth=2)
        # identify the 'previous experiment' variable: the one whose None-test guards the chained form
        # two spellings of "the previous instance": a variable that is None before the first instance, or the last element
        # of a list that is empty before the first instance
        prev = None
        prev_list = None
        for c, v in rv:
            for a, p in c:
                if a.startswith("none(") and not p:
                    prev = a[5:-1]
                elif a.startswith("empty(") and not p and ("%s[-1]" % a[6:-1]) in v:
                    prev_list = a[6:-1]
        td = sorted({v for c, v in rv if not (v.startswith("[*") or " + [" in v)})
        if prev_list and not prev and len(td) == 1:
            tdn = td[0]
            pe = "%s[-1]" % prev_list
            chained = {"[*%s, %s]" % (tdn, pe), "%s + [%s]" % (tdn, pe)}
            want_chain = frozenset({("empty(%s)" % prev_list, False), ("t(%s)" % chain, True)})
            from ..analysis import _simplify
            plain_g = _simplify([c for c, v in rv if v == tdn])
            ok = any((want_chain, ch) in set(rv) for ch in chained) and len({v for _c, v in rv}) == 2 and \
                sorted(map(sorted, plain_g)) == sorted(map(sorted, [frozenset({("t(%s)" % chain, False)}), frozenset({("empty(%s)" % prev_list, True)})]))
            tv = A.rvalues(fi, ast.Name(id=tdn, ctx=ast.Load()), _stmt_of(call), g, keep=lambda a: a == "none(%s)" % deps, depth=1) if tdn.isidentifier() else []
            ok = ok and set(tv) == {(frozenset({("none(%s)" % deps, False)}), deps), (frozenset({("none(%s)" % deps, True)}), "[]")}
            in_lp = {id(x) for x in ast.walk(lp)}
            muts = [n for n in g.nodes if n.kind == "stmt" and n.ast is not None and id(n.ast) in in_lp and
                    any(isinstance(x, ast.Call) and isinstance(x.func, ast.Attribute) and norm(x.func.value) == prev_list for x in ast.walk(n.ast))]
            okp = len(muts) == 1 and isinstance(muts[0].ast, ast.Expr) and muts[0].ast.value.func.attr == "append" and \
                A.xtext(muts[0].ast.value.args[0], fi) == "':' + %s.name" % e and g.all_paths_pass(cn, hdr, muts, skip_labels=is_exc)
            init_l = A.single_def_value(fi, prev_list)
            okp = okp and init_l is not None and norm(init_l) == "[]"
            ok = ok and okp
        elif prev and len(td) == 1:
            tdn = td[0]
            chained = {"[*%s, %s]" % (tdn, prev), "%s + [%s]" % (tdn, prev)}
            want_chain = frozenset({("none(%s)" % prev, False), ("t(%s)" % chain, True)})
            from ..analysis import _simplify
            plain_g = _simplify([c for c, v in rv if v == tdn])
            ok = any((want_chain, ch) in set(rv) for ch in chained) and len({v for _c, v in rv}) == 2 and \
                sorted(map(sorted, plain_g)) == sorted(map(sorted, [frozenset({("t(%s)" % chain, False)}), frozenset({("none(%s)" % prev, True)})]))
            # the group's own deps: `deps if deps is not None else []`
            tv = A.rvalues(fi, ast.Name(id=tdn, ctx=ast.Load()), _stmt_of(call), g, keep=lambda a: a == "none(%s)" % deps, depth=1) if tdn.isidentifier() else []
            ok = ok and set(tv) == {(frozenset({("none(%s)" % deps, False)}), deps), (frozenset({("none(%s)" % deps, True)}), "[]")}
            upd = [n for n in g.nodes if n.kind == "stmt" and isinstance(n.ast, ast.Assign) and norm(n.ast.targets[0]) == prev and id(n.ast) in {id(x) for x in ast.walk(lp)}]
            okp = len(upd) == 1 and A.xtext(upd[0].ast.value, fi) == "':' + %s.name" % e and g.all_paths_pass(cn, hdr, upd, skip_labels=is_exc)
            init_prev = [d for d in A.defs(fi, prev) if isinstance(d, (ast.Assign, ast.AnnAssign)) and id(d) not in {id(x) for x in ast.walk(lp)}]
            okp = okp and len(init_prev) == 1 and norm(init_prev[0].value) == "None"
            ok = ok and okp
        det = "deps takes %s" % [(fmt_conj(c), v) for c, v in rv]
    rep.check(ok, "GRP1", "deps = group deps, plus the previous experiment iff chain_experiments", call,
              "[*task_deps, ':'+previous] exactly when chain_experiments and a previous instance exists; the previous identifier advances every iteration", det)
    # GRP2 combine
    combs = [c for c in walk_local(fi.node) if isinstance(c, ast.Call) and isinstance(c.func, ast.Name) and c.func.id == "combine"]
    ok = len(combs) == 1
    if ok:
        c = combs[0]
        ck = {k: norm(v) for k, v in A.kwmap(c).items()}
        st = _stmt_of(c)
        lst = ck.get("deps")
        apps = [n for n in g.nodes if n.kind == "stmt" and norm(n.ast).startswith("%s.append(" % lst) and id(n.ast) in {id(x) for x in ast.walk(lp)}]
        ok = st in fi.node.body and ck.get("name") == name and len(apps) == 1 and A.xtext(apps[0].ast.value.args[0], fi) == "':' + %s.name" % e and \
            g.all_paths_pass(cn, hdr, apps, skip_labels=is_exc) and set(ck) == {"name", "deps"}
        init = A.single_def_value(fi, lst) if lst else None
        ok = ok and init is not None and norm(init) == "[]"
        gn = g.node_of(st)
        ok = ok and g.all_paths_pass(g.entry, g.exit, [gn], skip_labels=is_exc)
    rep.check(ok, "GRP2", "one combine(name, deps=[':'+each instance name]) after the loop, unconditionally", fi.node, "", "the combine task is not defined exactly once, over every instance, under the group's name")
    # GRP4 rejections precede the constructor call
    raises = {}
    for n in g.nodes:
        if n.kind == "stmt" and isinstance(n.ast, ast.Raise) and n.ast.exc is not None and id(n.ast) in {id(x) for x in ast.walk(lp)}:
            cls = A.exc.exc_class(n.ast.exc)
            raises[cls.rsplit(".", 1)[-1] if cls else "?"] = n
    ok = set(raises) == {"ExperimentGroupInvalidExperimentInstance", "ExperimentGroupDuplicateName"}
    if ok:
        g1 = A.path_guards(g, be, raises["ExperimentGroupInvalidExperimentInstance"], fi)
        g2 = A.path_guards(g, be, raises["ExperimentGroupDuplicateName"], fi)
        ins = [a for c in g2 for a, p in c if a.startswith("in(%s.name," % e) and p]
        ok = g1 == [frozenset({("t(isinstance(%s, ExperimentInstance))" % e, False)})] and len(ins) == 1
        if ok:
            st_ = ins[0][len("in(%s.name," % e):-1]
            marks = [n for n in g.nodes if n.kind == "stmt" and norm(n.ast) == "%s.add(%s.name)" % (st_, e)]
            # every iteration that completes has recorded its name (before or after defining the experiment)
            it_ends = [n for n in g.nodes if any(m is hdr and is_back(lb) for m, lb in n.succ)]
            ok = bool(marks) and bool(it_ends) and all(g.all_paths_pass(be, e_, marks, skip_labels=skip) for e_ in it_ends) and \
                all(g.reachable(r_, cn, skip_labels=skip) is False for r_ in raises.values())
            # the names remembered are those of this call only: a fresh empty set made before the loop (a set that
            # outlives the call would reject a name used by another group, another COND file, or a re-evaluation)
            sv = A.single_def_value(fi, st_)
            sdefs = [n for n in g.nodes if n.kind == "stmt" and isinstance(n.ast, (ast.Assign, ast.AnnAssign))
                     and norm(n.ast.targets[0] if isinstance(n.ast, ast.Assign) else n.ast.target) == st_]
            fresh = sv is not None and norm(sv) in ("set()", "set([])", "set(())") and len(sdefs) == 1 and st_ not in fi.params and \
                g.all_paths_pass(g.entry, be, sdefs, skip_labels=is_exc) and id(sdefs[0].ast) not in {id(x) for x in ast.walk(lp)}
            rep.check(fresh, "GRP4", "duplicate names are judged within one group only", lp, "the seen-names set is created empty by each call",
                      "`%s` is not a set created empty inside this call before the loop: names seen by earlier calls would be rejected" % st_)
            # both tests precede the call
            tests = [n for n in g.nodes if n.kind == "test" and id(n.ast) in {id(x) for x in ast.walk(lp)} and ("isinstance(%s" % e in norm(n.ast) or "in %s" % st_ in norm(n.ast))]
            ok = ok and len(tests) >= 2 and all(g.all_paths_pass(be, cn, [t_], skip_labels=is_exc) for t_ in tests)
    rep.check(ok, "GRP4", "non-instances and duplicate names are rejected before the experiment is defined", lp, "", "the instance checks changed (%s)" % sorted(raises))
    hs = [h for h in walk_local(fi.node) if isinstance(h, ast.ExceptHandler)]
    ok = all(h.type is not None and norm(h.type) == "TypeError" and any(isinstance(x, ast.Raise) and "ExperimentGroupInvalidExperimentInstance" in norm(x) for x in h.body) for h in hs)
    rep.check(ok, "GRP4", "a non-iterable is reported as an invalid instance list", fi.node, "", "handlers changed: %s" % [norm(h.type) for h in hs if h.type is not None], deep=False)
    rep.expect_min("GRP1", 4)
    rep.expect_min("GRP3", 4)


def _stmt_of(node):
    n = node
    while not isinstance(n, ast.stmt):
        n = n._parent
    return n
