"""C14 rules: RUN1, DFS1, DFS2, DUP1, ROOT1 (dependency-graph validation)."""
from __future__ import annotations

import ast
from typing import List, Optional, Tuple

from ..analysis import Analysis, fmt_conj
from ..cfg import branch_of, is_back, is_exc
from ..model import AnalysisError, norm, walk_local
from .worklist import Worklist, check_w1, find_worklists

TI = "parsing.task_index.TaskIndex."


def skip(l):
    return is_exc(l) or is_back(l)


def rule_run1(A: Analysis, rep):
    fi = A.fn("cli.run.main")
    g = A.cfg(fi, "plain")
    N = lambda *t: [n for n in g.nodes if n.kind == "stmt" and A.calls_in(n.ast, *t)]
    load, plan, run = N("TaskIndex.load_transitive_closure"), N("ExecutionPlanner.create_plan_for"), N("Executor.run_plan")
    ok = len(load) == 1 and bool(plan) and bool(run) and all(g.all_paths_pass(g.entry, x, load, skip_labels=skip) for x in plan + run)
    rep.check(ok, "RUN1", "validate before plan/run", fi.node, "load_transitive_closure dominates create_plan_for and run_plan",
              "the plan can be created / executed without the closure having been loaded and validated")
    if load:
        c = A.calls_in(load[0].ast, "TaskIndex.load_transitive_closure")[0]
        pc = A.calls_in(plan[0].ast, "ExecutionPlanner.create_plan_for")[0] if plan else None
        same = pc is not None and norm(c.args[0]) == norm(pc.args[0])
        rep.check(same, "RUN1", "same task validated and planned", c, "", "the validated identifier is not the planned one")
    rets = [n for n in g.nodes if n.kind == "stmt" and isinstance(n.ast, ast.Return)]
    chk = []
    for r in rets:
        gs = A.path_guards(g, g.entry, r, fi)
        if gs and all(("t(args.check)", True) in c for c in gs):
            chk.append(r)
    ok = len(chk) == 1 and all(g.all_paths_pass(g.entry, chk[0], load, skip_labels=skip) for _ in [0]) and \
        not any(g.reachable(x, chk[0], skip_labels=skip) for x in plan + run)
    # and with --check nothing plans or executes: plan/run are reachable only with args.check false
    for x in plan + run:
        gs = A.path_guards(g, g.entry, x, fi)
        ok = ok and bool(gs) and all(("t(args.check)", False) in c for c in gs)
    rep.check(ok, "RUN1", "--check validates and never executes", fi.node, "the --check return comes after validation; planning/execution only without --check",
              "--check no longer returns after validation without planning/executing")
    trys = [t for t in walk_local(fi.node) if isinstance(t, ast.Try)]
    rep.check(not trys, "RUN1", "no handler hides validation errors in run.main", fi.node, "", "run.main has a try statement that may swallow validation errors", deep=False)


def _roles(w: Worklist):
    """(P: the on-path set — added, removed and tested on the popped node; F: every
    other memo of the loop, i.e. sets used to skip work)."""
    P, F = [], []
    k = w.pop_targets[0] if w.pop_targets else None
    for m in w.memos():
        on_popped = [t for t in w.seen_tests(m) if t[1] == k]
        if w.removes(m) and on_popped:
            P.append(m)
        else:
            F.append(m)
    return P, F


def _marker_norm(conjs, vc, m0=0, m1=1):
    """Atoms that test the visit marker are rewritten to the canonical `lt(0,marker)` (true on the post-visit entry):
    `marker > 0`, `marker == 1`, `marker != 0`, `marker` … all say the same for the two marker values in use."""
    import re as _re

    def val(atom, v):
        m = _re.match(r"^(lt|eq)\(([^,]+),([^,]+)\)$", atom)
        if m:
            op, x, y = m.groups()
            def num(t):
                t = t.strip()
                if t == vc:
                    return v
                try:
                    return int(t)
                except ValueError:
                    return None
            a, b = num(x), num(y)
            if a is None or b is None:
                return None
            return a < b if op == "lt" else a == b
        if atom == "t(%s)" % vc:
            return bool(v)
        return None
    out = []
    for c in conjs:
        nc = set()
        for (a, p_) in c:
            v0, v1 = val(a, m0), val(a, m1)
            if v0 is False and v1 is True:
                nc.add(("lt(0,%s)" % vc, p_))
            elif v0 is True and v1 is False:
                nc.add(("lt(0,%s)" % vc, not p_))
            else:
                nc.add((a, p_))
        out.append(frozenset(nc))
    return out


def rule_dfs(A: Analysis, rep):
    insts = [("load_transitive_closure", A.fn(TI + "load_transitive_closure")),
             # the traversal helper (nested function / private method, whatever its name) is inlined into its caller by sa/inline.py
             ("validate_all_loaded_tasks.do_traversal", A.fn(TI + "validate_all_loaded_tasks"))]
    # DFS4: the validating traversals are iterative.  A traversal that recurses once per dependency level is bounded by
    # the interpreter's recursion limit: a chain of ~1000 tasks ends in a RecursionError traceback instead of being
    # accepted (or having its distant cycle / missing task reported).
    rec = []
    for f in A.prog.functions.values():     # nested helpers included (also those already inlined into their caller)
        if not f.fq.startswith("conductor.parsing.task_index."):
            continue
        for callee in sorted(A.cg.edges.get(f.fq, ())):  # direct recursion, or mutual recursion inside the module
            if callee == f.fq or (callee.startswith("conductor.parsing.task_index.") and f.fq in A.cg.reachable([callee])):
                rec.append((f, callee))
    for (f, callee) in rec:
        rep.bad("DFS4", "iterative traversal (%s)" % f.fq.replace("conductor.", ""), f.node,
                "`%s` calls itself%s: the depth of the dependency graph is bounded by the recursion limit (RecursionError on a long chain, "
                "no cycle / missing-task diagnostic)" % (f.name, "" if callee == f.fq else " through %s" % callee.rsplit(".", 1)[1]))
    if not rec:
        rep.ok("DFS4", "iterative traversals", insts[0][1].node, "no function of parsing.task_index is recursive", deep=False)
    for name, fi in insts:
        wls = find_worklists(A, fi)
        if len(wls) != 1 and any(f.fq.startswith(fi.fq) for f, _c in rec):
            continue        # reported by DFS4: there is no worklist to examine
        if len(wls) != 1:
            raise AnalysisError("DFS1: worklist loop of %s not found" % name)
        w = wls[0]
        g = w.g
        P, F = _roles(w)
        if len(P) != 1:
            rep.bad("DFS1", "%s: on-path set" % name, w.loop, "expected exactly one set that is added on first visit and removed on post-visit, found %s" % P)
            continue
        p = P[0]
        pop = w.pop_node()
        k, vc = (w.pop_targets + [None, None])[:2]
        raises = [n for n in w.nodes() if n.kind == "stmt" and isinstance(n.ast, ast.Raise) and n.ast.exc is not None
                  and ("CyclicDependency" in norm(n.ast.exc) or (A.exc.exc_class(n.ast.exc) or "").endswith(".CyclicDependency"))]
        if len(raises) != 1:
            rep.bad("DFS1", "%s: cycle report" % name, w.loop, "expected one `raise CyclicDependency`, found %d" % len(raises))
            continue
        # the two marker values in use: pushed with a dependency (first visit) / with the node itself (post visit)
        _pc = [c.args[0].elts[1].value for (_pn, c) in w.pushes() if isinstance(c.args[0], ast.Tuple) and len(c.args[0].elts) == 2 and isinstance(c.args[0].elts[1], ast.Constant)
               and norm(c.args[0].elts[0]) == k and c.args[0].elts[1].value not in (0, None, False)]
        m1 = int(_pc[0]) if _pc and isinstance(_pc[0], (int, bool)) else 1
        gs = _marker_norm(A.path_guards(g, pop, raises[0], fi), vc, 0, m1)
        first_visit = ("lt(0,%s)" % vc, False)
        ok = len(gs) == 1 and ("in(%s,%s)" % (k, p), True) in gs[0] and first_visit in gs[0] and len(gs[0]) == 2
        rep.check(ok, "DFS1", "%s: cycle ⇔ node already on the current path" % name, raises[0].ast,
                  "CyclicDependency is raised exactly when a first-visited node is in the on-path set (before any visited/finished test)",
                  "cycle report guarded by [%s] — expected {%s in %s, first visit} only (a visited-test before the on-path test hides back edges)" % (
                      " | ".join(fmt_conj(c) for c in gs), k, p))
        # first visit: add to P and push the post-visit marker; post visit removes
        adds = [n for (n, kk) in w.marks(p)]
        rems = w.removes(p)
        post_push = [pn for (pn, c) in w.pushes() if isinstance(c.args[0], ast.Tuple) and norm(c.args[0].elts[0]) == k and
                     isinstance(c.args[0].elts[1], ast.Constant) and c.args[0].elts[1].value not in (0, None, False)]
        ok = bool(adds) and bool(post_push)
        if ok:
            for a in adds:
                ga = _marker_norm(A.path_guards(g, pop, a, fi), vc, 0, m1)
                ok = ok and all(first_visit in c for c in ga)
                # marker pushed on every path through the add
                r = w.iteration_reach([a], removed=post_push)
                pushed_before = g.all_paths_pass(pop, a, post_push, skip_labels=skip)
                ok = ok and (pushed_before or w.reaches_backedge([a], removed=post_push) is None)
        rep.check(ok, "DFS1", "%s: first visit enters the path and schedules its exit" % name, w.loop, "", "a node added to `%s` is not always paired with a pushed post-visit marker" % p)
        ok = bool(rems)
        for r_ in rems:
            gr = _marker_norm(A.path_guards(g, pop, r_, fi), vc, 0, m1)
            ok = ok and bool(gr) and all(("lt(0,%s)" % vc, True) in c for c in gr) and k in norm(r_.ast)
        rep.check(ok, "DFS1", "%s: post-visit leaves the path" % name, w.loop, "", "`%s` entries are not removed exactly on the post-visit" % p)
        # skip sets
        for f in F:
            push_tests = [(n, kk, ns) for (n, kk, ns) in w.seen_tests(f) if kk != k]
            # a membership filter inside `S.extend(x for x in deps if x not in f)` is a push-time test as well
            for (_pn, c_) in w.pushes():
                ext_ = getattr(c_, "_extend_of", None)
                if ext_ is not None and any(isinstance(cmp_, ast.Compare) and (w._membership(cmp_) or (None, None))[1] is not None and norm(w._membership(cmp_)[1]) == f
                                            for i_ in ext_.args[0].generators[0].ifs for cmp_ in ast.walk(i_)):
                    push_tests.append((_pn, "<extend filter>", None))
            pop_tests = [(n, kk, ns) for (n, kk, ns) in w.seen_tests(f) if kk == k]
            marks = w.marks(f)
            if push_tests:
                okm = bool(marks) and not w.removes(f)
                for (mn, mk) in marks:
                    gm = _marker_norm(A.path_guards(g, pop, mn, fi), vc, 0, m1)
                    okm = okm and all(("lt(0,%s)" % vc, True) in c for c in gm) and bool(gm)
                rep.check(okm, "DFS1", "%s: push-time skip set `%s` is marked on post-visit only" % (name, f), w.loop,
                          "a dependency is skipped at push only if it has *finished*", "`%s` is tested when pushing a dependency but is not a finished-set (marked at push/first visit, or removed again): an edge to a node that is still on the stack or on the current path is dropped and a cycle through it is missed" % f)
            if pop_tests:
                # P-test precedes: the F test must not be on any path from the pop to the cycle report
                tn = [n for (n, _k, _ns) in pop_tests]
                rep.check(not any(t in g.reach([pop], skip_labels=skip) and raises[0] in g.reach([t], skip_labels=skip) for t in tn), "DFS1",
                          "%s: on-path test before the visited test" % name, w.loop, "", "the visited-test precedes the on-path test")
        # DFS2 successors: the dependencies of the node just entered are pushed with the first-visit marker, all of them
        # except those already finished — as a loop of appends or as one extend over a generator
        def _is_m0(e_):
            return isinstance(e_, ast.Constant) and e_.value in (0, False) and e_.value is not None
        succ = []
        for (pn, c) in w.pushes():
            a0 = c.args[0] if c.args else None
            if isinstance(a0, ast.Tuple) and len(a0.elts) == 2 and _is_m0(a0.elts[1]):
                ext = getattr(c, "_extend_of", None)
                if ext is not None:
                    gen = ext.args[0].generators[0]
                    succ.append((pn, norm(a0.elts[0]), gen.iter, norm(gen.target), [A.dnf(i_, True, fi, inline=False) for i_ in gen.ifs], None))
                else:
                    anc = getattr(pn.ast, "_parent", None)
                    while anc is not None and anc is not w.loop and not isinstance(anc, ast.For):
                        anc = getattr(anc, "_parent", None)
                    if isinstance(anc, ast.For):
                        hdr_ = [n for n in g.nodes if n.kind == "for" and n.ast is anc][0]
                        be_ = [x for (x, lb) in hdr_.succ if lb == "T"][0]
                        succ.append((pn, norm(a0.elts[0]), anc.iter, norm(anc.target), A.path_guards(g, be_, pn, fi), hdr_))
        ok = len(succ) == 1
        det = "expected the task's deps to be pushed in one place with the first-visit marker, found %d" % len(succ)
        if ok:
            pn, el, it_, tv, gd, hdr = succ[0]
            src = A.xtext(it_, fi, stop=[w.stack])
            ok_src = src in ("self._loaded_tasks[%s].deps" % k,) and el == tv
            if hdr is None:
                # extend(<genexp>): filters are the comprehension's conditions (a conjunction)
                flat = set()
                for d_ in gd:
                    for c_ in d_:
                        flat |= set(c_)
                gs2 = [frozenset(flat)]
            else:
                gs2 = gd
            allowed = [{("in(%s,%s)" % (tv, f), False)} for f in F] + [set()]
            ok_guard = all(any(set(c) == a for a in allowed) for c in gs2) and bool(gs2)
            via = hdr if hdr is not None else pn
            first_marks = [mn for (mn, _k2) in w.marks(P[0])] if P else []
            ok_reach = bool(first_marks) and all(w.reaches_backedge([m for (m, lb) in mn.succ if not is_exc(lb)], removed=[via]) is None for mn in first_marks)
            ok = ok_src and ok_guard and ok_reach
            det = "deps source `%s`, push guard [%s], deps pushed on every first visit=%s" % (src, " | ".join(fmt_conj(c) for c in gs2), ok_reach)
        rep.check(ok, "DFS2", "%s: every dependency is followed" % name, w.loop, "all of task.deps are pushed (only finished ones may be skipped)", det)
    rep.expect_min("DFS1", 8)
    # TaskNotFound is raised, not swallowed
    lt = A.fn(TI + "load_transitive_closure")
    hs = [h for h in walk_local(lt.node) if isinstance(h, ast.ExceptHandler)]
    ok = all(h.type is not None and norm(h.type) == "TaskNotFound" and any(isinstance(x, ast.Raise) and x.exc is not None and norm(x.exc).startswith("%s." % h.name) or
                                                                          (isinstance(x, ast.Raise) and x.exc is None) for x in h.body) for h in hs)
    gl = A.cfg(lt, "plain")
    for h in hs:
        hn = [n for n in gl.nodes if n.kind == "except" and n.ast is h][0]
        body_ids = {id(x) for s_ in h.body for x in ast.walk(s_)}
        out = [n for n in gl.reach([hn], skip_labels=is_exc) if n is not hn and (n.ast is None or id(n.ast) not in body_ids)]
        ok = ok and not out
    rep.check(ok, "DFS2", "TaskNotFound propagates", lt.node, "the handler only adds context and re-raises", "load_transitive_closure swallows or converts TaskNotFound (the handler can complete normally)")
    ls = A.fn(TI + "load_single_task")
    g = A.cfg(ls, "plain")
    rs = [n for n in g.nodes if n.kind == "stmt" and isinstance(n.ast, ast.Raise) and "TaskNotFound" in norm(n.ast)]
    ok = len(rs) == 1 and A.path_guards(g, g.entry, rs[0], ls) and all(any(a.startswith("in(%s.name," % ls.params[1]) and not p for a, p in c) for c in A.path_guards(g, g.entry, rs[0], ls))
    mat = [n for n in g.nodes if n.kind == "stmt" and A.calls_in(n.ast, "TaskIndex._materialize_raw_task")]
    ok = ok and bool(mat) and all(not g.all_paths_pass(g.entry, m, [], skip_labels=skip) or True for m in mat)
    rep.check(bool(ok), "DFS2", "undefined task ⇒ TaskNotFound", ls.node, "", "load_single_task does not raise TaskNotFound for a name missing from its COND file")
    dt = A.fn(TI + "validate_all_loaded_tasks")
    g = A.cfg(dt, "plain")
    rs = [n for n in g.nodes if n.kind == "stmt" and isinstance(n.ast, ast.Raise) and "TaskNotFound" in norm(n.ast)]
    ok = len(rs) == 1 and all(any(a.endswith(",self._loaded_tasks)") and a.startswith("in(") and not p for a, p in c) for c in A.path_guards(g, find_worklists(A, dt)[0].pop_node(), rs[0], dt))
    rep.check(ok, "DFS2", "whole-project validation reports dangling dependencies", dt.node, "", "do_traversal does not raise TaskNotFound for a dependency that is not loaded")
    # W1 for do_traversal (each node expanded once)
    w = find_worklists(A, dt)[0]
    P, F = _roles(w)
    if len(F) == 1:
        def effect(n):
            return n.kind == "stmt" and any(pn is n for (pn, _c) in w.pushes())
        check_w1(A, rep, "W1", "do_traversal", w, F[0], effect)
    rep.expect_min("DFS2", 5)
    # DFS3: a run validates exactly the tasks it needs — nothing reachable from load_transitive_closure materialises
    # tasks wholesale (a defect in a bystander task of the same COND file must not reject a valid request)
    reach = A.cg.reachable(["conductor.parsing.task_index.TaskIndex.load_transitive_closure"])
    bulk = sorted(fq.rsplit(".", 1)[-1] for fq in reach if fq.rsplit(".", 1)[-1] in ("load_all_tasks_in_cond_file", "load_all_known_tasks"))
    rep.check(not bulk, "DFS3", "only needed tasks are materialised", ls.node, "whole-file / whole-project loading is not reachable from load_transitive_closure",
              "load_transitive_closure reaches %s: every task of a visited COND file is validated, needed or not" % bulk)
    mats = A.calls_in_func(ls, "TaskIndex._materialize_raw_task")
    rep.check(len(mats) == 1 and mats[0].args and norm(mats[0].args[0]) == ls.params[1], "DFS3", "load_single_task materialises the requested task", ls.node, "",
              "load_single_task materialises %s" % [norm(m.args[0]) if m.args else "?" for m in mats])
    rep.expect_min("DFS3", 2)


RAW_DEPS_FORMS = ("raw_task['deps']", "raw_task.pop('deps', [])", "raw_task.get('deps', [])", "raw_task.pop('deps')", "raw_task.pop('deps', ())", "raw_task.get('deps', ())")


def raw_deps_loops(A: Analysis, fi):
    """The loop(s) over the dependency strings the user listed for the task being materialised."""
    return [l for l in walk_local(fi.node) if isinstance(l, ast.For) and A.xtext(l.iter, fi) in RAW_DEPS_FORMS]


_FRESH_DICT = ("{}", "dict()")


def rule_load1(A: Analysis, rep):
    """The tasks of each COND file are kept per file (`_loaded_raw_tasks[file]`): `parse_cond_file` must hand out a dict
    of its own on every call.  If it returned one long-lived object, every file's entry would be the dict of the file
    parsed last, and which tasks are found (and whether a missing dependency is noticed) would depend on load order."""
    fi = A.fn("parsing.task_loader.TaskLoader.parse_cond_file")
    g = A.cfg(fi, "plain")
    rets = [n for n in g.nodes if n.kind == "stmt" and isinstance(n.ast, ast.Return) and n.ast.value is not None]
    if not rets:
        raise AnalysisError("LOAD1: parse_cond_file returns nothing")

    def fresh_defs(name_text):
        return [n for n in g.nodes if n.kind == "stmt" and isinstance(n.ast, (ast.Assign, ast.AnnAssign)) and n.ast.value is not None
                and norm(n.ast.targets[0] if isinstance(n.ast, ast.Assign) else n.ast.target) == name_text]
    for r in rets:
        v = r.ast.value
        ok = False
        why = "`%s` is not a dict created by this call" % norm(v)
        if isinstance(v, (ast.Dict, ast.DictComp)) or (isinstance(v, ast.Call) and (norm(v.func) == "dict" or (isinstance(v.func, ast.Attribute) and v.func.attr == "copy"))):
            ok = True
        elif isinstance(v, (ast.Name, ast.Attribute)):
            defs = fresh_defs(norm(v))
            # every definition reaching the return creates the container (directly, or from a local that does)
            def is_fresh(d):
                val = d.ast.value
                if norm(val) in _FRESH_DICT:
                    return True
                if isinstance(val, ast.Name):
                    ds = fresh_defs(val.id)
                    return bool(ds) and all(norm(x.ast.value) in _FRESH_DICT for x in ds) and g.all_paths_pass(g.entry, d, ds, skip_labels=is_exc)
                return False
            ok = bool(defs) and all(is_fresh(d) for d in defs) and g.all_paths_pass(g.entry, r, defs, skip_labels=is_exc)
        rep.check(ok, "LOAD1", "parse_cond_file returns a dict of its own", r.ast, "created inside the call on every path to the return",
                  "%s: every COND file's entry in the task index would be one shared object holding the tasks of the file parsed last" % why)
    # the caller keeps what it was given, per file
    ti = [f for f in A.prog.scan_functions if f.fq.startswith("conductor.parsing.task_index.TaskIndex.")]
    n_st = 0
    for f in ti:
        for s in walk_local(f.node):
            if isinstance(s, ast.Assign) and isinstance(s.targets[0], ast.Subscript) and norm(s.targets[0].value) == "self._loaded_raw_tasks":
                n_st += 1
                rep.check(bool(A.calls_in(s.value, "TaskLoader.parse_cond_file")), "LOAD1", "per-file entry = that file's parse result", s, "",
                          "_loaded_raw_tasks[...] is not assigned the result of parse_cond_file")
    rep.expect_min("LOAD1", 3)


def rule_dup1(A: Analysis, rep):
    fi = A.fn(TI + "_materialize_raw_task")
    g = A.cfg(fi, "plain")
    rs = [n for n in g.nodes if n.kind == "stmt" and isinstance(n.ast, ast.Raise) and n.ast.exc is not None and "DuplicateDependency" in norm(n.ast.exc)]
    loops = raw_deps_loops(A, fi)
    ok = len(rs) == 1 and len(loops) == 1
    det = "no duplicate test"
    if ok:
        l = loops[0]
        hdr = [n for n in g.nodes if n.kind == "for" and n.ast is l][0]
        be = [x for (x, lb) in hdr.succ if lb == "T"][0]
        gs = A.path_guards(g, be, rs[0], fi)
        ins = [a for c in gs for a, p in c if a.startswith("in(") and p]
        ok = len(ins) >= 1
        if ok:
            inner = ins[0][3:-1]
            el, st = inner.rsplit(",", 1)
            marks = [n for n in g.nodes if n.kind == "stmt" and norm(n.ast) == "%s.add(%s)" % (st, el)]
            r = g.reach([be], removed=marks, skip_labels=is_exc)
            ends = [n for n in r if any(m is hdr and is_back(lb) for m, lb in n.succ)]
            resolved = [norm(d.value) for d in A.defs(fi, el) if isinstance(d, ast.Assign)]
            ok = bool(marks) and not ends and all(v.startswith("TaskIdentifier.from_") for v in resolved) and bool(resolved)
            det = "test `%s`, marked every iteration=%s, element defined as %s" % (ins[0], not ends, resolved)
    rep.check(ok, "DUP1", "duplicate dependency ⇔ same resolved identifier listed twice", fi.node, "membership is tested on the *resolved* identifier before appending; every accepted dependency is remembered", det)
    h = [x for x in walk_local(fi.node) if isinstance(x, ast.ExceptHandler)]
    ok = len(h) == 1 and norm(h[0].type) == "ConductorError" and any(isinstance(x, ast.Raise) and x.exc is None for x in h[0].body)
    rep.check(ok, "DUP1", "errors keep their type and gain file context", fi.node, "", "_materialize_raw_task's handler does not re-raise the ConductorError")


def rule_root1(A: Analysis, rep):
    fi = A.fn(TI + "validate_all_loaded_tasks")
    dt = fi
    _all_loaded = ("self._loaded_tasks.keys()", "self._loaded_tasks", "list(self._loaded_tasks.keys())", "list(self._loaded_tasks)")
    loops = [l for l in fi.node.body if isinstance(l, ast.For) and norm(l.iter) in _all_loaded]
    ok = len(loops) == 1
    det = "outer loop not over all loaded tasks"
    cand = None
    if ok:
        l = loops[0]
        t = norm(l.target)
        g = A.cfg(fi, "plain")
        hdr = [n for n in g.nodes if n.kind == "for" and n.ast is l][0]
        be = [x for (x, lb) in hdr.succ if lb == "T"][0]
        sets = [n for n in g.nodes if n.kind == "stmt" and isinstance(n.ast, ast.Assign) and isinstance(n.ast.targets[0], ast.Subscript)
                and norm(n.ast.targets[0].slice) == t and norm(n.ast.value) == "0" and id(n.ast) in {id(x) for x in ast.walk(l)}]
        # the traversal of task t: the worklist loop whose stack is seeded with t
        trav = [w_.init_node() for w_ in find_worklists(A, fi) if w_.init_node() is not None and ("(%s, " % t) in norm(w_.init_node().ast)]
        cand = norm(sets[0].ast.targets[0].value) if sets else None
        ok = len(sets) == 1 and len(trav) == 1
        if ok:
            g1 = A.path_guards(g, be, sets[0], fi)
            g2 = A.path_guards(g, be, trav[0], fi)
            ok = len(g1) == 1 and len(g1[0]) == 1 and g1 == g2 and list(g1[0])[0][0].startswith("in(%s," % t) and list(g1[0])[0][1] is False and \
                g.all_paths_pass(be, trav[0], sets, skip_labels=skip)
            det = "candidate/traversal guards %s / %s" % ([fmt_conj(c) for c in g1], [fmt_conj(c) for c in g2])
    rep.check(ok, "ROOT1", "every unvisited loaded task becomes a candidate and is traversed", fi.node, "", det)
    # each validation starts from nothing: the visited set and the candidate table are created empty by this call.  State
    # kept on the index would make a second validation (the explorer validates on every request) skip what the first one
    # marked before it raised, and accept a graph it has just rejected.
    if ok:
        vis = list(g1[0])[0][0][len("in(%s," % t):-1]
        fresh_ok = True
        for nm_ in (vis, cand):
            d_ = A.single_def_value(fi, nm_) if nm_ and nm_.isidentifier() else None
            dn_ = [n for n in g.nodes if n.kind == "stmt" and isinstance(n.ast, (ast.Assign, ast.AnnAssign)) and n.ast.value is not None
                   and norm(n.ast.targets[0] if isinstance(n.ast, ast.Assign) else n.ast.target) == nm_]
            if d_ is None or norm(d_) not in ("set()", "{}", "dict()") or len(dn_) != 1 or not g.all_paths_pass(g.entry, hdr, dn_, skip_labels=is_exc):
                fresh_ok = False
        rep.check(fresh_ok, "ROOT1", "validation state is created by the call", fi.node, "visited set and candidate table are fresh locals",
                  "`%s` / `%s` are not both locals created empty by this call: marks left by an earlier (failed) validation survive into the next one" % (vis, cand))
    ok = False
    if dt is not None and cand:
        incs = [s for s in walk_local(dt.node) if isinstance(s, ast.AugAssign) and norm(s.target).startswith(cand + "[") and isinstance(s.op, ast.Add) and norm(s.value) == "1"]
        if len(incs) == 1:
            par = incs[0]._parent
            dep = norm(incs[0].target)[len(cand) + 1:-1]
            inloop = [a for a in _anc(incs[0]) if isinstance(a, ast.For) and norm(a.target) == dep and norm(a.iter).endswith(".deps")]
            ok = isinstance(par, ast.If) and norm(par.test) == "%s in %s" % (dep, cand) and bool(inloop) and isinstance(par._parent, ast.For)
    rep.check(ok, "ROOT1", "every dependency edge counts against the dependee", fi.node, "count[dep] += 1 for every edge seen, whether or not dep was visited before",
              "the dependee counter is not incremented for every dependency edge")
    r = [x for x in fi.node.body if isinstance(x, ast.Return)]
    ok = False
    if len(r) == 1 and cand:
        rv = r[0].value
        comp = rv if isinstance(rv, ast.ListComp) else None
        if comp is not None and len(comp.generators) == 1 and isinstance(comp.generators[0].target, ast.Tuple) and len(comp.generators[0].target.elts) == 2:
            gen = comp.generators[0]
            cond = gen.ifs[0] if len(gen.ifs) == 1 else None
            ok = norm(gen.iter) == "%s.items()" % cand and cond is not None and \
                A.dnf(cond, True, None) == [frozenset({("eq(0,%s)" % norm(gen.target.elts[1]), True)})] and norm(comp.elt) == norm(gen.target.elts[0])
        elif isinstance(rv, ast.Name):
            # the loop form: `L = []; for k, n in cand.items(): if n == 0: L.append(k)`
            from .executor import collect_fills
            fills = [f_ for f_ in collect_fills(A, fi) if f_[0] == rv.id]
            init = A.single_def_value(fi, rv.id)
            if len(fills) == 1 and init is not None and norm(init) in ("[]", "list()"):
                _n, it_, elt_, gs_ = fills[0]
                lp_ = [l for l in walk_local(fi.node) if isinstance(l, ast.For) and l.iter is it_]
                tg_ = lp_[0].target if lp_ else None
                ok = norm(it_) == "%s.items()" % cand and isinstance(tg_, ast.Tuple) and len(tg_.elts) == 2 and norm(elt_) == norm(tg_.elts[0]) and \
                    gs_ == [frozenset({("eq(0,%s)" % norm(tg_.elts[1]), True)})]
    rep.check(ok, "ROOT1", "roots = candidates nobody depends on", fi.node, "", "the returned roots are not exactly the candidates with count 0")
    # the explorer uses it and maps errors to HTTP 400
    rt = A.fn("explorer.routes.get_task_graph")
    ok = any(isinstance(c, ast.Call) and A.res.is_call_to(c, "TaskIndex.validate_all_loaded_tasks") for c in walk_local(rt.node)) and \
        any(isinstance(h, ast.ExceptHandler) and norm(h.type) == "ConductorError" and any(isinstance(x, ast.Raise) and "HTTPException" in norm(x) for x in h.body) for h in walk_local(rt.node))
    rep.check(ok, "ROOT1", "explorer rejects invalid projects", rt.node, "", "get_task_graph no longer validates / reports validation errors")
    rep.expect_min("ROOT1", 4)


def _anc(n):
    n = getattr(n, "_parent", None)
    while n is not None:
        yield n
        n = getattr(n, "_parent", None)
