"""C02 — Each needed task runs exactly once per invocation; nothing else runs."""
from . import executor as E, graphs as G, planner as P
from . import selection as SEL

META = {
    "explanation": "W1 worklist once-only discipline at the planner (a task is expanded by exactly one lowering entry), "
                   "PL6 (one op and one progress count per lowered task, main_task reported), PL7 (cached xor lowered, "
                   "guard equals `not run_again and not should_run`), PL8 (tasks only from the closure), EX3/EX6/EX7 "
                   "(an op is dequeued at one site and ends in exactly one state). The --at-least decision of should_run (ATL1): a task satisfied by a reusable result is not executed.",
    "rules": ["W1(planner)", "PL6", "PL7", "PL8", "DUP1", "EX1", "EX3", "EX6", "EX7", "ATL1"],
    "assumptions": ["the caching decision itself (which version is reusable) is C05's subject"],
    "trusted": ["ast parser", "own call resolver"],
}


def run(A, rep, tier):
    F = P.PlannerFacts(A)
    P.rule_w1_planner(A, rep, F)
    P.rules_planner_counts(A, rep, F)
    # a dependency listed twice (under two spellings) would be linked twice and its dependent enqueued twice
    G.rule_dup1(A, rep)
    X = E.ExecFacts(A)
    E.rule_ex1(A, rep, X)
    E.rule_ex3(A, rep, X)
    E.rule_ex6(A, rep, X, stop_rules=False)
    E.rule_ex7(A, rep, X)
    # "nothing else runs": an experiment satisfied by a reusable result is not executed — the --at-least decision
    SEL.rule_atl1(A, rep)
    # progress numerator: incremented once per dequeued op with a main task
    import ast
    from ..model import norm, walk_local
    fi = X.launch_fi
    incs = [s for s in walk_local(fi.node) if isinstance(s, ast.AugAssign) and norm(s.target) == "self._num_tasks_dequeued"]
    ok = len(incs) == 1 and norm(incs[0].value) == "1" and isinstance(incs[0].op, ast.Add)
    rep.check(ok, "PL6", "progress numerator", fi.node, "one count per dequeued task", "_num_tasks_dequeued is not incremented exactly once by 1")
    rf = X.run_fi
    st = [s for s in walk_local(rf.node) if isinstance(s, ast.Assign) and norm(s.targets[0]) == "self._num_tasks_to_run"]
    rep.check(len(st) == 1 and norm(st[0].value) == "%s.num_tasks_to_run" % rf.params[1], "PL6", "progress denominator", rf.node,
              "the total shown is the plan's count", "_num_tasks_to_run is not taken from plan.num_tasks_to_run")
