"""C16 rules: SG1–SG5 under the asynchronous (signal → ConductorAbort) model."""
from __future__ import annotations

import ast
from typing import Dict, List, Optional, Set, Tuple

from ..analysis import Analysis, fmt_conj
from ..cfg import CFG, Node, branch_of, catches, is_back, is_exc
from ..exc import ABORT
from ..model import AnalysisError, FunctionInfo, norm, walk_local
from .reaping import instantiated_ops, OPERATION
from .runtask import RTE, spawn_calls

EXE = "execution.executor."
# the designated sink that reports the abort (and every other ConductorError) to the user
SINKS = {"conductor.utils.user_code.cli_command.command_main"}


def skip(l):
    return is_exc(l) or is_back(l)


def _stmt_of(node):
    n = node
    while not isinstance(n, ast.stmt):
        n = n._parent
    return n


def _anc(n):
    n = getattr(n, "_parent", None)
    while n is not None:
        yield n
        n = getattr(n, "_parent", None)


def run_reachable(A: Analysis) -> List[FunctionInfo]:
    """Main-thread functions reachable from `cond run` (RTA on operations; the
    tee thread's body and the SIGCHLD handler run elsewhere / are checked apart)."""
    inst = instantiated_ops(A)
    dead = set()
    for c in A.prog.subclasses(OPERATION, strict=True):
        if c not in inst:
            dead.update(m.fq for m in A.prog.classes[c].methods.values())
    dead.add("conductor.utils.tee.TeeProcessor._tee_pipe_run")
    # the other sub-commands share cli_command but are not part of `cond run`
    for f in A.prog.scan_functions:
        if "cli_command" in f.decorators and f.fq != "conductor.cli.run.main":
            dead.add(f.fq)
    reach = A.cg.reachable(["conductor.cli.run.main", "conductor.utils.user_code.cli_command.command_main"], stop=dead)
    out = []
    for fq in sorted(reach):
        f = A.prog.functions.get(fq)
        if f is not None and not fq.startswith(("conductor.envs", "conductor.explorer", "conductor.cli.explorer")):
            out.append(f)
    return out


def abort_clause(A: Analysis, t: ast.Try) -> Optional[ast.ExceptHandler]:
    """First clause of the try that catches ConductorAbort."""
    for h in t.handlers:
        types = None
        if h.type is not None:
            exprs = h.type.elts if isinstance(h.type, ast.Tuple) else [h.type]
            types = [A.prog.resolve_name_expr(e._module, e) or norm(e) for e in exprs]
        if catches(A.prog, types, ABORT) == "yes":
            return h
    return None


def rule_sg12(A: Analysis, rep):
    """While the Python-level SIGCHLD handler is installed its wake-up pipe is open: `track()` installs the handler after
    creating the pipe and, on the way out, restores the previous handler *before* closing the pipe.  A child that exits
    while the handler is installed but the pipe is closed makes the handler raise (EBADF / TypeError) in the middle of
    whatever is unwinding — an abort is replaced by that error and the running tasks are never terminated."""
    tr = A.fn("utils.sigchld.SigchldHelper.track")
    g = A.cfg(tr, "plain")

    def is_sigchld_set(n):
        return n.kind == "stmt" and any(isinstance(c, ast.Call) and norm(c.func) == "signal.signal" and c.args and norm(c.args[0]) == "signal.SIGCHLD" for c in ast.walk(n.ast))
    sets = [n for n in g.nodes if n.ast is not None and is_sigchld_set(n)]
    closes = [n for n in g.nodes if n.kind == "stmt" and n.ast is not None and any(isinstance(c, ast.Call) and norm(c.func) == "os.close" for c in ast.walk(n.ast))]
    pipes = [n for n in g.nodes if n.kind == "stmt" and n.ast is not None and any(isinstance(c, ast.Call) and norm(c.func) == "os.pipe" for c in ast.walk(n.ast))]
    fin = [t for t in walk_local(tr.node) if isinstance(t, ast.Try) and t.finalbody]
    if len(sets) != 2 or not closes or len(pipes) != 1 or len(fin) != 1:
        raise AnalysisError("SG12: anchors of SigchldHelper.track not found (signal.signal=%d, os.close=%d, os.pipe=%d, finally=%d)" % (len(sets), len(closes), len(pipes), len(fin)))
    in_fin = {id(x) for s_ in fin[0].finalbody for x in ast.walk(s_)}
    install = [n for n in sets if id(n.ast) not in in_fin]
    restore = [n for n in sets if id(n.ast) in in_fin]
    ok_install = len(install) == 1 and g.all_paths_pass(g.entry, install[0], pipes, skip_labels=is_exc)
    rep.check(ok_install, "SG12", "pipe exists before the handler is installed", tr.node, "", "the SIGCHLD handler is installed before its wake-up pipe exists")
    # inside the finally block: the restore comes before every close (statement order of the block decides, the block is straight-line)
    order = [("restore" if any(id(r.ast) == id(s_) for r in restore) else "close" if any(id(c.ast) == id(s_) for c in closes) else None) for s_ in fin[0].finalbody]
    order = [o for o in order if o]
    ok_order = len(restore) == 1 and order[:1] == ["restore"] and all(id(c.ast) in in_fin for c in closes)
    rep.check(ok_order, "SG12", "handler uninstalled before its pipe is closed", fin[0], "signal.signal(SIGCHLD, previous) precedes os.close(...) in the clean-up",
              "the wake-up pipe is closed (order in the clean-up: %s) while the SIGCHLD handler is still installed: a child exiting in that window makes the handler raise and replaces the exception being unwound (an abort never reaches terminate_processes)" % order)


def rule_sg11(A: Analysis, rep):
    """SG11: the signal dispositions are set in exactly two places (the termination handlers at start-up, the SIGCHLD
    handler around the run); nothing else ignores, defers or replaces them (an ignored SIGINT/SIGTERM is lost for good)."""
    allowed = {("conductor.errors.signal.register_signal_handlers", "signal.SIGINT"), ("conductor.errors.signal.register_signal_handlers", "signal.SIGTERM"),
               ("conductor.utils.sigchld.SigchldHelper.track", "signal.SIGCHLD")}
    seen = set()
    for f in A.prog.functions.values():
        if f.fq.startswith("conductor.envs") or f.fq.startswith("conductor.explorer"):
            continue
        for c in walk_local(f.node):
            if isinstance(c, ast.Call) and norm(c.func) in ("signal.signal", "signal.pthread_sigmask", "signal.sigprocmask", "signal.siginterrupt", "signal.set_wakeup_fd"):
                sig = norm(c.args[0]) if c.args else "?"
                key = (f.fq, sig)
                seen.add(key)
                if norm(c.func) != "signal.signal" or key not in allowed:
                    rep.bad("SG11", "signal disposition changed in %s" % f.fq.replace("conductor.", ""), c,
                            "`%s` — outside the two confirmed installation points; a signal that is ignored or masked here never reaches the abort handler" % norm(c)[:80])
                elif key[1] in ("signal.SIGINT", "signal.SIGTERM") and len(c.args) > 1 and norm(c.args[1]) in ("signal.SIG_IGN", "signal.SIG_DFL"):
                    rep.bad("SG11", "termination signals not handled", c, "`%s`" % norm(c))
                else:
                    rep.ok("SG11", "signal disposition site %s/%s" % (f.fq.rsplit(".", 1)[1], sig.rsplit(".", 1)[-1]), c, "confirmed installation point")
    rep.check({k for k in allowed if k[1] != "signal.SIGCHLD"} <= seen, "SG11", "termination handlers are installed", None, "", "SIGINT/SIGTERM handlers are no longer installed by register_signal_handlers", deep=False)
    rep.expect_min("SG11", 3)


def rule_sg1(A: Analysis, rep):
    cm = A.fn("utils.user_code.cli_command.command_main")
    g = A.cfg(cm, "plain")
    reg = [n for n in g.nodes if n.kind == "stmt" and A.calls_in(n.ast, "conductor.errors.signal.register_signal_handlers")]
    mains = [n for n in g.nodes if n.kind == "stmt" and any(isinstance(c, ast.Call) and norm(c.func) == "main" for c in walk_local(n.ast))]
    rep.check(bool(reg) and bool(mains) and all(g.all_paths_pass(g.entry, m, reg, skip_labels=skip) for m in mains), "SG1", "handlers installed before the command runs", cm.node,
              "", "main(args) can run before the signal handlers are registered")
    rs = A.fn("errors.signal.register_signal_handlers")
    sigs = {norm(c.args[0]): norm(c.args[1]) for c in walk_local(rs.node) if isinstance(c, ast.Call) and norm(c.func) == "signal.signal" and len(c.args) == 2}
    ok = set(sigs) == {"signal.SIGINT", "signal.SIGTERM"} and len(set(sigs.values())) == 1
    hname = list(sigs.values())[0] if sigs else None
    rep.check(ok, "SG1", "SIGINT and SIGTERM handled alike", rs.node, "", "signal registration is %s" % sigs)
    if hname:
        h = rs.module.functions.get(hname)
        body = [s for s in h.node.body if not (isinstance(s, ast.Expr) and isinstance(s.value, ast.Constant))] if h else []
        ok = h is not None and len(body) == 1 and isinstance(body[0], ast.Raise) and A.exc.exc_class(body[0].exc) == ABORT
        rep.check(ok, "SG1", "the handler raises ConductorAbort", h.node if h else rs.node, "", "the signal handler does not simply raise ConductorAbort")
    rep.check(A.prog.is_subclass(ABORT, "conductor.errors.base.ConductorError"), "SG1", "ConductorAbort is a ConductorError (reported by cli_command)", None, "", "ConductorAbort no longer derives from ConductorError", deep=False)


def rule_sg2(A: Analysis, rep):
    """No handler on the way swallows or converts the abort."""
    n_try = 0
    for f in run_reachable(A):
        for t in walk_local(f.node):
            if not isinstance(t, ast.Try):
                continue
            h = abort_clause(A, t)
            if h is None:
                continue
            n_try += 1
            if f.fq in SINKS:
                rep.ok("SG2", "sink %s" % f.fq.replace("conductor.", ""), h, "designated reporter: prints ERROR and exits non-zero (CLI1)", deep=False)
                continue
            g = A.cfg(f, "plain")
            hn = [n for n in g.nodes if n.kind == "except" and n.ast is h][0]
            falls = g.exit in g.reach([hn], skip_labels=is_exc)
            # every raise leaving the handler must re-raise the caught exception
            conv = []
            hb = {id(x) for s in h.body for x in ast.walk(s)}
            for r in walk_local(h):
                if isinstance(r, ast.Raise) and id(r) in hb:
                    if r.exc is None:
                        continue
                    if isinstance(r.exc, ast.Name) and r.exc.id == h.name:
                        continue
                    base = r.exc
                    while isinstance(base, ast.Call) and isinstance(base.func, ast.Attribute) and base.func.attr.startswith("add_"):
                        base = base.func.value
                    if isinstance(base, ast.Name) and base.id == h.name:
                        continue
                    conv.append(r)
            ty = norm(h.type) if h.type is not None else "bare except"
            ok = not falls and not conv
            rep.check(ok, "SG2", "`except %s` in %s lets the abort through" % (ty, f.fq.replace("conductor.", "")), h, "re-raises the caught exception on every path",
                      "`except %s` catches ConductorAbort and %s — the interrupt would be %s" % (
                          ty, "falls through" if falls else ("raises `%s`" % norm(conv[0].exc)[:60] if conv else "?"), "ignored" if falls else "reported as a different error"),
                      key="SG2|%s" % f.name)
    rep.notes.append("SG2: %d try statements with a clause that can catch ConductorAbort, in code reachable from `cond run`" % n_try)
    rep.expect_min("SG2", 6)


def must_defined(A: Analysis, g: CFG, fi: FunctionInfo) -> Dict[Node, Set[str]]:
    """Definitely-assigned local names at the ENTRY of each node of an async CFG
    (an exceptional edge leaves a statement before its binding takes effect)."""
    names = A.res.assigned_names(fi)
    params = set(fi.params)
    a = fi.node.args
    if a.vararg:
        params.add(a.vararg.arg)
    if a.kwarg:
        params.add(a.kwarg.arg)
    ALL = frozenset(names)
    IN: Dict[Node, frozenset] = {n: ALL for n in g.nodes}
    IN[g.entry] = frozenset(params)

    def defs_of(n: Node) -> Set[str]:
        out = set()
        st = n.ast
        if st is None:
            return out
        if n.kind == "stmt":
            if isinstance(st, (ast.FunctionDef, ast.AsyncFunctionDef, ast.ClassDef)):
                out.add(st.name)
            elif isinstance(st, (ast.Import, ast.ImportFrom)):
                for al in st.names:
                    out.add((al.asname or al.name).split(".")[0])
            elif isinstance(st, ast.stmt):
                for x in walk_local(st):
                    if isinstance(x, ast.Name) and isinstance(x.ctx, ast.Store):
                        out.add(x.id)
            elif isinstance(n.info, tuple) and n.info and n.info[0] == "for-iter":
                pass
        elif n.kind == "for":
            for x in ast.walk(st.target):
                if isinstance(x, ast.Name):
                    out.add(x.id)
        elif n.kind == "with":
            w = n.info
            for it in w.items:
                if it.context_expr is st and it.optional_vars is not None:
                    for x in ast.walk(it.optional_vars):
                        if isinstance(x, ast.Name):
                            out.add(x.id)
        elif n.kind == "except":
            if st.name:
                out.add(st.name)
        elif n.kind == "test":
            for x in ast.walk(st):
                if isinstance(x, ast.NamedExpr):
                    out.add(x.target.id)
        return out
    D = {n: defs_of(n) for n in g.nodes}
    changed = True
    while changed:
        changed = False
        for n in g.nodes:
            if n is g.entry:
                continue
            acc = None
            for (p, l) in n.pred:
                if is_exc(l):
                    contrib = IN[p]
                elif p.kind == "for" and branch_of(l) == "F":
                    contrib = IN[p]  # loop exhausted: target not (re)bound
                else:
                    contrib = IN[p] | D[p]
                acc = contrib if acc is None else (acc & contrib)
            if acc is None:
                acc = ALL
            if acc != IN[n]:
                IN[n] = acc
                changed = True
    return {n: set(s) for n, s in IN.items()}


def rule_sg3(A: Analysis, rep):
    n_h = 0
    for f in run_reachable(A):
        trys = [t for t in walk_local(f.node) if isinstance(t, ast.Try)]
        if not trys:
            continue
        g = A.cfg(f, "async-only")
        IN = None
        locals_ = A.res.assigned_names(f)
        for t in trys:
            regions: List[Tuple[str, List[ast.stmt]]] = []
            h = abort_clause(A, t)
            if h is not None:
                regions.append(("except %s" % (norm(h.type) if h.type is not None else ""), h.body))
            if t.finalbody:
                regions.append(("finally", t.finalbody))
            for label, body in regions:
                n_h += 1
                if IN is None:
                    IN = must_defined(A, g, f)
                bad = []
                ids = {id(x) for s in body for x in ast.walk(s)}
                for n in g.nodes:
                    if n.ast is None or n.kind not in ("stmt", "test", "for", "with") or id(n.ast) not in ids:
                        continue
                    # nested defs are not executed here
                    if isinstance(n.ast, (ast.FunctionDef, ast.ClassDef)):
                        continue
                    root = n.ast if n.kind != "for" else n.ast.iter
                    comp_bound = {y.id for c_ in ast.walk(root) if isinstance(c_, ast.comprehension) for y in ast.walk(c_.target) if isinstance(y, ast.Name)}
                    for x in walk_local(root):
                        if isinstance(x, ast.Name) and x.id in comp_bound:
                            continue
                        if isinstance(x, ast.Name) and isinstance(x.ctx, (ast.Load, ast.Del)) and x.id in locals_ and x.id not in IN[n]:
                            # `del x` / reads guarded by nothing: report
                            bad.append((x, n))
                seen = set()
                for (x, n) in bad:
                    if x.id in seen:
                        continue
                    seen.add(x.id)
                    rep.bad("SG3", "`%s` may be unbound in the %s clause of %s" % (x.id, label, f.fq.replace("conductor.", "")), x,
                            "an interrupt can arrive before `%s` is assigned; the handler would die with UnboundLocalError instead of reporting the abort" % x.id,
                            key="SG3|%s %s" % (f.name, x.id))
                if not bad:
                    rep.ok("SG3", "%s clause of %s reads only definitely-assigned names" % (label, f.fq.replace("conductor.", "")), body[0], "must-defined analysis over the asynchronous CFG")
    rep.notes.append("SG3: %d abort-reachable handler/finally regions analysed" % n_h)
    rep.expect_min("SG3", 8)


def _kills(A: Analysis, h: ast.ExceptHandler, pv: str) -> bool:
    for c in walk_local(h):
        if isinstance(c, ast.Call) and norm(c.func) == "os.killpg" and len(c.args) == 2 and norm(c.args[1]) == "signal.SIGTERM":
            f = c._func
            tgt = A.xtext(c.args[0], f, stop=[pv])
            if tgt == "os.getpgid(%s.pid)" % pv:
                return True
    return False


def rule_sg4(A: Analysis, rep):
    fi, spawns = spawn_calls(A)
    if len(spawns) != 1:
        raise AnalysisError("SG4: expected one Popen")
    sp = spawns[0]
    st = _stmt_of(sp)
    pv = norm(st.targets[0]) if isinstance(st, ast.Assign) else None
    g = A.cfg(fi, "async-only")
    sn = g.node_of(st)
    # (1) inside start_execution: every node from the spawn to the return aborts into a killing handler
    tr = None
    for a in _anc(sp):
        if isinstance(a, ast.Try) and id(st) in {id(x) for b in a.body for x in ast.walk(b)}:
            tr = a
            break
    h = abort_clause(A, tr) if tr is not None else None
    ok = h is not None and pv is not None and _kills(A, h, pv)
    det = "no abort handler around the spawn"
    if h is not None:
        hn = [n for n in g.nodes if n.kind == "except" and n.ast is h][0]
        after = g.reach([m for (m, l) in sn.succ if not is_exc(l)], skip_labels=is_exc)
        after = [n for n in after if n.kind in ("stmt", "test", "for", "with") and n.ast is not None and not any(isinstance(a, ast.ExceptHandler) for a in _anc(n.ast))]
        uncovered = [n for n in after if not any(m is hn for (m, l) in n.succ if is_exc(l))]
        gs = A.path_guards(A.cfg(fi, "plain"), A.cfg(fi, "plain").node_of(h.body[0]), A.cfg(fi, "plain").node_of(_stmt_of([c for c in walk_local(h) if isinstance(c, ast.Call) and norm(c.func) == "os.killpg"][0])), fi) if ok else []
        guarded = all(("none(%s)" % pv, False) in c for c in gs) if gs else False
        reraises = any(isinstance(x, ast.Raise) and x.exc is None for x in h.body)
        ok = ok and not uncovered and guarded and reraises
        det = "kills=%s, uncovered statements after the spawn=%s, guarded by `%s is not None`=%s, re-raises=%s" % (
            _kills(A, h, pv), [norm(n.ast)[:40] for n in uncovered][:3], pv, guarded, reraises)
    rep.check(ok, "SG4", "inside start_execution: an abort after the spawn kills the new process group", sp,
              "every statement after Popen() aborts into a handler that SIGTERMs getpgid(process.pid) and re-raises", det, key="SG4|spawn→register window")
    # (2) in the launch loop: from the return of start_execution to the registration
    lf = A.fn(EXE + "Executor._launch_ops_if_able")
    gl = A.cfg(lf, "async-only")
    launches = [c for c in A.calls_in_func(lf, "Operation.start_execution")]
    adds = [c for c in A.calls_in_func(lf, "_InflightOperations.add_op") if not any(isinstance(a, ast.ExceptHandler) for a in _anc(c))]
    if len(launches) != 1 or len(adds) != 1:
        rep.bad("SG4", "launch loop window", lf.node, "expected one start_execution and one add_op on the success path")
        return
    ls, as_ = _stmt_of(launches[0]), _stmt_of(adds[0])
    hv = norm(ls.targets[0]) if isinstance(ls, ast.Assign) else None
    ln, an = gl.node_of(ls), gl.node_of(as_)
    tr = None
    for a in _anc(launches[0]):
        if isinstance(a, ast.Try) and id(ls) in {id(x) for b in a.body for x in ast.walk(b)}:
            tr = a
            break
    h = abort_clause(A, tr) if tr is not None else None
    ok = False
    det = "no abort handler around the launch"
    if h is not None and hv is not None:
        hn = [n for n in gl.nodes if n.kind == "except" and n.ast is h][0]
        # statements executed between the launch's return and the end of add_op
        between = [n for n in gl.reach([m for (m, l) in ln.succ if not skip(l)], skip_labels=skip)
                   if n.kind in ("stmt", "test") and n.ast is not None and gl.reachable(n, an, skip_labels=skip)]
        uncovered = [n for n in between if not any(m is hn for (m, l) in n.succ if is_exc(l))]
        regs = [c for c in walk_local(h) if isinstance(c, ast.Call) and A.res.is_call_to(c, "_InflightOperations.add_op") and c.args and norm(c.args[0]) == hv]
        kills = _kills(A, h, hv)
        gp = A.cfg(lf, "plain")
        guarded = False
        if regs:
            gs = A.path_guards(gp, gp.node_of(h.body[0]), gp.node_of(_stmt_of(regs[0])), lf)
            guarded = bool(gs) and all(("none(%s)" % hv, False) in c for c in gs)
        reraises = not (gp.exit in gp.reach([[n for n in gp.nodes if n.kind == "except" and n.ast is h][0]], skip_labels=is_exc)) and any(isinstance(x, ast.Raise) and x.exc is None for x in walk_local(h))
        # handle bound before the try (SG3 makes sure it is defined in the handler)
        pre = A.preceding_def(tr, hv)
        ok = not uncovered and ((bool(regs) and guarded) or kills) and reraises and pre is not None and norm(pre) == "None"
        det = "registers-in-handler=%s guarded=%s kills=%s uncovered=%s re-raises=%s `%s = None` before the try=%s" % (
            bool(regs), guarded, kills, [norm(n.ast)[:40] for n in uncovered][:3], reraises, hv, pre is not None)
    rep.check(ok, "SG4", "launch loop: a started but not yet registered op is registered (or killed) on abort", launches[0],
              "between start_execution returning and add_op storing the pid, an abort reaches a handler that registers the handle so that run_plan terminates it", det,
              key="SG4|spawn→register window")
    # the exception from inside add_op propagates to the same handler (call site inside the try): covered by `between` including the add statement


def rule_sg5(A: Analysis, rep):
    rf = A.fn(EXE + "Executor.run_plan")
    g = A.cfg(rf, "plain")
    withs = [w for w in walk_local(rf.node) if isinstance(w, ast.With) and any(A.calls_in(it.context_expr, "SigchldHelper.track") for it in w.items)]
    loops = [l for l in walk_local(rf.node) if isinstance(l, ast.While) and A.calls_in(l, "Executor._launch_ops_if_able")]
    tr = None
    if loops:
        for a in _anc(loops[0]):
            if isinstance(a, ast.Try):
                tr = a
    h = abort_clause(A, tr) if tr is not None else None
    ok = h is not None and h.type is not None and norm(h.type) in ("ConductorAbort",)
    det = "the main loop is not inside a try with a ConductorAbort clause"
    if h is not None:
        first = h.body[0]
        term_first = isinstance(first, ast.Expr) and A.calls_in(first, "_InflightOperations.terminate_processes") != []
        hn = [n for n in g.nodes if n.kind == "except" and n.ast is h][0]
        reraises = g.exit not in g.reach([hn], skip_labels=is_exc) and isinstance(h.body[-1], ast.Raise) and h.body[-1].exc is None
        ok = term_first and reraises
        det = "terminate_processes() first=%s, re-raises=%s" % (term_first, reraises)
    rep.check(ok, "SG5", "abort ⇒ terminate every registered process first, then re-raise", rf.node,
              "run_plan's ConductorAbort clause starts with terminate_processes()", det)
    # every statement that can run while processes are registered is inside that try
    callers = sorted({f.fq for (f, c) in A.all_calls_to("Executor._launch_ops_if_able", "Executor._wait_for_next_inflight_op")})
    rep.check(callers == [rf.fq], "SG5", "ops are launched / awaited only from run_plan's loop", None, "", "launch/wait helpers are called from %s" % callers)
    from .executor import rule_terminate
    rule_terminate(A, rep, "SG5")
    # nothing on the abort path commits an index
    commit_targets = ("VersionIndex.commit_changes", "VersionIndex.insert_output_version")
    offenders = []
    for f in run_reachable(A):
        for t in walk_local(f.node):
            if isinstance(t, ast.Try):
                hh = abort_clause(A, t)
                if hh is None:
                    continue
                roots = set()
                for s in hh.body:
                    for c in walk_local(s):
                        if isinstance(c, ast.Call):
                            roots.update(A.res.callees(c))
                reach = A.cg.reachable(sorted(roots))
                if any(r.endswith("VersionIndex.commit_changes") or r.endswith("VersionIndex.insert_output_version") or r == "sqlite3.Connection.commit" for r in reach | roots):
                    offenders.append(f.fq)
    rep.check(not offenders, "SG5", "no commit on the abort path", None, "no abort handler (transitively) records or commits a version", "abort handlers in %s reach an index write/commit" % offenders)
    # tee shutdown in start_execution's handler only when output is recorded (kept as is)
    rep.expect_min("SG5", 4)


# calls inside an abort clause that are allowed to raise (frozen, one line of reason each)
SG10_ALLOW = {
    ("_launch_ops_if_able", "conductor.execution.executor._InflightOperations.add_op", "AssertionError"):
        "add_op asserts `handle.pid is not None` only for asynchronous handles, which carry a pid by construction (from_async_process)",
}


def rule_sg10(A: Analysis, rep):
    """An exception raised inside an abort clause *replaces* the ConductorAbort: the outer clauses
    (run_plan's terminate_processes, cli_command's report) are then skipped.  Below run_plan, every call
    made in an abort clause before the re-raise must therefore be unable to raise (typed summaries), or be
    enclosed in a handler for what it raises."""
    n = 0
    # only code that runs while task processes may exist: reachable from run_plan's tracked region
    rf = A.fn(EXE + "Executor.run_plan")
    withs = [w for w in walk_local(rf.node) if isinstance(w, ast.With) and any(A.calls_in(it.context_expr, "SigchldHelper.track") for it in w.items)]
    if len(withs) != 1:
        raise AnalysisError("SG10: tracked region of run_plan not found")
    inst = instantiated_ops(A)
    dead = set()
    for c_ in A.prog.subclasses(OPERATION, strict=True):
        if c_ not in inst:
            dead.update(m.fq for m in A.prog.classes[c_].methods.values())
    roots = set()
    for st in withs[0].body:
        for sub in walk_local(st):
            if isinstance(sub, ast.Call):
                for (c_, exp) in A.cg.sites[rf.fq]:
                    if c_ is sub:
                        roots.update(exp)
    region = A.cg.reachable(sorted(roots), stop=dead)
    for f in run_reachable(A):
        if f.fq in SINKS or f.fq.endswith("Executor.run_plan") or f.fq not in region:
            continue
        for t in walk_local(f.node):
            if not isinstance(t, ast.Try):
                continue
            h = abort_clause(A, t)
            if h is None:
                continue
            n += 1
            offenders = []
            for c in walk_local(h):
                if not isinstance(c, ast.Call):
                    continue
                # enclosed by a nested try (inside the clause) that catches what it raises?
                for callee in A.res.callees(c):
                    raised = set(A.exc._callee_raises(callee))
                    for ty in sorted(raised):
                        if ty == ABORT:
                            continue
                        caught = False
                        for anc in _anc(c):
                            if anc is h:
                                break
                            if isinstance(anc, ast.Try) and id(c) in {id(x) for b in anc.body for x in ast.walk(b)}:
                                for hh in anc.handlers:
                                    types = None
                                    if hh.type is not None:
                                        exprs = hh.type.elts if isinstance(hh.type, ast.Tuple) else [hh.type]
                                        types = [A.prog.resolve_name_expr(e._module, e) or norm(e) for e in exprs]
                                    if catches(A.prog, types, ty) == "yes":
                                        caught = True
                        if caught:
                            continue
                        if (f.name, callee, ty.rsplit(".", 1)[-1]) in SG10_ALLOW:
                            continue
                        offenders.append((c, callee, ty))
            if offenders:
                c, callee, ty = offenders[0]
                rep.bad("SG10", "abort clause of %s cannot be derailed" % f.fq.replace("conductor.", ""), c,
                        "`%s` can raise %s inside the abort clause: that exception would replace the ConductorAbort, run_plan's handler would not run "
                        "(running tasks keep running) and Conductor would die with an internal error" % (norm(c)[:60], ty.rsplit(".", 1)[-1]),
                        key="SG10|%s" % f.name)
            else:
                rep.ok("SG10", "abort clause of %s cannot be derailed" % f.fq.replace("conductor.", ""), h,
                       "no call before the re-raise can raise (typed exception summaries; %d allow-table entries)" % len(SG10_ALLOW))
    rep.expect_min("SG10", 3)
