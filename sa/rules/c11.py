"""C11 — archive then restore reproduces exactly the selected versions."""
from . import archive_restore as AR, vindex as V

META = {
    "explanation": "Order copy ≺ commit ≺ tar in archive.main (AR1), the selection queries and the 2×2 query table (SQL2), column order "
                   "agreement SELECT = INSERT = row decoding (VI2), once-only traversal of the closure (W1 at TaskType.traverse), one "
                   "directory-name helper on both sides (NAME1), archive is read-only on the project (AR2, VI1), restore loads and copies "
                   "every row of the archive index (RS4). No implicit commits on the project connection (VI7).",
    "rules": ["AR1", "AR3", "SQL2", "VI2", "W1(traverse)", "NAME1", "AR2", "VI1", "RS4", "VI7", "AR5"],
    "assumptions": ["byte-identical trees are delegated to tar and shutil.copytree"],
    "trusted": ["ast parser", "SQL subset reader"],
}


def run(A, rep, tier):
    AR.rule_ar1(A, rep)
    AR.rule_ar5(A, rep)
    Q = V.rule_sql2(A, rep)
    V.rule_vi2(A, rep, Q)
    V.rule_sql3(A, rep, Q)
    AR.rule_w1_traverse(A, rep)
    AR.rule_name1(A, rep)
    V.rule_vi1(A, rep)
    AR.rule_rs1(A, rep)
    # a restore that stops part-way leaves nothing recorded: one transaction, never switched to autocommit
    V.rule_vi7(A, rep)
