"""C08 — Every experiment execution gets a fresh, unique version directory."""
from . import archive_restore as AR, envcontract as EC, fs, planner as P, runtask as R, vindex as V

META = {
    "explanation": "Abstract interpretation of the version generator over the difference domain (VI4), seeding from MAX(timestamp) (VI5), "
                   "the fresh-directory enforcement point for versioned ops (RT6/RT5), one directory-name helper at every producer/consumer "
                   "(NAME1), restore never writes into an existing directory (RS2), one lowering ⇒ one new version per task (W1), and the "
                   "destructive-call inventory (DEL1); nothing is written into the version directory after the version was committed (RT2: both log handlers are finished before the verdict, nothing follows the commit). cond gc removes only unrecorded directories, identified from the directory's own location (GC1–GC4). The task is handed the fresh directory: COND_OUT set by Conductor overrides an inherited value (RT3).",
    "rules": ["VI4", "VI5", "RT6", "RT5", "NAME1", "RS2", "W1(planner)", "DEL1", "RT2", "GC1", "GC2", "GC3", "GC4", "RT3"],
    "assumptions": ["two cond processes running concurrently in one project are outside the quantifier", "time.time() may return any integer sequence"],
    "trusted": ["ast parser", "SQL subset reader"],
}


def run(A, rep, tier):
    V.rule_vi4(A, rep)
    V.rule_vi5(A, rep)
    fs.rule_rt6(A, rep)
    AR.rule_name1(A, rep)
    AR.rule_rs2(A, rep)
    F = P.PlannerFacts(A)
    P.rule_w1_planner(A, rep, F)
    P.rule_pl9_snapshot(A, rep, F)
    fs.rule_del1(A, rep)
    # nothing is written into the version directory once the version is recorded (logs are complete before the commit)
    R.rule_rt2(A, rep)
    # cond gc deletes only directories that are not recorded (identifier rebuilt from the directory's own location)
    fs.rule_gc(A, rep)
    # the command is told the fresh directory: Conductor's COND_OUT overrides anything inherited from the environment
    EC.rule_rt3(A, rep)
