"""RX1/RX2 — regular-expression rules shared by C13, C15, C20."""
from __future__ import annotations

import ast
from typing import Dict, List, Optional, Tuple

from ..analysis import Analysis
from ..model import AnalysisError, NOFOLD, Module, norm, walk_local
from ..regex_auto import Unrecognised, accepted_chars, compare

NAME = r"[A-Za-z0-9_-]+"
REF = {
    "NAME": NAME,
    "IDENT": r"(//)?(%s/)*(%s)?:%s" % (NAME, NAME, NAME),
    "REL": r":%s" % NAME,
    "EXPERIMENT_DIR": r"%s\.task\.[1-9][0-9]*" % NAME,
    "REGULAR_DIR": r"%s\.task" % NAME,
}


def compiled_regexes(A: Analysis, m: Module) -> Dict[str, Tuple[str, ast.AST]]:
    out = {}
    for name, vals in m.assigns.items():
        if len(vals) == 1 and isinstance(vals[0], ast.Call) and norm(vals[0].func) == "re.compile":
            call = vals[0]
            if len(call.args) != 1 or call.keywords:
                raise AnalysisError("re.compile with flags for %s" % name)
            pat = A.prog.fold(m, call.args[0])
            if pat is NOFOLD or not isinstance(pat, str):
                raise AnalysisError("pattern of %s cannot be folded" % name)
            out[name] = (pat, call)
    return out


def uses(A: Analysis, m: Module, name: str) -> List[Tuple[str, str, ast.Call]]:
    """(function name, method, call) for every `name.<method>(...)` in the module."""
    out = []
    for fi in A.prog.scan_functions:
        if fi.module is not m:
            continue
        for c in walk_local(fi.node):
            if isinstance(c, ast.Call) and isinstance(c.func, ast.Attribute) and isinstance(c.func.value, ast.Name) and c.func.value.id == name:
                out.append((fi.name, c.func.attr, c))
    return out


def check_language(A: Analysis, rep, rule: str, inst: str, pat: str, method: str, ref_key: str, node) -> None:
    try:
        w1, w2, st = compare(pat, method, REF[ref_key], "fullmatch")
    except Unrecognised as ex:
        raise AnalysisError("%s %s: %s" % (rule, inst, ex))
    if w1 is None and w2 is None:
        rep.ok(rule, inst, node, "L(%r .%s) = %s  (alphabet %d classes, DFA %d/%d states, product %d)" % (
            pat, method, ref_key, st["alphabet"], st["dfa1"], st["dfa2"], st["product"]))
    else:
        parts = []
        if w1 is not None:
            parts.append("accepts %r which the documented grammar rejects" % w1)
        if w2 is not None:
            parts.append("rejects %r which the documented grammar accepts" % w2)
        rep.bad(rule, inst, node, "%r used with .%s(): %s" % (pat, method, "; ".join(parts)), key="%s|%s" % (rule, inst))
