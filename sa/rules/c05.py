"""C05 — Cached-result selection follows the documented compatibility rule."""
from . import planner as P, selection as S, vindex as V

META = {
    "explanation": "Role-typed binding of every git ancestry/distance call (GIT1), structure of the selection function with its "
                   "update rule compared to the documented rule on every assignment of its conditions (SEL1), the --at-least decision "
                   "table (ATL1), single source of truth for the selected version (ONE1), flag validation table (FLG1), the SQL of the "
                   "two queries it reads (SQL1) and column/field agreement (VI2); planner pruning only under `not run_again` (PL7).",
    "rules": ["GIT1", "SEL1", "ATL1", "ONE1", "FLG1", "SQL1", "VI2", "PL7", "VI4", "VI5"],
    "assumptions": ["git computes ancestry and distance as documented", "totality over all histories is not decided: the five guarded cases are"],
    "trusted": ["ast parser", "SQL subset reader", "finite truth-table comparison over the branch conditions (conditions treated as independent booleans)"],
}


def run(A, rep, tier):
    S.rule_git1(A, rep)
    S.rule_sel1(A, rep)
    S.rule_atl1(A, rep)
    S.rule_one1(A, rep)
    S.rule_flg1(A, rep)
    Q = V.rule_sql1(A, rep)
    V.rule_vi2(A, rep, Q)
    # "newest" is "largest timestamp": a version generated later must get a larger one than everything recorded
    V.rule_vi4(A, rep)
    V.rule_vi5(A, rep)
    F = P.PlannerFacts(A)
    P.rules_planner_counts(A, rep, F)
