"""C17 — Commands behave the same from any directory inside the project."""
from . import fs

META = {
    "explanation": "Inventory of working-directory reads (CWD1), root discovery iterating [cwd, *parents] to the nearest config file "
                   "(CWD2), cwd-derived values used only for total relative rendering (CWD3), and origin classes of every filesystem "
                   "effect and subprocess cwd in CLI-reachable code: project-rooted or user-supplied, never bare-relative (CWD4).",
    "rules": ["CWD1", "CWD2", "CWD3", "CWD4", "CWD6", "GC1", "GC2", "GC3", "GC4"],
    "assumptions": ["equality of exit status/effects in general is behavioural; decided: nothing but display depends on cwd"],
    "trusted": ["ast parser", "origin classification (untraceable origins are counted as unknown, never as violations)"],
}


def run(A, rep, tier):
    fs.rule_cwd(A, rep)
    # gc deletes exactly its candidate list (absolute paths under cond-out), never a display form relative to the cwd
    fs.rule_gc(A, rep)
