"""C14 — Dependency graphs are validated soundly before anything runs."""
from . import graphs as G

META = {
    "explanation": "Validation dominates planning and execution and --check returns in between (RUN1); white/grey/black discipline of the "
                   "two validating traversals by role (on-path set added on first visit and removed on post-visit; cycle report exactly on "
                   "`node in on-path`; push-time skip sets marked on post-visit only; on-path test before the visited test) (DFS1); every "
                   "dependency followed and missing tasks reported (DFS2); duplicate test on resolved identifiers (DUP1); root computation (ROOT1); each COND file's task table is an object of its own (LOAD1).",
    "rules": ["RUN1", "DFS1", "DFS2", "DFS4", "DUP1", "ROOT1", "W1(do_traversal)", "LOAD1"],
    "assumptions": ["DFS1/DFS2 are the necessary shape of a correct DFS cycle check, not a proof of the if-and-only-if over all graphs"],
    "trusted": ["ast parser"],
}


def run(A, rep, tier):
    G.rule_run1(A, rep)
    G.rule_dfs(A, rep)
    G.rule_dup1(A, rep)
    G.rule_root1(A, rep)
    G.rule_load1(A, rep)
