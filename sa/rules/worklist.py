"""W1 — worklist once-only discipline (DESIGN A.2), generic over the
instances frozen in the callers' tables."""
from __future__ import annotations

import ast
from typing import Callable, Dict, List, Optional, Sequence, Set, Tuple

from ..analysis import Analysis
from ..cfg import CFG, Node, branch_of, is_back, is_exc
from ..model import AnalysisError, FunctionInfo, norm, walk_local


def skip(l):
    return is_exc(l) or is_back(l)


class Worklist:
    """Role discovery for `while <S non-empty>: n = S.pop() ...`."""

    def __init__(self, A: Analysis, fi: FunctionInfo, loop: ast.While):
        self.A, self.fi, self.loop = A, fi, loop
        self.g: CFG = A.cfg(fi, "plain")
        self.stack: Optional[str] = None
        self.pop_stmt: Optional[ast.stmt] = None
        self.pop_targets: List[str] = []
        for st in loop.body:
            if isinstance(st, ast.Assign) and isinstance(st.value, ast.Call) and isinstance(st.value.func, ast.Attribute) \
                    and st.value.func.attr in ("pop", "popleft") and isinstance(st.value.func.value, ast.Name):
                s = st.value.func.value.id
                if s in {n.id for n in ast.walk(loop.test) if isinstance(n, ast.Name)}:
                    self.stack, self.pop_stmt = s, st
                    self.pop_targets = [n.id for n in ast.walk(st.targets[0]) if isinstance(n, ast.Name)]
                    break
        self.header = None
        for n in self.g.nodes:
            if n.kind == "test" and n.info is loop:
                self.header = n

    @property
    def ok(self):
        return self.stack is not None and self.header is not None

    def nodes(self) -> List[Node]:
        ids = {id(x) for x in ast.walk(self.loop)}
        return [n for n in self.g.nodes if n.ast is not None and id(n.ast) in ids and n is not self.header]

    def pop_node(self) -> Node:
        return self.g.node_of(self.pop_stmt)

    def init_node(self) -> Optional[Node]:
        """The statement that seeds the stack (`S = [root]`) closest before the loop."""
        best = None
        for n in self.g.nodes:
            if n.kind == "stmt" and isinstance(n.ast, (ast.Assign, ast.AnnAssign)):
                tg = n.ast.targets[0] if isinstance(n.ast, ast.Assign) else n.ast.target
                if isinstance(tg, ast.Name) and tg.id == self.stack and self.g.reachable(n, self.header, skip_labels=lambda l: l.startswith("exc")):
                    if best is None or getattr(n.ast, "lineno", 0) > getattr(best.ast, "lineno", 0):
                        best = n
        return best

    def pushes(self) -> List[Tuple[Node, ast.Call]]:
        """(node, call) for `S.append(x)`; `S.extend(<elt> for … in …)` is presented as a
        synthetic `S.append(<elt>)` call (its filter conditions are in `push_sources`)."""
        out = []
        for n in self.nodes():
            if n.kind != "stmt":
                continue
            for c in walk_local(n.ast):
                if isinstance(c, ast.Call) and isinstance(c.func, ast.Attribute) and isinstance(c.func.value, ast.Name) and c.func.value.id == self.stack:
                    if c.func.attr in ("append", "appendleft"):
                        out.append((n, c))
                    elif c.func.attr == "extend" and len(c.args) == 1 and isinstance(c.args[0], (ast.GeneratorExp, ast.ListComp)):
                        syn = ast.Call(func=ast.Attribute(value=c.func.value, attr="append", ctx=ast.Load()), args=[c.args[0].elt], keywords=[])
                        ast.copy_location(syn, c)
                        syn._extend_of = c  # type: ignore[attr-defined]
                        out.append((n, syn))
        return out

    def push_sources(self) -> List[Tuple[str, str, List[str]]]:
        """(pushed element text, iterable text, filter texts) for successor pushes: an append inside a
        `for x in IT:` loop (filters = guards in the loop body) or an extend over a comprehension."""
        out = []
        for (n, c) in self.pushes():
            ext = getattr(c, "_extend_of", None)
            if ext is not None:
                comp = ext.args[0]
                gen = comp.generators[0]
                out.append((norm(comp.elt), norm(gen.iter), [norm(i) for i in gen.ifs]))
                continue
            el = c.args[0] if c.args else None
            names = {x.id for x in ast.walk(el) if isinstance(x, ast.Name)} if el is not None else set()
            anc = getattr(n.ast, "_parent", None)
            while anc is not None and anc is not self.loop:
                if isinstance(anc, ast.For) and isinstance(anc.target, ast.Name) and anc.target.id in names:
                    hdr = [h for h in self.g.nodes if h.kind == "for" and h.ast is anc]
                    gs = self.A.path_guards(self.g, [x for (x, l) in hdr[0].succ if l == "T"][0], n, self.fi) if hdr else []
                    out.append((norm(el), norm(anc.iter), sorted({("" if p else "not ") + a for cj in gs for a, p in cj})))
                    break
                anc = getattr(anc, "_parent", None)
        return out

    def mark_values(self, memo: str) -> List[Tuple[str, str]]:
        """(key text, value text) for `memo[k] = v` marks inside the loop."""
        out = []
        for n in self.nodes():
            if n.kind == "stmt" and isinstance(n.ast, ast.Assign):
                for tg in n.ast.targets:
                    if isinstance(tg, ast.Subscript) and norm(tg.value) == memo:
                        out.append((self.key_text(tg.slice), norm(n.ast.value)))
        return out

    def marks(self, memo: str) -> List[Tuple[Node, str]]:
        """(node, key text) for `memo.add(k)` / `memo[k] = v` inside the loop."""
        out = []
        for n in self.nodes():
            if n.kind != "stmt":
                continue
            st = n.ast
            if isinstance(st, ast.Expr) and isinstance(st.value, ast.Call) and isinstance(st.value.func, ast.Attribute) \
                    and st.value.func.attr == "add" and norm(st.value.func.value) == memo and st.value.args:
                out.append((n, self.key_text(st.value.args[0])))
            elif isinstance(st, ast.Assign):
                for tg in st.targets:
                    if isinstance(tg, ast.Subscript) and norm(tg.value) == memo:
                        out.append((n, self.key_text(tg.slice)))
        return out

    def removes(self, memo: str) -> List[Node]:
        out = []
        for n in self.nodes():
            if n.kind == "stmt" and isinstance(n.ast, ast.Expr) and isinstance(n.ast.value, ast.Call) \
                    and isinstance(n.ast.value.func, ast.Attribute) and n.ast.value.func.attr in ("remove", "discard", "pop") \
                    and norm(n.ast.value.func.value) == memo:
                out.append(n)
            elif n.kind == "stmt" and isinstance(n.ast, ast.Delete):
                for tg in n.ast.targets:
                    if isinstance(tg, ast.Subscript) and norm(tg.value) == memo:
                        out.append(n)
        return out

    def key_text(self, e: ast.expr) -> str:
        return self.A.xtext(e, self.fi, stop=[self.stack])

    def seen_tests(self, memo: str, key: Optional[str] = None) -> List[Tuple[Node, str, str]]:
        """(test node, key text, label of the NOT-seen edge) for simple tests
        `k in memo` / `k not in memo` inside the loop."""
        out = []
        for n in self.nodes():
            if n.kind != "test":
                continue
            d = self.A.dnf(n.ast, True, self.fi, inline=False)
            if len(d) != 1 or len(d[0]) != 1:
                continue
            (a, pol), = d[0]
            mem = self._membership(n.ast)
            if mem is None or norm(mem[1]) != memo:
                continue
            k = self.key_text(mem[0])
            if key is not None and k != key:
                continue
            # pol True => the T edge means "in memo" (seen)
            out.append((n, k, "F" if pol else "T"))
        return out

    def _membership(self, e: ast.expr) -> Optional[Tuple[ast.expr, ast.expr]]:
        """(key, memo) for a test `k in M` / `k not in M` / `x is [not] None` with `x = M.get(k)` (negations stripped)."""
        while isinstance(e, ast.UnaryOp):
            e = e.operand
        if isinstance(e, ast.Compare) and len(e.ops) == 1:
            if isinstance(e.ops[0], (ast.In, ast.NotIn)):
                return (e.left, e.comparators[0])
            if isinstance(e.ops[0], (ast.Is, ast.IsNot)) and isinstance(e.comparators[0], ast.Constant) and e.comparators[0].value is None:
                return self.A.memo_get(e.left, self.fi, e)
        return None

    def memos(self) -> List[str]:
        """Names/attrs that are both membership-tested and marked in the loop."""
        tested = set()
        for n in self.nodes():
            if n.kind == "test":
                for c in ast.walk(n.ast):
                    if isinstance(c, ast.Compare):
                        mem = self._membership(c)
                        if mem is not None:
                            tested.add(norm(mem[1]))
        # membership filters of `S.extend(x for x in … if x not in M)` count as tests too
        for (_n, c) in self.pushes():
            ext = getattr(c, "_extend_of", None)
            if ext is not None:
                for i_ in ext.args[0].generators[0].ifs:
                    for cmp_ in ast.walk(i_):
                        if isinstance(cmp_, ast.Compare):
                            mem = self._membership(cmp_)
                            if mem is not None:
                                tested.add(norm(mem[1]))
        return sorted(m for m in tested if self.marks(m))

    def iteration_reach(self, srcs: Sequence[Node], removed=(), removed_edges=()) -> Set[Node]:
        """Nodes reachable within one iteration of THIS loop: exceptional edges are
        not followed and the loop header is a wall (back edges of inner loops are
        followed, so code after an inner loop is reachable from inside it)."""
        return self.g.reach(srcs, removed=list(removed) + [self.header], skip_labels=is_exc, removed_edges=removed_edges)

    def reaches_backedge(self, srcs: Sequence[Node], removed=()) -> Optional[Node]:
        """A node reachable within the iteration that has a back edge to the
        loop header (i.e. the iteration can end normally there)."""
        for n in self.iteration_reach(srcs, removed=removed):
            for (m, l) in n.succ:
                if m is self.header and is_back(l):
                    return n
        return None


def find_worklists(A: Analysis, fi: FunctionInfo) -> List[Worklist]:
    out = []
    for node in walk_local(fi.node):
        if isinstance(node, ast.While):
            w = Worklist(A, fi, node)
            if w.ok:
                out.append(w)
    return out


def check_w1(A: Analysis, rep, rule: str, inst: str, w: Worklist, memo: str, effect_pred: Callable[[Node], bool],
             root_marked: Callable[[], bool] = None) -> bool:
    """D1 or D2 must hold.  effect_pred selects the effect nodes E(L)."""
    g = w.g
    pop = w.pop_node()
    marks = w.marks(memo)
    pushes = w.pushes()
    effects = [n for n in w.nodes() if effect_pred(n)]
    if not effects:
        raise AnalysisError("%s %s: no effect site found in the loop" % (rule, inst))
    if not marks:
        rep.bad(rule, inst, w.loop, "memo %s is never marked inside the loop" % memo, key="%s|%s|nomark" % (rule, inst))
        return False

    # ---------------- D1: check-and-mark at pop
    d1_fail = None
    keys = {k for _, k in marks if any(t in k for t in w.pop_targets) or (w.stack + ".pop()") in k}
    tests = [(n, k, ns) for (n, k, ns) in w.seen_tests(memo) if k in keys]
    if not tests:
        d1_fail = "no test `k(n) in %s` on the popped node" % memo
    else:
        not_seen_edges = [(n, ns) for (n, _k, ns) in tests]
        reach = w.iteration_reach([pop], removed_edges=not_seen_edges)
        leak = [e for e in effects if e in reach]
        if leak:
            p = g.find_path(pop, leak[0], skip_labels=skip)
            d1_fail = "effect `%s` (line %s) is reachable from the pop without crossing the not-seen edge of a test on %s" % (
                norm(leak[0].ast).split("\n")[0][:70], leak[0].lineno, memo)
        else:
            for (n, k, ns) in tests:
                seen_lbl = "T" if ns == "F" else "F"
                seen_succ = [m for (m, l) in n.succ if branch_of(l) == seen_lbl and not is_back(l)]
                r = w.iteration_reach(seen_succ)
                badn = [x for x in r if x in effects or x in [m for m, _ in marks] or x in [p for p, _ in pushes]]
                if badn:
                    d1_fail = "the already-seen branch (line %s) still reaches `%s`" % (n.lineno, norm(badn[0].ast)[:60])
                    break
                ns_succ = [m for (m, l) in n.succ if branch_of(l) == ns and not is_back(l)]
                marks_k = [m for (m, kk) in marks if kk == k]
                end = w.reaches_backedge(ns_succ, removed=marks_k)
                if any(branch_of(l) == ns and is_back(l) for (m, l) in n.succ):
                    end = n
                if end is not None:
                    d1_fail = "a path from the not-seen edge (line %s) ends the iteration at line %s without marking %s" % (
                        n.lineno, end.lineno, memo)
                    break
    if d1_fail is None:
        rep.ok(rule, inst, w.loop, "D1: seen-test at pop on %s, marked before the back edge; %d effect site(s) dominated" % (memo, len(effects)))
        return True

    # ---------------- D2: check-and-mark at push
    d2_fail = None
    if not pushes:
        d2_fail = "no push"
    for (pn, call) in pushes:
        if d2_fail:
            break
        if not call.args:
            d2_fail = "push without argument"
            break
        arg = call.args[0]
        # key of the pushed successor: the element itself or its first tuple component
        cand = [w.key_text(arg)]
        if isinstance(arg, ast.Tuple) and arg.elts:
            cand.append(w.key_text(arg.elts[0]))
        cand.extend(k for (k, v) in w.mark_values(memo) if v == norm(arg))
        # a popped node pushed back (post-visit marker) is not a successor push
        if any(norm(arg) == t or (isinstance(arg, ast.Tuple) and norm(arg.elts[0]) == t) for t in w.pop_targets):
            continue
        ts = [(n, k, ns) for (n, k, ns) in w.seen_tests(memo) if k in cand]
        if not ts:
            d2_fail = "push at line %s is not guarded by a test on %s" % (pn.lineno, memo)
            break
        reach = w.iteration_reach([pop], removed_edges=[(n, ns) for n, _k, ns in ts])
        if pn in reach:
            d2_fail = "push at line %s is reachable without the not-seen edge" % pn.lineno
            break
        ok_mark = False
        for (n, k, ns) in ts:
            marks_k = [m for (m, kk) in marks if kk == k]
            ns_succ = [m for (m, l) in n.succ if branch_of(l) == ns and not is_back(l)]
            others = [p for (p, _c) in pushes if p is not pn]
            r = w.iteration_reach(ns_succ, removed=marks_k)
            if not any(x in others for x in r) and w.reaches_backedge(ns_succ, removed=marks_k) is None:
                ok_mark = True
        if not ok_mark:
            d2_fail = "pushed node (line %s) is not marked in %s before the next push / back edge" % (pn.lineno, memo)
    if d2_fail is None and any((t in k) for _, k in marks for t in w.pop_targets):
        d2_fail = "memo is (also) marked with the popped node after the pop — mixed discipline"
    if d2_fail is None and root_marked is not None and not root_marked():
        d2_fail = "root is not marked before the loop"
    if d2_fail is None:
        rep.ok(rule, inst, w.loop, "D2: every push guarded by and marked in %s" % memo)
        return True
    rep.bad(rule, inst, w.loop,
            "neither discipline holds — D1: %s; D2: %s. A node reachable along two paths (r→{a,b}, a→b) can sit on `%s` twice."
            % (d1_fail, d2_fail, w.stack), key="%s|%s" % (rule, inst))
    return False
