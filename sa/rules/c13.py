"""C13 — gc removes exactly the unrecorded experiment outputs."""
from . import fs, vindex as V

META = {
    "explanation": "Guard of the deletion-candidate list (GC1: experiment pattern matched ∧ (identifier, timestamp) not in the full recorded "
                   "set), never descending into task directories (GC2), no-follow walk (GC3), dry-run (GC4), exact language of the two "
                   "directory patterns (RX1), all_versions has no WHERE (SQL2).",
    "rules": ["GC1", "GC2", "GC3", "GC4", "RX1", "SQL2"],
    "assumptions": ["races with a concurrent cond run are outside the property"],
    "trusted": ["ast parser", "re._parser", "SQL subset reader"],
}


def run(A, rep, tier):
    fs.rule_gc(A, rep)
    Q = V.queries(A)
    q = Q.get("all_versions")
    rep.check(q is not None and V._sel(q, V.COLS4), "SQL2", "all_versions has no WHERE", None, "every recorded version is protected", "all_versions is %s" % q)
    V.rule_vi2(A, rep, Q)
