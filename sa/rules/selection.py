"""C05 rules: GIT1, SEL1, ATL1, ONE1, FLG1 (cached-result selection)."""
from __future__ import annotations

import ast
import itertools
from typing import Callable, Dict, List, Optional, Sequence, Set, Tuple

from ..analysis import Analysis, fmt_conj
from ..cfg import branch_of, is_back, is_exc
from ..model import AnalysisError, norm, walk_local

RUNX = "task_types.run.RunExperiment."


def skip(l):
    return is_exc(l) or is_back(l)


def _stmt_of(node):
    n = node
    while not isinstance(n, ast.stmt):
        n = n._parent
    return n


def truth_table(pairs: List[Tuple[frozenset, object]], var_of: Dict[str, str], ref: Callable[[Dict[str, bool]], object],
                consistent: Callable[[Dict[str, bool]], bool] = lambda a: True) -> Tuple[Optional[str], int]:
    """pairs: (conjunction of atoms, outcome).  var_of maps atom text -> variable
    name.  Compares the implemented decision with `ref` on every consistent
    assignment; returns (mismatch description | None, assignments checked)."""
    for conj, _ in pairs:
        for (a, _pol) in conj:
            if a not in var_of:
                return ("unrecognised condition `%s`" % a, 0)
    names = sorted(set(var_of.values()))
    n = 0
    for bits in itertools.product([False, True], repeat=len(names)):
        asg = dict(zip(names, bits))
        if not consistent(asg):
            continue
        n += 1
        outs = {val for conj, val in pairs if all(asg[var_of[a]] == pol for a, pol in conj)}
        want = ref(asg)
        if outs != {want}:
            return ("for %s the code yields %s, the documented rule %s" % (
                ", ".join("%s=%s" % kv for kv in sorted(asg.items())), sorted(map(str, outs)) or "nothing", want), n)
    return (None, n)


def _key_is_timestamp(A: Analysis, fi, key) -> bool:
    """`key=` orders by the version's timestamp: a lambda, a one-line function of the project, or attrgetter."""
    if key is None:
        return False
    if isinstance(key, ast.Lambda) and len(key.args.args) == 1:
        return norm(key.body) == "%s.timestamp" % key.args.args[0].arg
    if isinstance(key, ast.Call) and norm(key.func) in ("operator.attrgetter", "attrgetter") and len(key.args) == 1:
        return norm(key.args[0]) == "'timestamp'"
    if isinstance(key, ast.Name):
        f = A.prog.functions.get("%s.%s" % (fi.module.name, key.id))
        if f is not None and len(f.params) == 1:
            body = [b for b in f.node.body if not (isinstance(b, ast.Expr) and isinstance(b.value, ast.Constant))]
            return len(body) == 1 and isinstance(body[0], ast.Return) and body[0].value is not None and norm(body[0].value) == "%s.timestamp" % f.params[0]
    return False


# --------------------------------------------------------------------------- GIT1
def _classify(A: Analysis, fi, e: ast.expr) -> str:
    # a closure variable of a nested function is defined in the enclosing function
    if isinstance(e, ast.Name) and fi.parent is not None and e.id not in fi.params and not A.defs(fi, e.id):
        return _classify(A, fi.parent, e)
    if isinstance(e, ast.Name) and A.single_def_value(fi, e.id) is None and e.id not in fi.params:
        vals = [d.value for d in A.defs(fi, e.id) if isinstance(d, (ast.Assign, ast.AnnAssign)) and d.value is not None
                and not (isinstance(d.value, ast.Constant) and d.value.value is None)]
        kinds = {_classify(A, fi, v) for v in vals}
        if len(kinds) == 1:
            return kinds.pop()
    ex = A.expand(e, fi)

    class DropNone(ast.NodeTransformer):
        # `(X if c else None).attr` is only evaluated when the value is X
        def visit_Attribute(self, n):
            self.generic_visit(n)
            if isinstance(n.value, ast.IfExp):
                b, o = n.value.body, n.value.orelse
                if isinstance(o, ast.Constant) and o.value is None:
                    n.value = b
                elif isinstance(b, ast.Constant) and b.value is None:
                    n.value = o
            return n
    tx = norm(DropNone().visit(ex))
    if tx.endswith(".current_commit.hash"):
        bt = tx[: -len(".current_commit.hash")]
        return "HEAD"
    if tx.endswith(".commit_hash"):
        base = e.value if isinstance(e, ast.Attribute) else None
        bt = A.res.type_of(base, fi) if base is not None else None
        if bt is not None and bt[0].endswith("version_index.Version"):
            return "VERSION"
        owners = {f.cls.fq for f in A.prog.scan_functions if f.cls is not None and f.name == "commit_hash"}
        if owners == {"conductor.execution.version_index.Version"}:
            return "VERSION"  # the attribute exists on Version only
        return "VERSION?"
    if tx == "at_least_commit":
        return "ATLEAST"
    if ".rev_parse(" in tx:
        return "ATLEAST"
    return "?(%s)" % tx


def rule_git1(A: Analysis, rep):
    isa = A.fn("utils.git.Git.is_ancestor")
    dist = A.fn("utils.git.Git.get_distance")
    want = {
        ("conductor.task_types.run.RunExperiment._retrieve_most_relevant_existing_version", "is_ancestor"): {"commit_hash": "HEAD", "candidate_ancestor_hash": "VERSION"},
        ("conductor.task_types.run.RunExperiment._retrieve_most_relevant_existing_version", "get_distance"): {"start_hash": "HEAD", "ancestor_hash": "VERSION"},
        ("conductor.task_types.run.RunExperiment.should_run", "is_ancestor"): {"commit_hash": "ATLEAST", "candidate_ancestor_hash": "VERSION"},
        ("conductor.cli.run.main", "is_ancestor"): {"commit_hash": "HEAD", "candidate_ancestor_hash": "ATLEAST"},
    }
    seen = set()
    for callee, name in ((isa, "is_ancestor"), (dist, "get_distance")):
        for (f, c) in A.all_calls_to("Git." + name, exclude_pkgs=("conductor.envs", "conductor.explorer")):
            b = A.bind_args(c, callee)
            roles = {k: _classify(A, f, v) for k, v in b.items()}
            key = (f.fq, name)
            top = f
            while top.parent is not None:      # a nested helper (sort key, predicate) belongs to its enclosing function
                top = top.parent
            key = (top.fq, name)
            seen.add(key)
            w = want.get(key)
            if w is None:
                rep.bad("GIT1", "%s in %s" % (name, f.fq.rsplit(".", 1)[1]), c, "unexpected git ancestry call with roles %s" % roles)
                continue
            rep.check(roles == w, "GIT1", "%s roles in %s" % (name, f.fq.rsplit(".", 1)[1]), c, "arguments bound as %s" % roles,
                      "%s(%s): expected %s — a swapped pair selects descendants instead of ancestors" % (
                          name, ", ".join("%s=%s" % kv for kv in sorted(roles.items())), ", ".join("%s=%s" % kv for kv in sorted(w.items()))))
    for key in want:
        if key not in seen:
            rep.bad("GIT1", "%s in %s" % (key[1], key[0].rsplit(".", 1)[1]), None, "the documented ancestry test is no longer performed there")
    # argv of the git commands
    def argv(fn, cmd) -> Optional[List[str]]:
        for c in walk_local(fn.node):
            if isinstance(c, ast.Call) and norm(c.func) == "subprocess.run" and c.args and isinstance(c.args[0], ast.List):
                return [norm(x) for x in c.args[0].elts]
        return None
    a = argv(isa, "merge-base")
    rep.check(a == ["'git'", "'merge-base'", "'--is-ancestor'", isa.params[2], isa.params[1]], "GIT1", "merge-base --is-ancestor <ancestor> <commit>", isa.node,
              "", "is_ancestor runs %s" % a)
    r = [x for x in walk_local(isa.node) if isinstance(x, ast.Return)]
    rep.check(len(r) == 1 and norm(r[0].value).endswith(".returncode == 0"), "GIT1", "ancestor iff exit 0", isa.node, "", "is_ancestor's verdict is not `returncode == 0`")
    # is_used: the project "uses git" exactly when `git rev-parse --git-dir`, run in the project root, succeeds (git
    # itself searches the parent directories: a project below the repository's top level is still under git)
    iu = A.fn("utils.git.Git.is_used")
    a_u = argv(iu, "rev-parse")
    rv_u = A.ret_values(iu)
    ok_u = a_u == ["'git'", "'rev-parse'", "'--git-dir'"] and bool(rv_u) and all(not c and v.endswith(".returncode == 0") for c, v in rv_u)
    rep.check(ok_u, "GIT1", "uses-git = `git rev-parse --git-dir` succeeds", iu.node, "every return of is_used() is that command's verdict, unconditionally",
              "is_used() returns %s" % [(fmt_conj(c), v[:60]) for c, v in rv_u])
    a = argv(dist, "rev-list")
    rep.check(_revlist_counts_start_minus_ancestor(dist, dist.params[1], dist.params[2]), "GIT1", "rev-list --count <start> ^<ancestor>", dist.node,
              "the only flag is --count and the revision arguments denote `reachable from <start>, not from <ancestor>` (`<start> ^<ancestor>` in either order, or `<ancestor>..<start>`)",
              "get_distance runs %s" % a)
    r = [x for x in walk_local(dist.node) if isinstance(x, ast.Return)]
    rep.check(len(r) == 1 and norm(r[0].value) == "int(result.stdout.strip())", "GIT1", "distance = printed count", dist.node, "", "get_distance does not return the count printed by git")
    rep.expect_min("GIT1", 8)


def _revlist_counts_start_minus_ancestor(fn, start: str, anc: str) -> bool:
    """GIT1: the argv of get_distance is `git rev-list` + exactly the flag `--count` + revision arguments that denote
    the set (reachable from start) minus (reachable from ancestor): `start ^anc` in either order, or `anc..start`
    (git-rev-list(1): `A..B` is shorthand for `^A B`).  Any other flag (`--ancestry-path`, `--first-parent`,
    `--no-merges`, …) changes the set that is counted."""
    from ..analysis import strparts
    for c in walk_local(fn.node):
        if isinstance(c, ast.Call) and norm(c.func) == "subprocess.run" and c.args and isinstance(c.args[0], ast.List):
            elts = c.args[0].elts
            break
    else:
        return False
    if len(elts) < 3 or [norm(x) for x in elts[:2]] != ["'git'", "'rev-list'"]:
        return False

    def unstr(p: str) -> str:
        return p[4:-1] if p.startswith("str(") and p.endswith(")") else p
    flags, revs = [], set()
    for e in elts[2:]:
        p = strparts(e) if not isinstance(e, ast.Name) else [e.id]
        if p is None:
            return False
        p = [unstr(x) for x in p]
        if len(p) == 1 and p[0].startswith("'-"):
            flags.append(p[0])
        elif p == [start]:
            revs.add("+start")
        elif p == ["'^'", anc]:
            revs.add("-anc")
        elif p == [anc, "'..'", start]:
            revs.update(("+start", "-anc"))
        else:
            return False
    return flags == ["'--count'"] and revs == {"+start", "-anc"}


# --------------------------------------------------------------------------- SEL1
def _sel1_comprehension_form(A: Analysis, rep, fi, g, ctx, rets) -> bool:
    """SEL1 (b)–(e) when the candidates are built by comprehensions and the choice is `min(candidates, key=K)` with
    K(v) = (distance from HEAD, -timestamp).  Returns False when the function is not of that form."""
    allq = "%s.version_index.get_all_versions_for_task(self._identifier)" % ctx
    comps = {}
    for st in walk_local(fi.node):
        if isinstance(st, (ast.Assign, ast.AnnAssign)) and isinstance(st.value, ast.ListComp) and len(st.value.generators) == 1:
            gen = st.value.generators[0]
            tg = st.targets[0] if isinstance(st, ast.Assign) else st.target
            if isinstance(tg, ast.Name) and isinstance(gen.target, ast.Name) and A.xtext(gen.iter, fi) == allq and norm(st.value.elt) == gen.target.id:
                cond = ast.BoolOp(op=ast.And(), values=list(gen.ifs)) if len(gen.ifs) > 1 else (gen.ifs[0] if gen.ifs else ast.Constant(value=True))
                comps[tg.id] = (gen.target.id, A.dnf(cond, True, fi, inline=False), st)
    anc = [k for k, (v, d, _s) in comps.items() if any(any("is_ancestor" in a for a, _p in c) for c in d)]
    nul = [k for k, (v, d, _s) in comps.items() if d == [frozenset({("none(%s.commit_hash)" % v, True)})]]
    if len(anc) != 1 or len(nul) != 1:
        return False
    anc_l, nul_l = anc[0], nul[0]
    v, d, st_anc = comps[anc_l]
    ok_b = len(d) == 1 and ("none(%s.commit_hash)" % v, False) in d[0] and len(d[0]) == 2 and all(pol for a, pol in d[0] if "is_ancestor" in a)
    rep.check(ok_b, "SEL1", "(b) ancestor candidates", st_anc, "a version is a candidate only if its commit is non-null and an ancestor of HEAD; null-commit versions are kept apart",
              "candidate classification is %s" % {k: [fmt_conj(c) for c in dd] for k, (_v, dd, _s) in comps.items()})
    # (c) min(candidates, key=K), K(v) = (get_distance(HEAD, v.commit_hash), -v.timestamp): closest first, newest among the
    # closest (min keeps the first of equal keys, like the strict comparisons of the loop form)
    sr = [n for n in rets if isinstance(n.ast.value, ast.Call) and norm(n.ast.value.func) == "min" and n.ast.value.args and norm(n.ast.value.args[0]) == anc_l]
    ok_c = False
    det = "no `min(%s, key=...)` return" % anc_l
    if len(sr) == 1:
        key = A.kw(sr[0].ast.value, "key")
        body, var = None, None
        if isinstance(key, ast.Lambda) and len(key.args.args) == 1:
            body, var = key.body, key.args.args[0].arg
        elif isinstance(key, ast.Name) and key.id in fi.nested:
            kf = fi.nested[key.id]
            rr = [x for x in walk_local(kf.node) if isinstance(x, ast.Return)]
            if len(rr) == 1 and len(kf.params) == 1:
                body, var = rr[0].value, kf.params[0]
        if isinstance(body, ast.Tuple) and len(body.elts) == 2:
            d0, d1 = body.elts
            ok_c = isinstance(d0, ast.Call) and A.res.is_call_to(d0, "Git.get_distance") and norm(d1) == "-%s.timestamp" % var and \
                any(norm(a_) == "%s.commit_hash" % var for a_ in list(d0.args) + [k.value for k in d0.keywords])
            det = "key is `%s`" % norm(body)
    rep.check(ok_c, "SEL1", "(c) closest ancestor, newest on ties", sr[0].ast if sr else fi.node,
              "min over (distance, -timestamp): the closest candidate, the newest among equally close ones", det)
    gs = [c for n in sr for c in A.path_guards(g, g.entry, n, fi)]
    rep.check(bool(sr) and all(("empty(%s)" % anc_l, False) in c for c in gs), "SEL1", "(c') returned when a candidate exists", fi.node, "",
              "the selected ancestor version is not returned under `len(candidates) > 0`")
    # (d) fallback
    fb = [n for n in rets if isinstance(n.ast.value, ast.Call) and norm(n.ast.value.func) == "max"]
    ok_d = False
    det = "no `max(null-commit versions, key=timestamp)` return"
    if len(fb) == 1:
        c = fb[0].ast.value
        key = A.kw(c, "key")
        ok_d = len(c.args) == 1 and norm(c.args[0]) == nul_l and _key_is_timestamp(A, fi, key)
        gs = A.path_guards(g, g.entry, fb[0], fi)
        evs = {norm(comps[nul_l][2].value.generators[0].iter)}
        ok_g = bool(gs) and all(any(("eq(len(%s),len(%s))" % tuple(sorted([ev, nul_l])), True) in cj for ev in evs) and ("empty(%s)" % nul_l, False) in cj and ("empty(%s)" % anc_l, True) in cj for cj in gs)
        ok_d = ok_d and ok_g
        det = "fallback guard [%s]" % " | ".join(fmt_conj(cj) for cj in gs)
    rep.check(ok_d, "SEL1", "(d) null-commit fallback", fi.node, "newest version only when no version carries a commit", det)
    last = [n for n in rets if n.ast.value is None or norm(n.ast.value) == "None"]
    rep.check(bool(last), "SEL1", "(e) otherwise nothing is reused", fi.node, "", "the final fall-through does not return None (a non-ancestor version could be reused)")
    return True


def rule_sel1(A: Analysis, rep):
    fi = A.fn(RUNX + "_retrieve_most_relevant_existing_version")
    g = A.cfg(fi, "plain")
    ctx = fi.params[1]
    rets = [n for n in g.nodes if n.kind == "stmt" and isinstance(n.ast, ast.Return)]
    latest = "%s.version_index.get_latest_output_version(self._identifier)" % ctx

    def rtext(n):
        return A.xtext(n.ast.value, fi) if n.ast.value is not None else "None"
    # (a) no git / no commits -> newest
    a_rets = [n for n in rets if rtext(n) == latest]
    conds = []
    A.split_none_tests = True     # `x is None` with x = (a if c else None) is read as (c and a is None) or not c
    try:
        for n in a_rets:
            for c in A.path_guards(g, g.entry, n, fi):
                conds.append(c)
    finally:
        A.split_none_tests = False
    from ..analysis import _simplify
    conds = _simplify(conds)
    head = "%s.current_commit" % ctx
    for nm in {n.id for n in ast.walk(fi.node) if isinstance(n, ast.Name)}:
        v = A.single_def_value(fi, nm)
        if v is not None and norm(v) == "%s.current_commit" % ctx:
            head = nm
    want_a = [frozenset({("t(%s.uses_git)" % ctx, False)}), frozenset({("t(%s.uses_git)" % ctx, True), ("none(%s)" % head, True)})]
    rep.check(sorted(map(sorted, conds)) == sorted(map(sorted, want_a)), "SEL1", "(a) no git or no commits ⇒ newest version", fi.node,
              "returns get_latest_output_version exactly when git is unused or HEAD does not exist",
              "the newest-version shortcut is taken under [%s]" % " | ".join(fmt_conj(c) for c in conds))
    # (b) classification loop
    loops = [l for l in walk_local(fi.node) if isinstance(l, ast.For)]
    cl = [l for l in loops if A.xtext(l.iter, fi) == "%s.version_index.get_all_versions_for_task(self._identifier)" % ctx]
    if len(cl) != 1:
        if _sel1_comprehension_form(A, rep, fi, g, ctx, rets):
            return
        rep.bad("SEL1", "(b) classification loop", fi.node, "no loop over all recorded versions of this task")
        return
    cl = cl[0]
    v = norm(cl.target)
    hdr = [n for n in g.nodes if n.kind == "for" and n.ast is cl][0]
    apps = {}
    for n in g.nodes:
        if n.kind == "stmt" and isinstance(n.ast, ast.Expr) and isinstance(n.ast.value, ast.Call) and isinstance(n.ast.value.func, ast.Attribute) \
                and n.ast.value.func.attr == "append" and id(n.ast) in {id(x) for x in ast.walk(cl)} and norm(n.ast.value.args[0]) == v:
            apps[norm(n.ast.value.func.value)] = A.path_guards(g, hdr, n, fi)
    anc = [k for k, gs in apps.items() if any(any("is_ancestor" in a for a, _ in c) for c in gs)]
    nul = [k for k, gs in apps.items() if gs == [frozenset({("none(%s.commit_hash)" % v, True)})]]
    ok_b = len(anc) == 1 and len(nul) == 1 and len(apps) == 2
    if ok_b:
        gs = apps[anc[0]]
        ok_b = len(gs) == 1 and ("none(%s.commit_hash)" % v, False) in gs[0] and len(gs[0]) == 2 and all(pol for a, pol in gs[0] if "is_ancestor" in a)
    rep.check(ok_b, "SEL1", "(b) ancestor candidates", cl, "a version is a candidate only if its commit is non-null and an ancestor of HEAD; null-commit versions are kept apart",
              "candidate classification is %s" % {k: [fmt_conj(c) for c in gs] for k, gs in apps.items()})
    if not ok_b:
        return
    anc_l, nul_l = anc[0], nul[0]
    # (c) choice among candidates
    sl = [l for l in loops if norm(l.iter) == anc_l]
    if len(sl) != 1:
        rep.bad("SEL1", "(c) closest ancestor, newest on ties", fi.node, "no selection loop over the ancestor candidates (unrecognised idiom)")
    else:
        sl = sl[0]
        x = norm(sl.target)
        h2 = [n for n in g.nodes if n.kind == "for" and n.ast is sl][0]
        dist_defs = [d for d in A.defs(fi, "dist") if isinstance(d, ast.Assign)]
        sel_assign = [n for n in g.nodes if n.kind == "stmt" and isinstance(n.ast, ast.Assign) and id(n.ast) in {id(y) for y in ast.walk(sl)}
                      and norm(n.ast.value) == x]
        sel_names = {norm(n.ast.targets[0]) for n in sel_assign}
        ok_c = len(sel_names) == 1
        det = "selection variable(s) %s" % sorted(sel_names)
        if ok_c:
            sel = sel_names.pop()
            # distance variable
            dvars = [norm(d.targets[0]) for d in A.defs(fi, "dist")] if dist_defs else []
            dv = None
            for st in sl.body:
                if isinstance(st, ast.Assign) and isinstance(st.value, ast.Call) and A.res.is_call_to(st.value, "Git.get_distance"):
                    dv = norm(st.targets[0])
            closest = None
            for n in g.nodes:
                if n.kind == "stmt" and isinstance(n.ast, ast.Assign) and id(n.ast) in {id(y) for y in ast.walk(sl)} and dv is not None and norm(n.ast.value) == dv:
                    closest = norm(n.ast.targets[0])
            pairs = []
            for n in sel_assign:
                for c in A.path_guards(g, h2, n, fi):
                    pairs.append((c, "update"))
            # paths that reach the back edge without updating
            upd = set(sel_assign)
            body_entry = [m for (m, l) in h2.succ if l == "T"]
            from ..analysis import _and_all
            for path in g.enum_paths(body_entry[0], {h2}, skip_labels=is_exc):
                if any(pn in upd for pn, _ in path):
                    continue
                conj = [frozenset()]
                for (pn, lbl) in path:
                    if pn.kind == "test" and branch_of(lbl):
                        conj = _and_all([conj, A.dnf(pn.ast, branch_of(lbl) == "T", fi)])
                for c in conj:
                    pairs.append((c, "keep"))
            var_of = {"none(%s)" % sel: "none", "lt(%s,%s)" % (dv, closest): "closer", "eq(%s,%s)" % tuple(sorted([str(dv), str(closest)])): "same",
                      "lt(%s.timestamp,%s.timestamp)" % (sel, x): "newer"}
            ref = lambda a: "update" if (a["none"] or a["closer"] or (a["same"] and a["newer"])) else "keep"
            mism, n_asg = truth_table(pairs, var_of, ref, consistent=lambda a: not (a["closer"] and a["same"]))
            ok_c = mism is None and closest is not None
            det = mism or "closest-distance variable not updated"
            # closest updated together with a distance-based update
            if ok_c:
                for n in sel_assign:
                    gs = A.path_guards(g, h2, n, fi)
                    by_dist = any(("none(%s)" % sel, True) in c or ("lt(%s,%s)" % (dv, closest), True) in c for c in gs)
                    if by_dist:
                        nxt = [m for m in g.reach([n], skip_labels=skip) if m.kind == "stmt" and isinstance(m.ast, ast.Assign) and norm(m.ast.targets[0]) == closest and norm(m.ast.value) == dv]
                        if not nxt:
                            ok_c, det = False, "closest distance is not updated when a closer version is selected"
            rep.check(ok_c, "SEL1", "(c) closest ancestor, newest on ties", sl,
                      "update iff first ∨ strictly closer ∨ (equally close ∧ newer) — compared on %d condition assignments" % n_asg, det)
        else:
            rep.bad("SEL1", "(c) closest ancestor, newest on ties", sl, det)
        # returned under len(ancestors) > 0
        sr = [n for n in rets if ok_c and norm(n.ast.value) == sel]
        gs = [c for n in sr for c in A.path_guards(g, g.entry, n, fi)]
        rep.check(bool(sr) and all(("empty(%s)" % anc_l, False) in c for c in gs), "SEL1", "(c') returned when a candidate exists", fi.node, "",
                  "the selected ancestor version is not returned under `len(candidates) > 0`")
    # (d) fallback
    allv = A.xtext(cl.iter, fi)
    fb = [n for n in rets if isinstance(n.ast.value, ast.Call) and norm(n.ast.value.func) == "max"]
    ok_d = False
    det = "no `max(null-commit versions, key=timestamp)` return"
    if len(fb) == 1:
        c = fb[0].ast.value
        key = A.kw(c, "key")
        ok_d = len(c.args) == 1 and norm(c.args[0]) == nul_l and _key_is_timestamp(A, fi, key)
        gs = A.path_guards(g, g.entry, fb[0], fi)
        ev = norm(cl.iter)
        need = {("eq(len(%s),len(%s))" % tuple(sorted([ev, nul_l])), True), ("empty(%s)" % nul_l, False), ("empty(%s)" % anc_l, True)}
        alt = {("eq(len(%s),len(%s))" % tuple(sorted([ev, nul_l])), True), ("empty(%s)" % nul_l, False)}
        ok_d = ok_d and bool(gs) and all(need <= set(cj) for cj in gs)
        det = "fallback guard [%s]" % " | ".join(fmt_conj(cj) for cj in gs)
    rep.check(ok_d, "SEL1", "(d) null-commit fallback", fi.node, "newest version only when no version carries a commit", det)
    # (e) last return None
    # every way out of the function is a `return`, and besides the three documented choices only `None` is returned
    falls = [m for (m, lb) in g.exit.pred if lb != "ret" and not is_exc(lb)]
    none_rets = [n for n in rets if n.ast.value is None or norm(n.ast.value) == "None"]
    sel_name = locals().get("sel")
    other = [n for n in rets if n not in none_rets and n not in a_rets and not (isinstance(n.ast.value, ast.Call) and norm(n.ast.value.func) == "max")
             and not (sel_name is not None and norm(n.ast.value) == sel_name)]
    rep.check(bool(none_rets) and not falls and not other, "SEL1", "(e) otherwise nothing is reused", fi.node,
              "", "the final fall-through does not return None (a non-ancestor version could be reused)")
    rep.expect_min("SEL1", 5)


# --------------------------------------------------------------------------- ATL1
def rule_atl1(A: Analysis, rep):
    fi = A.fn(RUNX + "should_run")
    g = A.cfg(fi, "plain")
    alc = fi.params[2]
    mrv = "self._most_relevant_version"
    rets = [n for n in g.nodes if n.kind == "stmt" and isinstance(n.ast, ast.Return)]
    pairs = []
    for n in rets:
        val = norm(n.ast.value)
        if val not in ("True", "False"):
            rep.bad("ATL1", "at-least decision", n.ast, "should_run returns `%s` (unrecognised)" % val)
            return
        for c in A.path_guards(g, g.entry, n, fi, xstop=[]):
            pairs.append((c, val == "True"))
    anc_atoms = [a for c, _ in pairs for a, _p in c if "is_ancestor(" in a]
    var_of = {"none(%s)" % mrv: "none", "none(%s)" % alc: "noflag", "none(%s.commit_hash)" % mrv: "nullcommit",
              "eq(%s,%s)" % tuple(sorted([alc, mrv + ".commit_hash"])): "same"}
    for a in anc_atoms:
        var_of[a] = "older"

    def ref(a):
        if a["none"]:
            return True
        if a["noflag"]:
            return False
        if a["nullcommit"]:
            return True
        if a["same"]:
            return False
        return a["older"]
    if "older" not in var_of.values():
        rep.bad("ATL1", "at-least decision", fi.node, "should_run no longer consults git ancestry for --at-least")
        return
    # `flag == commit_hash` with exactly one of the two None is not a state: x == y ∧ x is None ⇒ y is None
    mism, n_asg = truth_table(pairs, var_of, ref, consistent=lambda a: not (a["same"] and a["noflag"] != a["nullcommit"]))
    rep.check(mism is None, "ATL1", "at-least decision", fi.node,
              "run iff no version ∨ (flag ∧ (null commit ∨ (≠ commit ∧ version is a strict ancestor))) — compared on %d assignments" % n_asg, mism or "")
    # ensure precedes, memo invalidated on the re-run path
    ens = [n for n in g.nodes if n.kind == "stmt" and A.calls_in(n.ast, "RunExperiment._ensure_most_relevant_existing_version_computed")]
    # … including every local copy of the selected version that the decision reads
    aliases = [n for n in g.nodes if n.kind == "stmt" and isinstance(n.ast, (ast.Assign, ast.AnnAssign)) and n.ast.value is not None and mrv in norm(n.ast.value)
               and not norm(n.ast.targets[0] if isinstance(n.ast, ast.Assign) else n.ast.target).startswith("self.")]
    rep.check(bool(ens) and all(g.all_paths_pass(g.entry, r, ens, skip_labels=skip) for r in rets + aliases), "ATL1", "selection computed first", fi.node, "",
              "should_run decides (or copies the selected version) before the most relevant version was computed")
    inval = [n for n in g.nodes if n.kind == "stmt" and norm(n.ast) == "self._did_retrieve_version = False"]
    ok = False
    if inval:
        gs = A.path_guards(g, g.entry, inval[0], fi, xstop=[])
        ok = all(any("is_ancestor(" in a and p for a, p in c) for c in gs) and bool(gs)
    rep.check(ok, "ATL1", "memo invalidated when re-running for --at-least", fi.node, "", "the stale selection is not invalidated on the re-run path")


# --------------------------------------------------------------------------- ONE1
def rule_one1(A: Analysis, rep):
    callers = sorted({f.fq.rsplit(".", 1)[1] for (f, c) in A.all_calls_to("RunExperiment._retrieve_most_relevant_existing_version")})
    rep.check(callers == ["_ensure_most_relevant_existing_version_computed"], "ONE1", "single selector", None, "", "selection is computed by %s" % callers)
    for q in ("get_latest_output_version", "get_all_versions_for_task"):
        cs = sorted({f.fq.rsplit(".", 1)[1] for (f, c) in A.all_calls_to("VersionIndex." + q, exclude_pkgs=("conductor.explorer",))})
        rep.check(cs == ["_retrieve_most_relevant_existing_version"], "ONE1", "only the selector queries versions (%s)" % q, None, "", "%s is called by %s" % (q, cs))
    ens = A.fn(RUNX + "_ensure_most_relevant_existing_version_computed")
    ctx = ens.params[1]
    # memoised: the selector runs, and its result and the flag are stored, exactly when the flag was not set
    ge = A.cfg(ens, "plain")
    sel_n = [n for n in ge.nodes if n.kind == "stmt" and A.calls_in(n.ast, "RunExperiment._retrieve_most_relevant_existing_version")]
    st_v = [n for n in ge.nodes if n.kind == "stmt" and isinstance(n.ast, ast.Assign) and norm(n.ast.targets[0]) == "self._most_relevant_version"]
    st_f = [n for n in ge.nodes if n.kind == "stmt" and isinstance(n.ast, ast.Assign) and norm(n.ast.targets[0]) == "self._did_retrieve_version" and norm(n.ast.value) == "True"]
    want_g = [frozenset({("t(self._did_retrieve_version)", False)})]
    ok = len(sel_n) == 1 and len(st_v) == 1 and len(st_f) == 1 and all(A.path_guards(ge, ge.entry, n, ens) == want_g for n in sel_n + st_v + st_f)
    if ok:
        vals = {v for _c, v in A.rvalues(ens, st_v[0].ast.value, st_v[0], ge, keep=lambda a: False, calls=True)}
        ok = vals == {"self._retrieve_most_relevant_existing_version(%s)" % ctx} and ge.all_paths_pass(sel_n[0], ge.exit, st_f, skip_labels=skip)
    rep.check(ok, "ONE1", "memoised once", ens.node, "", "_ensure_…_computed no longer memoises the selector's result")
    stores = sorted({f.name for (f, _s, _v) in A.field_stores("conductor.task_types.run.RunExperiment", "_most_relevant_version")})
    rep.check(stores == ["__init__", "_ensure_most_relevant_existing_version_computed", "create_new_version"], "ONE1", "writers of the selection", None, "",
              "_most_relevant_version is written in %s" % stores)
    gp = A.fn(RUNX + "get_output_path")
    g = A.cfg(gp, "plain")
    en = [n for n in g.nodes if n.kind == "stmt" and A.calls_in(n.ast, "RunExperiment._ensure_most_relevant_existing_version_computed")]
    reads = [n for n in g.nodes if n.kind in ("stmt", "test") and n.ast is not None and "self._most_relevant_version" in norm(n.ast)]
    rep.check(bool(en) and all(g.all_paths_pass(g.entry, r, en, skip_labels=skip) for r in reads) and bool(reads), "ONE1", "get_output_path reads the selection", gp.node, "",
              "get_output_path reads the version before it was selected")
    r = [x for x in walk_local(gp.node) if isinstance(x, ast.Return) and x.value is not None and "with_name" in norm(x.value)]
    rep.check(len(r) == 1 and A.xtext(r[0].value, gp, stop=["unversioned_path"]) == "unversioned_path.with_name(f.task_output_dir(self.identifier, self._most_relevant_version))", "ONE1", "path of the selected version", gp.node,
              "", "get_output_path does not name the selected version's directory")
    wh = A.fn("lib.path.where")
    ok = any(isinstance(c, ast.Call) and A.res.is_call_to(c, "TaskType.get_output_path") for c in walk_local(wh.node))
    rep.check(ok, "ONE1", "`cond where` uses get_output_path", wh.node, "", "where() does not ask the task for its output path")
    rep.expect_min("ONE1", 7)


def A_inline(A, fi) -> List[str]:
    out = []
    for s in fi.node.body:
        if isinstance(s, ast.Assign) and isinstance(s.targets[0], ast.Attribute):
            out.append("%s = %s" % (norm(s.targets[0]), A.xtext(s.value, fi)))
    return out


# --------------------------------------------------------------------------- FLG1
def rule_flg1(A: Analysis, rep):
    va = A.fn("cli.run.validate_args")
    g = A.cfg(va, "plain")
    args, ctx = va.params[0], va.params[1]
    pairs = [(c, "ok") for c in A.path_guards(g, g.entry, g.exit, va)]
    for n in g.nodes:
        if n.kind == "stmt" and isinstance(n.ast, ast.Raise):
            for c in A.path_guards(g, g.entry, n, va):
                pairs.append((c, "raise"))
    var_of = {"t(%s.this_commit)" % args: "this", "none(%s.at_least)" % args: "no_atleast", "t(%s.again)" % args: "again",
              "t(%s.uses_git)" % ctx: "git", "none(%s.current_commit)" % ctx: "nocommit"}

    def ref(a):
        forc = a["this"] or not a["no_atleast"]
        if a["this"] and not a["no_atleast"]:
            return "raise"
        if a["again"] and forc:
            return "raise"
        if forc and (not a["git"] or a["nocommit"]):
            return "raise"
        return "ok"
    mism, n_asg = truth_table(pairs, var_of, ref)
    rep.check(mism is None, "FLG1", "flag validation", va.node, "rejects both commit flags, --again with a commit flag, commit flags without git/commits (%d assignments)" % n_asg, mism or "")
    rm = A.fn("cli.run.main")
    g = A.cfg(rm, "plain")
    val = [n for n in g.nodes if n.kind == "stmt" and A.calls_in(n.ast, "conductor.cli.run.validate_args")]
    plan = [n for n in g.nodes if n.kind == "stmt" and A.calls_in(n.ast, "ExecutionPlanner.create_plan_for")]
    rep.check(bool(val) and bool(plan) and all(g.all_paths_pass(g.entry, p, val, skip_labels=skip) for p in plan), "FLG1", "validated before planning", rm.node, "",
              "the plan is created without the flags having been validated")
    if plan:
        c = A.calls_in(plan[0].ast, "ExecutionPlanner.create_plan_for")[0]
        ra, al = A.kw(c, "run_again"), A.kw(c, "at_least_commit")
        rep.check(ra is not None and norm(ra) == "args.again" and al is not None and norm(al) == "commit", "FLG1", "flags reach the planner", c, "",
                  "create_plan_for(run_again=%s, at_least_commit=%s)" % (norm(ra) if ra else "?", norm(al) if al else "?"))
    # commit := rev_parse(at_least or HEAD) under (this_commit or at_least), None otherwise; not-an-ancestor raises
    # commit := rev_parse(at_least or "HEAD") when a commit flag is given, None otherwise; failures rejected
    rp = [c for c in walk_local(rm.node) if isinstance(c, ast.Call) and A.res.is_call_to(c, "Git.rev_parse")]
    okc = len(rp) == 1
    det = "%d rev_parse call(s)" % len(rp)
    if okc:
        av = A.rvalues(rm, rp[0].args[0], _stmt_of(rp[0]), g, keep=lambda a: a == "none(args.at_least)", depth=2)
        okc = set(av) == {(frozenset({("none(args.at_least)", False)}), "args.at_least"), (frozenset({("none(args.at_least)", True)}), "'HEAD'")}
        gs = A.path_guards(g, g.entry, g.node_of(_stmt_of(rp[0])), rm)
        flagged = bool(gs) and all(("t(args.this_commit)", True) in c or ("none(args.at_least)", False) in c for c in gs)
        okc = okc and flagged
        det = "rev_parse argument takes %s; reached only with a commit flag=%s" % ([(fmt_conj(c), v) for c, v in av], flagged)
    rep.check(okc, "FLG1", "commit = rev-parse(at_least | HEAD)", rm.node, "", det)
    # the value handed to the planner is that result (or None without a commit flag)
    if plan:
        c = A.calls_in(plan[0].ast, "ExecutionPlanner.create_plan_for")[0]
        al = A.kw(c, "at_least_commit")
        pv = A.rvalues(rm, al, plan[0], g, keep=lambda a: False, depth=3, calls=True) if al is not None else []
        vals = {v for _c, v in pv}
        nn = vals - {"None"}
        rep.check("None" in vals and bool(nn) and all(".git.rev_parse(" in v and v.endswith(")") and v.count("rev_parse(") == 1 for v in nn), "FLG1",
                  "the parsed commit reaches the planner", c, "", "at_least_commit takes %s" % sorted(vals))
    raises = {A.exc.exc_class(n.ast.exc).rsplit(".", 1)[-1]: n for n in g.nodes if n.kind == "stmt" and isinstance(n.ast, ast.Raise) and n.ast.exc is not None and A.exc.exc_class(n.ast.exc)}
    ok = False
    if "AtLeastCommitNotAncestor" in raises:
        gs = A.path_guards(g, g.entry, raises["AtLeastCommitNotAncestor"], rm)
        ok = bool(gs) and all(any("is_ancestor(" in a and not p for a, p in cj) for cj in gs)
    rep.check(ok, "FLG1", "non-ancestor --at-least rejected", rm.node, "", "a commit that is not an ancestor of HEAD is not rejected")
    ok = False
    if "InvalidCommitSymbol" in raises and rp:
        res_name = norm(_stmt_of(rp[0]).targets[0]) if isinstance(_stmt_of(rp[0]), ast.Assign) else None
        gs = A.path_guards(g, g.entry, raises["InvalidCommitSymbol"], rm)
        ok = bool(gs) and res_name is not None and all(("none(%s)" % res_name, True) in cj for cj in gs)
        # and the check comes before the result is used for the ancestry test / the plan
        users = [n for n in g.nodes if n.kind in ("stmt", "test") and n.ast is not None and A.calls_in(n.ast, "Git.is_ancestor", "ExecutionPlanner.create_plan_for")]
        chk = [n for n in g.nodes if n.kind == "test" and norm(n.ast) in ("%s is None" % res_name, "%s is not None" % res_name)]
        rpn = g.node_of(_stmt_of(rp[0]))
        ok = ok and bool(chk) and all(g.all_paths_pass(rpn, u, chk, skip_labels=skip) for u in users if g.reachable(rpn, u, skip_labels=skip))
    rep.check(ok, "FLG1", "unknown commit rejected", rm.node, "", "an unresolvable commit symbol is not rejected before it is used")
    ug = A.fn("context.Context.uses_git")
    st = [s for s in walk_local(ug.node) if isinstance(s, ast.Assign) and norm(s.targets[0]) == "self._uses_git"]
    # the value stored, over every store and the condition it is reached under (one conjunction, or an if/else)
    gu = A.cfg(ug, "plain")
    upairs = []
    for s_ in st:
        for c in A.path_guards(gu, gu.entry, gu.node_of(s_), ug):
            c = frozenset(a for a in c if a[0] in ("t(self._config_file.disable_git)", "t(self._git.is_used())"))   # the memo test is not part of the value
            for pol in (True, False):
                for d in A.dnf(s_.value, pol, ug):
                    if not any((a, not p_) in c for a, p_ in d):
                        upairs.append((c | d, pol))
    mism, _n = truth_table(upairs, {"t(self._config_file.disable_git)": "disabled", "t(self._git.is_used())": "repo"},
                           lambda a: (not a["disabled"]) and a["repo"]) if st else ("no store", 0)
    rep.check(bool(st) and mism is None, "FLG1", "uses_git = ¬disable_git ∧ git repo", ug.node, "",
              "Context.uses_git is `%s`: %s" % (" / ".join(norm(x.value) for x in st) if st else "?", mism))
    rep.expect_min("FLG1", 7)
