"""Rules on RunTaskExecutable (RT1–RT10) and the SIGCHLD helper (SGc, SG6, SG7)."""
from __future__ import annotations

import ast
from typing import List, Optional

from ..analysis import Analysis, fmt_conj
from ..cfg import Node, is_back, is_exc
from ..model import AnalysisError, NOFOLD, norm, walk_local

RTE = "execution.ops.run_task_executable.RunTaskExecutable."
RTE_CLS = "conductor.execution.ops.run_task_executable.RunTaskExecutable"


def skip(l):
    return is_exc(l) or is_back(l)


def _stmt_of(node):
    n = node
    while not isinstance(n, ast.stmt):
        n = n._parent
    return n


def _ancestors(n):
    n = getattr(n, "_parent", None)
    while n is not None:
        yield n
        n = getattr(n, "_parent", None)


def spawn_calls(A: Analysis):
    fi = A.fn(RTE + "start_execution")
    return fi, A.calls_in_func(fi, "subprocess.Popen")


# ------------------------------------------------------------------ finish_execution
def _finish_nodes(A: Analysis):
    fi = A.fn(RTE + "finish_execution")
    g = A.cfg(fi, "plain")
    handle = fi.params[1]
    N = lambda pred: [n for n in g.nodes if n.kind in ("stmt", "test") and n.ast is not None and pred(n)]
    fin = N(lambda n: A.calls_in(n.ast, "OutputHandler.finish"))
    rc_raise = N(lambda n: isinstance(n.ast, ast.Raise) and n.ast.exc is not None and "TaskNonZeroExit" in norm(n.ast.exc))
    js = N(lambda n: n.kind == "stmt" and A.calls_in(n.ast, "RunArguments.serialize_json", "RunOptions.serialize_json"))
    ins = N(lambda n: n.kind == "stmt" and A.calls_in(n.ast, "VersionIndex.insert_output_version"))
    com = N(lambda n: n.kind == "stmt" and A.calls_in(n.ast, "VersionIndex.commit_changes"))
    return fi, g, handle, fin, rc_raise, js, ins, com


def rule_rt1(A: Analysis, rep):
    fi, g, handle, fin, rc_raise, js, ins, com = _finish_nodes(A)
    need = ("eq(0,%s.returncode)" % handle, True)
    if len(rc_raise) != 1:
        rep.bad("RT1", "non-zero exit raises", fi.node, "expected exactly one `raise TaskNonZeroExit`, found %d" % len(rc_raise))
        return
    # the return code may be read once into a local: atoms are compared after expanding such locals
    rc_locals = [n_.id for s_ in walk_local(fi.node) if isinstance(s_, ast.Assign) and norm(s_.value) == "%s.returncode" % handle
                 for n_ in s_.targets if isinstance(n_, ast.Name)]
    def _g(node):
        out = []
        for c in A.path_guards(g, g.entry, node, fi):
            out.append(frozenset((a.replace("eq(0,%s)" % rl, "eq(0,%s.returncode)" % handle) if any(a == "eq(0,%s)" % rl for rl in rc_locals) else a, p_)
                                 for (a, p_) in c for rl in (rc_locals or [""]) ) if rc_locals else c)
        return out
    gr = _g(rc_raise[0])
    rep.check(gr == [frozenset({("eq(0,%s.returncode)" % handle, False)})], "RT1", "non-zero exit raises", rc_raise[0].ast,
              "TaskNonZeroExit is raised exactly when returncode != 0", "the failure raise is guarded by [%s]" % " | ".join(fmt_conj(c) for c in gr))
    for kind, nodes in (("args/options JSON", js), ("index insert", ins), ("index commit", com)):
        for n in nodes:
            gs = _g(n)
            rep.check(bool(gs) and all(need in c for c in gs), "RT1", "failure precedes %s" % kind, n.ast,
                      "reached only when returncode == 0", "%s is reachable although the task exited non-zero: [%s]" % (kind, " | ".join(fmt_conj(c) for c in gs)))
    rep.check(bool(ins) and bool(com), "RT1", "records exist", fi.node, "", "finish_execution no longer records a version (insert=%d commit=%d)" % (len(ins), len(com)), deep=False)
    # args.json / options.json are Conductor's record of the finished run: written after the task exited (it cannot
    # remove or replace them any more), in finish_execution
    all_js = [(f, c) for (f, c) in A.all_calls_to("RunArguments.serialize_json", "RunOptions.serialize_json")]
    rep.check(len(js) >= 2 and all(f.fq == fi.fq for f, _c in all_js), "RT1", "argument records are written after the task exited", fi.node,
              "serialize_json(args/options) only in finish_execution",
              "args.json/options.json are written in %s: a record written before the task runs can be deleted or replaced by the task, and the version is recorded all the same" % (
                  sorted({f.fq.replace("conductor.", "") for f, _c in all_js if f.fq != fi.fq}) or "no place in finish_execution"))
    rep.expect_min("RT1", 4)


def rule_rt2(A: Analysis, rep):
    """finish() of both handlers ≺ return-code test ≺ JSON ≺ insert ≺ commit; nothing after the commit."""
    fi, g, handle, fin, rc_raise, js, ins, com = _finish_nodes(A)
    recv = sorted({norm(c.func.value) for n in fin for c in A.calls_in(n.ast, "OutputHandler.finish")})
    rep.check(recv == ["%s.stderr" % handle, "%s.stdout" % handle], "RT2", "both handlers finished", fi.node,
              "stdout and stderr handlers are finished", "finish() is called on %s" % recv)
    rc_locals = {n_.id for s_ in walk_local(fi.node) if isinstance(s_, ast.Assign) and norm(s_.value) == "%s.returncode" % handle
                 for n_ in s_.targets if isinstance(n_, ast.Name)}
    rc_tests = [n for n in g.nodes if n.kind == "test" and ("%s.returncode" % handle in norm(n.ast) or
                                                            any(isinstance(x, ast.Name) and x.id in rc_locals for x in ast.walk(n.ast)))]
    rep.check(bool(rc_tests) and all(g.all_paths_pass(g.entry, t, [f], skip_labels=skip) for t in rc_tests for f in fin) and len(fin) >= 2,
              "RT2", "logs complete before the verdict", fi.node, "both logs are complete before the return code is examined",
              "the return code is examined before both output handlers were finished")

    def before(a_nodes: List[Node], b_nodes: List[Node]) -> bool:
        # every b is dominated by the set of a's being passed (each a that can reach b lies on all paths) and no b reaches an a
        for b in b_nodes:
            for a in a_nodes:
                if g.reachable(b, a, skip_labels=skip):
                    return False
        return True
    rep.check(before(js, ins) and before(js, com), "RT2", "JSON before record", fi.node, "args.json/options.json are written before the version is recorded",
              "a version can be inserted/committed before args.json/options.json are written")
    rep.check(bool(ins) and bool(com) and all(g.all_paths_pass(g.entry, c, ins, skip_labels=skip) for c in com), "RT2", "insert before commit", fi.node,
              "", "commit_changes() is reachable without insert_output_version()")
    # the commit follows its insert on every path (a row is not left uncommitted on the success path)
    rep.check(bool(ins) and all(g.all_paths_pass(i, g.exit, com, skip_labels=skip) for i in ins), "RT2", "insert is committed", fi.node,
              "every insert is followed by a commit", "insert_output_version() can reach the function exit without commit_changes()")
    # nothing but the exit after the commit
    after = set()
    for c in com:
        after |= g.reach([m for (m, l) in c.succ if not skip(l)], skip_labels=skip)
    extra = [n for n in after if n.kind in ("stmt", "test") and n not in com]
    rep.check(not extra, "RT2", "nothing after the commit", fi.node, "the commit is the last effect", "statements after the commit: %s" % [norm(n.ast)[:50] for n in extra][:3])
    # receivers are the project index
    for n in ins + com:
        for c in A.calls_in(n.ast, "VersionIndex.insert_output_version", "VersionIndex.commit_changes"):
            rep.check(norm(c.func.value) == "%s.version_index" % fi.params[2], "RT2", "project index receiver", c, "", "recorded into `%s`" % norm(c.func.value), deep=False)
    # what is inserted: (identifier, version_to_record), guarded by version_to_record is not None
    for n in ins:
        c = A.calls_in(n.ast, "VersionIndex.insert_output_version")[0]
        args = [norm(a) for a in c.args]
        gs = A.path_guards(g, g.entry, n, fi)
        rep.check(args == ["self._identifier", "self._version_to_record"] and all(("none(self._version_to_record)", False) in cj for cj in gs), "RT2", "records its own version", c,
                  "inserts (own identifier, version_to_record)", "insert_output_version(%s)" % ", ".join(args))
    rep.expect_min("RT2", 8)


def rule_rt7(A: Analysis, rep):
    fi, spawns = spawn_calls(A)
    if len(spawns) != 1:
        raise AnalysisError("RT7: expected exactly one subprocess.Popen in start_execution, found %d" % len(spawns))
    sp = spawns[0]
    trys = [t for t in _ancestors(sp) if isinstance(t, ast.Try)]
    ok = False
    det = "Popen is not inside a try"
    for t in trys:
        for h in t.handlers:
            if h.type is not None and norm(h.type) == "OSError":
                raises = [r for r in walk_local(h) if isinstance(r, ast.Raise) and r.exc is not None]
                cls = [A.exc.exc_class(r.exc) for r in raises]
                ok = bool(raises) and all(c is not None and c.endswith(".TaskFailed") for c in cls)
                g = A.cfg(fi, "plain")
                hn = [n for n in g.nodes if n.kind == "except" and n.ast is h][0]
                ok = ok and not g.reachable(hn, g.exit, skip_labels=is_exc)
                det = "OSError handler raises %s" % cls
    rep.check(ok, "RT7", "launch failure ⇒ TaskFailed", sp, "an OSError while launching becomes TaskFailed (the task is reported as failed)", det)
    mk = [c for c in walk_local(fi.node) if isinstance(c, ast.Call) and isinstance(c.func, ast.Attribute) and c.func.attr == "mkdir"]
    in_try = all(any(isinstance(a, ast.Try) and any(h.type is not None and norm(h.type) == "OSError" for h in a.handlers)
                     and _in_body(_stmt_of(c), a.body) for a in _ancestors(c)) for c in mk)
    rep.check(bool(mk) and in_try, "RT7", "mkdir inside the try", fi.node, "", "output directory creation is outside the OSError→TaskFailed try")


def _in_body(stmt, body) -> bool:
    ids = set()
    for b in body:
        ids.update(id(x) for x in ast.walk(b))
    return id(stmt) in ids


# ------------------------------------------------------------------ SIGCHLD helper
def rule_sgc(A: Analysis, rep):
    fi = A.fn("utils.sigchld.SigchldHelper._handler")
    g = A.cfg(fi, "plain")
    adds = [n for n in g.nodes if n.kind == "stmt" and A.calls_in(n.ast, "SigchldHelper._add_returncode")]
    if len(adds) != 1:
        rep.bad("SGc", "status decoding", fi.node, "expected one _add_returncode call in the handler, found %d" % len(adds))
        return
    add = adds[0]
    call = A.calls_in(add.ast, "SigchldHelper._add_returncode")[0]
    rc = norm(call.args[1]) if len(call.args) > 1 else "?"
    wp = [n for n in g.nodes if n.kind == "stmt" and isinstance(n.ast, ast.Assign) and isinstance(n.ast.value, ast.Call) and norm(n.ast.value.func) == "os.waitpid"]
    if len(wp) != 1 or not isinstance(wp[0].ast.targets[0], ast.Tuple):
        rep.bad("SGc", "status decoding", fi.node, "no `pid, status = os.waitpid(...)`")
        return
    pid, status = [norm(x) for x in wp[0].ast.targets[0].elts]
    defs = [d for d in A.defs(fi, rc) if isinstance(d, ast.Assign)]
    ok = len(defs) >= 2
    det = []
    for d in defs:
        n = g.node_of(d)
        gs = A.path_guards(g, wp[0], n, fi)
        v = norm(d.value)
        if v == "os.WEXITSTATUS(%s)" % status:
            if not (gs and all(("t(os.WIFEXITED(%s))" % status, True) in c for c in gs)):
                ok = False
                det.append("WEXITSTATUS not under WIFEXITED")
        elif v == "os.WTERMSIG(%s)" % status:
            if not (gs and all(("t(os.WIFSIGNALED(%s))" % status, True) in c for c in gs)):
                ok = False
                det.append("WTERMSIG not under WIFSIGNALED")
        elif v.startswith("-os.WTERMSIG(") or v.startswith("128 + os.WTERMSIG("):
            pass
        else:
            ok = False
            det.append("return code assigned `%s`" % v)
    kinds = {norm(d.value).split("(")[0] for d in defs}
    if not {"os.WEXITSTATUS"} <= kinds or not any("WTERMSIG" in k for k in kinds):
        ok = False
        det.append("exit / signal decoding incomplete: %s" % sorted(kinds))
    # no path reaches the add with rc undefined: every path from waitpid to add passes a def or raises
    dn = [g.node_of(d) for d in defs]
    if not g.all_paths_pass(wp[0], add, dn, skip_labels=skip):
        ok = False
        det.append("a path records a return code that was not decoded")
    rep.check(ok, "SGc", "status decoding", add.ast, "exit status under WIFEXITED, signal number under WIFSIGNALED (never 0 for a signalled child)", "; ".join(det))
    rep.check(norm(call.args[0]) == pid, "SGc", "pid recorded", add.ast, "", "the recorded pid is `%s`, not waitpid's pid" % norm(call.args[0]), deep=False)


def rule_sg6(A: Analysis, rep):
    S = "utils.sigchld.SigchldHelper."
    ar = A.fn(S + "_add_returncode")
    body = [norm(s) for s in ar.node.body if not (isinstance(s, ast.Expr) and isinstance(s.value, ast.Constant)) and not isinstance(s, ast.Assert)]
    p, r = ar.params[1], ar.params[2]
    want_a = "self._returncodes.append((%s, %s))" % (p, r)
    writes = [b for b in body if b.startswith("os.write(self._write_pipe,")]
    rep.check(want_a in body and len(writes) == 1 and len(body) == 2 and body.index(want_a) < body.index(writes[0]), "SG6", "one entry, one byte", ar.node,
              "_add_returncode appends one (pid, code) then writes exactly one byte",
              "_add_returncode body is %s" % body)
    if writes:
        w = [s for s in ar.node.body if norm(s) == writes[0]][0]
        arg = w.value.args[1]
        rep.check(isinstance(arg, ast.Constant) and isinstance(arg.value, bytes) and len(arg.value) == 1, "SG6", "exactly one byte", w,
                  "", "the wake-up write is not exactly one byte")
    wt = A.fn(S + "wait")
    gw = A.cfg(wt, "plain")
    reads = [c for c in walk_local(wt.node) if isinstance(c, ast.Call) and norm(c.func) == "os.read"]
    ok = len(reads) == 1 and len(reads[0].args) == 2 and A.xtext(reads[0].args[0], wt) == "self._read_pipe" and norm(reads[0].args[1]) == "1"
    rets = [n for n in gw.nodes if n.kind == "stmt" and isinstance(n.ast, ast.Return)]
    if ok:
        rn = gw.node_of(_stmt_of(reads[0]))
        # every return passes exactly one read of one byte and returns one extracted entry; the read is not in a loop
        rv = rets[0].ast.value if len(rets) == 1 else None
        if isinstance(rv, ast.Call):
            rv = A.pred_body(rv, wt) or rv   # `self._extract_any()` → its single returned expression
        ok = rv is not None and norm(rv) in ("self._returncodes.pop()", "self._returncodes.pop(0)") and gw.all_paths_pass(gw.entry, rets[0], [rn], skip_labels=is_exc) and \
            rn not in gw.reach([m for (m, l) in rn.succ], skip_labels=is_exc)
    rep.check(ok, "SG6", "wait: one byte then one entry", wt.node, "wait() consumes one byte, then extracts exactly one entry",
              "wait() no longer reads exactly one byte before extracting one entry")
    # SG9: no lost wake-up.  The byte is produced by a *Python-level* signal handler, which only runs between
    # bytecodes of the main thread: a SIGCHLD delivered after the interpreter's last signal check but before a
    # blocking read() enters the kernel would never be noticed.  The blocking wait must therefore have a timeout.
    ok9 = False
    det9 = "wait() blocks in os.read() on the self-pipe without a timeout: a SIGCHLD delivered just before the read enters the kernel is lost and `cond run` hangs with a zombie child"
    if reads:
        rn = gw.node_of(_stmt_of(reads[0]))
        polls = [c for c in walk_local(wt.node) if isinstance(c, ast.Call) and norm(c.func) in ("select.select", "select.poll", "selectors.DefaultSelector")]
        for c in polls:
            if norm(c.func) == "select.select" and len(c.args) == 4 and "self._read_pipe" in A.xtext(c.args[0], wt):
                tv = A.prog.fold(wt.module, c.args[3])
                bounded = isinstance(tv, (int, float)) and not isinstance(tv, bool) and 0 < tv <= 5
                gs = A.path_guards(gw, gw.entry, rn, wt)
                # the poll result may be tested directly or through a local that only ever holds "nothing yet" ([]) or
                # the readable list returned by that select call
                ready_vars = set()
                for nm_ in {x.id for x in ast.walk(wt.node) if isinstance(x, ast.Name) and isinstance(x.ctx, ast.Store)}:
                    ds_ = A.defs(wt, nm_)
                    def _from_select(d):
                        if isinstance(d, (ast.Assign, ast.AnnAssign)) and d.value is not None:
                            tg_ = d.targets[0] if isinstance(d, ast.Assign) else d.target
                            if norm(d.value) in ("[]", "()", "list()"):
                                return True
                            if isinstance(tg_, (ast.Tuple, ast.List)) and d.value is c and isinstance(tg_.elts[0], ast.Name) and tg_.elts[0].id == nm_:
                                return True
                            if isinstance(tg_, ast.Name) and isinstance(d.value, ast.Subscript) and d.value.value is c and norm(d.value.slice) == "0":
                                return True
                        return False
                    if ds_ and all(_from_select(d) for d in ds_) and any(not norm(getattr(d, "value", ast.Constant(0))) in ("[]", "()", "list()") for d in ds_):
                        ready_vars.add(nm_)
                def _ready(a, p):
                    if "select.select(" in a and p:
                        return True
                    return any((a == "empty(%s)" % v and not p) or (a == "t(%s)" % v and p) for v in ready_vars)
                gated = bool(gs) and all(any(_ready(a, p) for a, p in cj) for cj in gs)
                ok9 = bounded and gated
                det9 = "select timeout=%r (must be a positive constant ≤ 5 s); read gated by the poll result=%s" % (tv, gated)
    rep.check(ok9, "SG9", "blocking wait has a timeout (no lost SIGCHLD wake-up)", wt.node,
              "the self-pipe is polled with a bounded timeout in a loop, so a pending Python-level handler always gets to run", det9, key="SG9|lost wakeup")
    # field-access inventory: who touches the pipe ends and the list, and how
    users = {}
    ops = []
    for f in A.prog.scan_functions:
        for n in walk_local(f.node):
            if isinstance(n, ast.Attribute) and n.attr in ("_returncodes", "_read_pipe", "_write_pipe"):
                users.setdefault(n.attr, set()).add(f.name)
                par = getattr(n, "_parent", None)
                if n.attr == "_returncodes":
                    if isinstance(par, ast.Attribute) and isinstance(getattr(par, "_parent", None), ast.Call) and par._parent.func is par:
                        ops.append((f.name, par.attr))
                    elif isinstance(n.ctx, ast.Store):
                        ops.append((f.name, "="))
                    else:
                        ops.append((f.name, "read"))
    pops = [o for o in ops if o[1] == "pop"]
    others = sorted(set(o for o in ops if o[1] not in ("pop",)))
    ok_ops = len(pops) == 1 and pops[0][0] in ("_extract_any", "wait") and set(others) <= {("_add_returncode", "append"), ("__init__", "="), ("track", "="), ("track", "clear"), ("track", "read")} \
        and ("_add_returncode", "append") in others
    # when the pop lives in a helper, only wait() may call it
    if ok_ops and pops[0][0] == "_extract_any":
        ok_ops = {f_.fq for (f_, _c) in A.cg.callers.get("conductor.utils.sigchld.SigchldHelper._extract_any", [])} <= {"conductor.utils.sigchld.SigchldHelper.wait"}
    rep.check(ok_ops, "SG6", "extract removes one entry", wt.node, "entries are appended only by the handler and popped only (once) by wait()",
              "operations on _returncodes: %s" % sorted(set(ops)))
    rep.check(users.get("_returncodes", set()) <= {"__init__", "track", "_add_returncode", "_extract_any", "wait"}, "SG6", "list accessors", None,
              "", "_returncodes is touched by %s" % sorted(users.get("_returncodes", [])), deep=False)
    rep.check(users.get("_read_pipe") == {"__init__", "track", "wait"} and users.get("_write_pipe") == {"__init__", "track", "_add_returncode"}, "SG6", "pipe accessors", None,
              "", "pipe ends are touched by %s / %s" % (sorted(users.get("_read_pipe", [])), sorted(users.get("_write_pipe", []))), deep=False)
    rep.expect_min("SG6", 5)
    rep.expect_min("SG9", 1)


def rule_sg7(A: Analysis, rep):
    fi = A.fn("utils.sigchld.SigchldHelper._handler")
    g = A.cfg(fi, "plain")
    loops = [l for l in walk_local(fi.node) if isinstance(l, ast.While)]
    wps = [c for c in walk_local(fi.node) if isinstance(c, ast.Call) and norm(c.func) == "os.waitpid"]
    ok = len(loops) == 1 and len(wps) == 1 and isinstance(loops[0].test, ast.Constant) and loops[0].test.value is True \
        and any(c is wps[0] for c in ast.walk(loops[0]))
    args_ok = len(wps) == 1 and [norm(a) for a in wps[0].args] == ["-1", "os.WNOHANG"]
    rep.check(ok and args_ok, "SG7", "reap loop", fi.node, "loops on waitpid(-1, WNOHANG)", "the handler does not loop on os.waitpid(-1, os.WNOHANG)")
    if ok:
        brks = [b for b in walk_local(loops[0]) if isinstance(b, ast.Break)]
        okb = len(brks) == 1 and isinstance(brks[0]._parent, ast.If)
        if okb:
            d = A.dnf(brks[0]._parent.test, True, fi)
            pid, status = [norm(x) for x in _stmt_of(wps[0]).targets[0].elts]
            okb = d == [frozenset({("eq(0,%s)" % pid, True), ("eq(0,%s)" % status, True)})] or d == [frozenset({("eq(0,%s)" % pid, True)})]
        rep.check(okb, "SG7", "stops only when nothing is left", loops[0], "the loop ends only on (0, 0) — every exited child is reaped and recorded",
                  "the reap loop can end before all exited children were collected (a completion would be lost)")
        # every iteration that reaped a child records it
        gb = [n for n in g.nodes if n.kind == "stmt" and A.calls_in(n.ast, "SigchldHelper._add_returncode")]
        hdr = [n for n in g.nodes if n.kind == "test" and n.info is loops[0]][0]
        wpn = g.node_of(_stmt_of(wps[0]))
        r = g.reach([wpn], removed=gb, skip_labels=is_exc)
        back = [n for n in r if any(m is hdr and is_back(l) for m, l in n.succ)]
        rep.check(bool(gb) and not back, "SG7", "every reaped pid recorded", loops[0], "no iteration drops a reaped child",
                  "an iteration can continue without recording the reaped pid")
    hs = [h for h in walk_local(fi.node) if isinstance(h, ast.ExceptHandler)]
    okh = len(hs) == 1 and norm(hs[0].type) == "OSError"
    if okh:
        ifs = [i for i in hs[0].body if isinstance(i, ast.If)]
        okh = len(ifs) == 1 and A.dnf(ifs[0].test, True, fi) == [frozenset({("eq(errno.ECHILD,ex.errno)", False)})] and any(isinstance(x, ast.Raise) for x in ifs[0].body)
    rep.check(okh, "SG7", "only ECHILD ignored", fi.node, "", "the handler ignores errors other than ECHILD")
    # track(): installs the handler, restores in finally
    tr = A.fn("utils.sigchld.SigchldHelper.track")
    sigs = [c for c in walk_local(tr.node) if isinstance(c, ast.Call) and norm(c.func) == "signal.signal"]
    inst = [c for c in sigs if norm(c.args[0]) == "signal.SIGCHLD" and norm(c.args[1]).endswith("._handler")]
    rep.check(len(inst) == 1, "SG7", "handler installed for SIGCHLD", tr.node, "", "track() does not install _handler for SIGCHLD")
    rep.expect_min("SG7", 4)
