"""C18 rules: CB1–CB3 (combine)."""
from __future__ import annotations

import ast

from ..analysis import Analysis, fmt_conj
from ..cfg import is_back, is_exc
from ..model import AnalysisError, norm, walk_local


def skip(l):
    return is_exc(l) or is_back(l)


def rule_cb1(A: Analysis, rep):
    fi = A.fn("execution.ops.combine_outputs.CombineOutputs.start_execution")
    g = A.cfg(fi, "plain")
    loops = [l for l in fi.node.body if isinstance(l, ast.For)]
    if len(loops) != 1 or norm(loops[0].iter) != "self._deps_output_paths" or not isinstance(loops[0].target, ast.Tuple):
        rep.bad("CB1", "combine loop", fi.node, "no loop `for dep_id, dep_dir in self._deps_output_paths`")
        return
    l = loops[0]
    did, ddir = [norm(x) for x in l.target.elts]
    hdr = [n for n in g.nodes if n.kind == "for" and n.ast is l][0]
    be = [x for (x, lb) in hdr.succ if lb == "T"][0]
    mk = [n for n in g.nodes if n.kind == "stmt" and norm(n.ast).startswith("self._output_path.mkdir(")]
    rep.check(len(mk) == 1 and g.all_paths_pass(g.entry, hdr, mk, skip_labels=skip), "CB1", "own directory created first", fi.node, "", "the combine directory is not created before the entries")
    links = [n for n in g.nodes if n.kind == "stmt" and isinstance(n.ast, ast.Expr) and isinstance(n.ast.value, ast.Call) and isinstance(n.ast.value.func, ast.Attribute)
             and n.ast.value.func.attr == "symlink_to"]
    if len(links) != 1:
        rep.bad("CB1", "entry creation", l, "expected exactly one symlink_to per dependency, found %d" % len(links))
        return
    ln = links[0]
    entry = norm(ln.ast.value.func.value)
    ev = A.single_def_value(fi, entry)
    rep.check(ev is not None and norm(ev) == "self._output_path / %s.name" % did, "CB1", "entry named after the dependency", ln.ast, "output_path / dep_id.name",
              "the entry path is `%s`" % (norm(ev) if ev is not None else "?"))
    tgt = A.xtext(ln.ast.value.args[0], fi)
    rep.check(tgt == "pathlib.Path(os.path.relpath(%s, (self._output_path / %s.name).parent))" % (ddir, did), "CB1", "link resolves to the dependency's directory", ln.ast,
              "relative path from the entry's parent to dep_dir", "the link target is `%s`" % tgt)
    # the only skip: not a directory or empty; the link is created on every other path
    gs = A.path_guards(g, be, ln, fi)
    skip_atoms = {"t(%s.is_dir())" % ddir, "t(any((True for _v0 in %s.iterdir())))" % ddir}
    core = [frozenset(a for a in c if a[0] in skip_atoms) for c in gs]
    ok = bool(gs) and all(c == frozenset({("t(%s.is_dir())" % ddir, True), ("t(any((True for _v0 in %s.iterdir())))" % ddir, True)}) for c in core)
    r = g.reach([be], removed=[ln], skip_labels=is_exc)
    # the iterations that end without creating the link: the union of the guards of every back edge reached around it
    from ..analysis import _and_all, _simplify
    from ..cfg import branch_of
    gc_ = []
    for n in r:
        for (m, lb) in n.succ:
            if m is hdr and is_back(lb):
                gn = A.path_guards(g, be, n, fi) if n is not be else [frozenset()]
                if n.kind == "test" and branch_of(lb):
                    gn = _and_all([gn, A.dnf(n.ast, branch_of(lb) == "T", fi)])
                gc_.extend(gn)
    a1, a2 = "t(%s.is_dir())" % ddir, "t(any((True for _v0 in %s.iterdir())))" % ddir
    gc_ = _simplify([frozenset(x for x in c if x[0] in (a1, a2)) for c in gc_])
    forms = [[frozenset({(a1, False)}), frozenset({(a1, True), (a2, False)})], [frozenset({(a1, False)}), frozenset({(a2, False)})]]
    ok2 = any(sorted(map(sorted, gc_)) == sorted(map(sorted, f)) for f in forms)
    rep.check(ok and ok2, "CB1", "only missing/empty dependency outputs are skipped", l, "", "a dependency can be skipped for another reason: link guard [%s]" % " | ".join(fmt_conj(c) for c in gs))
    # existing entry: unlinked only if it is a symlink, otherwise an error, before any modification
    un = [n for n in g.nodes if n.kind == "stmt" and norm(n.ast) == "%s.unlink()" % entry]
    rs = [n for n in g.nodes if n.kind == "stmt" and isinstance(n.ast, ast.Raise) and "CombineOutputFileConflict" in norm(n.ast)]
    ok = len(un) == 1 and len(rs) == 1
    if ok:
        gu = A.path_guards(g, be, un[0], fi)
        gr = A.path_guards(g, be, rs[0], fi)
        ok = all(("t(%s.is_symlink())" % entry, True) in c for c in gu) and bool(gu) and \
            all(("t(%s.is_symlink())" % entry, False) in c and ("t(%s.exists())" % entry, True) in c for c in gr) and bool(gr)
    rep.check(ok, "CB1", "only Conductor's own links are replaced", l, "an existing non-link entry raises CombineOutputFileConflict instead of being overwritten",
              "an existing entry can be removed although it is not a symlink (or the conflict is not reported)")
    # a dangling old link must also be replaced: exists() is False for a dangling symlink — checked as: unlink reachable when is_symlink (documented limitation)
    from .fs import fs_mutations
    kinds = sorted(k for (fq, k, c) in fs_mutations(A) if fq == fi.fq)
    rep.check(kinds == ["Path.mkdir", "Path.symlink_to", "Path.unlink"], "CB1", "no other filesystem effect", fi.node, "", "combine's filesystem effects are %s" % kinds, deep=False)
    rets = [x for x in walk_local(fi.node) if isinstance(x, ast.Return)]
    rep.check(len(rets) == 1 and norm(rets[0].value) == "OperationExecutionHandle.from_sync_execution()", "CB1", "synchronous handle", fi.node, "", "combine no longer returns a synchronous handle", deep=False)
    rep.expect_min("CB1", 7)


def rule_cb2(A: Analysis, rep):
    from .planner import PlannerFacts
    F = PlannerFacts(A)
    fi = F.fi
    cons = [(cn, call) for (cn, var, call, cls) in F.constructions if cls.endswith("CombineOutputs")]
    if len(cons) != 1:
        rep.bad("CB2", "combine lowering", fi.node, "expected one CombineOutputs construction")
        return
    cn, call = cons[0]
    dp = A.kw(call, "deps_output_paths")
    ok = False
    det = "deps_output_paths is `%s`: not a list built per dependency as (dep id, that dependency's own get_output_path(ctx)) — names and directories can be paired wrongly" % (
        A.xtext(dp, fi) if dp is not None else "?")
    if isinstance(dp, ast.Name):
        lst = dp.id
        loops = [l for l in walk_local(F.w.loop) if isinstance(l, ast.For) and norm(l.iter) == "%s.task.deps" % F.lt and
                 any(isinstance(c, ast.Call) and norm(c.func) == "%s.append" % lst for c in walk_local(l))]
        if len(loops) == 1:
            l = loops[0]
            d = norm(l.target)
            g = F.g
            hdr = [n for n in g.nodes if n.kind == "for" and n.ast is l][0]
            be = [x for (x, lb) in hdr.succ if lb == "T"][0]
            apps = [n for n in g.nodes if n.kind == "stmt" and norm(n.ast).startswith("%s.append(" % lst) and id(n.ast) in {id(x) for x in ast.walk(l)}]
            if len(apps) == 1:
                el = apps[0].ast.value.args[0]
                gs = A.path_guards(g, be, apps[0], fi)
                if isinstance(el, ast.Tuple) and len(el.elts) == 2 and norm(el.elts[0]) == d:
                    pv = norm(el.elts[1])
                    src = A.xtext(el.elts[1], fi, stop=[F.lt])
                    ok = gs == [frozenset({("none(%s)" % pv, False)})] and src == "self._ctx.task_index.get_task(%s).get_output_path(self._ctx)" % d
                    det = "pair (%s, %s), guard [%s]" % (norm(el.elts[0]), src, " | ".join(fmt_conj(c) for c in gs))
                init = A.preceding_def(l, lst)
                ok = ok and init is not None and norm(init) in ("[]", "list()")
                # … and the list is this combine's own: created empty in the same worklist iteration on every path to the
                # construction (a list created once per plan would be shared by all combine operations, each seeing the
                # dependencies of the others)
                inits = [n for n in g.nodes if n.kind == "stmt" and isinstance(n.ast, (ast.Assign, ast.AnnAssign)) and n.ast.value is not None
                         and norm(n.ast.targets[0] if isinstance(n.ast, ast.Assign) else n.ast.target) == lst and norm(n.ast.value) in ("[]", "list()")]
                own = bool(inits) and F.w.header is not None and g.all_paths_pass(F.w.header, cn, inits, skip_labels=lambda lb: is_exc(lb) or is_back(lb))
                if ok and not own:
                    ok = False
                    det = "`%s` is not created empty inside the worklist iteration that constructs the combine operation: all combine operations of one plan share (and keep appending to) one list" % lst
    if not ok and dp is not None:
        # the comprehension form (possibly "compute all pairs, then drop the None paths"), fused into one comprehension
        from ..analysis import fuse_comprehensions
        dpx = fuse_comprehensions(A.expand(dp, fi, stop=[F.lt]))
        if isinstance(dpx, (ast.ListComp,)) and len(dpx.generators) == 1 and isinstance(dpx.generators[0].target, ast.Name) \
                and norm(dpx.generators[0].iter) == "%s.task.deps" % F.lt and isinstance(dpx.elt, ast.Tuple) and len(dpx.elt.elts) == 2:
            d = dpx.generators[0].target.id
            src = norm(dpx.elt.elts[1])
            cond = dpx.generators[0].ifs
            test = cond[0] if len(cond) == 1 else (ast.BoolOp(op=ast.And(), values=list(cond)) if cond else None)
            gs = A.dnf(test, True, None) if test is not None else []
            ok = norm(dpx.elt.elts[0]) == d and src == "self._ctx.task_index.get_task(%s).get_output_path(self._ctx)" % d and \
                gs == [frozenset({("none(%s)" % src, False)})]
            # the list is built inside the worklist iteration that constructs the operation
            if ok and isinstance(dp, ast.Name):
                g = F.g
                defs_ = [n for n in g.nodes if n.kind == "stmt" and isinstance(n.ast, (ast.Assign, ast.AnnAssign))
                         and norm(n.ast.targets[0] if isinstance(n.ast, ast.Assign) else n.ast.target) == dp.id]
                ok = bool(defs_) and F.w.header is not None and g.all_paths_pass(F.w.header, cn, defs_, skip_labels=lambda lb: is_exc(lb) or is_back(lb))
            det = "pairs `%s` filtered by [%s]" % (norm(dpx.elt), " | ".join(fmt_conj(c) for c in gs))
    rep.check(ok, "CB2", "each dependency paired with its own selected output, in order, dropping only None", call,
              "(dep id, that dependency's get_output_path(ctx)) for every element of task.deps", det)
    kws = {k: norm(v) for k, v in A.kwmap(call).items()}
    rep.check(kws.get("identifier") == "%s.task.identifier" % F.lt and kws.get("task") == "%s.task" % F.lt, "CB2", "combine op carries its task", call, "", "CombineOutputs(%s)" % kws, deep=False)
    op = A.kw(call, "output_path")
    pd = A.preceding_def(cn.ast, op.id) if isinstance(op, ast.Name) else None
    rep.check(pd is not None and A.xtext(pd, fi, stop=[F.lt]) == "%s.task.get_output_path(self._ctx)" % F.lt, "CB2", "combine directory = the task's output path", call, "", "output_path is `%s`" % (norm(pd) if pd is not None else "?"))
    init = A.fn("execution.ops.combine_outputs.CombineOutputs.__init__")
    st = {norm(s.targets[0]): norm(s.value) for s in walk_local(init.node) if isinstance(s, ast.Assign)}
    rep.check(st.get("self._deps_output_paths") == "deps_output_paths" and st.get("self._output_path") == "output_path", "CB2", "fields", init.node, "", "CombineOutputs.__init__ stores %s" % st, deep=False)


def rule_cb3(A: Analysis, rep):
    fi = A.fn("task_types.combine.Combine.__init__")
    g = A.cfg(fi, "plain")
    rs = [n for n in g.nodes if n.kind == "stmt" and isinstance(n.ast, ast.Raise) and "CombineDuplicateDepName" in norm(n.ast)]
    loops = [l for l in fi.node.body if isinstance(l, ast.For) and norm(l.iter) in ("deps", "self.deps", "self._deps")]
    ok = len(rs) == 1 and len(loops) == 1
    if ok:
        l = loops[0]
        d = norm(l.target)
        hdr = [n for n in g.nodes if n.kind == "for" and n.ast is l][0]
        be = [x for (x, lb) in hdr.succ if lb == "T"][0]
        gs = A.path_guards(g, be, rs[0], fi, xstop=[d])
        ins = [a for c in gs for a, p in c if a.startswith("in(%s.name," % d) and p]
        ok = len(ins) == 1
        if ok:
            st = ins[0][len("in(%s.name," % d):-1]
            marks = [n for n in g.nodes if n.kind == "stmt" and isinstance(n.ast, ast.Expr) and isinstance(n.ast.value, ast.Call) and
                     A.xtext(n.ast.value, fi, stop=[d, st]) == "%s.add(%s.name)" % (st, d)]
            r = g.reach([be], removed=marks, skip_labels=is_exc)
            ok = bool(marks) and not any(any(m is hdr and is_back(lb) for m, lb in n.succ) for n in r)
    rep.check(ok, "CB3", "combine rejects two dependencies with the same name", fi.node, "names are remembered on every iteration and tested before", "Combine.__init__ no longer rejects duplicate dependency names")
