"""C19 — run_experiment_group is exactly its documented expansion."""
from . import conddefs as CD, group as GR

META = {
    "explanation": "Origin of every keyword of the single run_experiment(...) call, the chained-deps form and its guard, the relative "
                   "identifier list (GRP1); exactly one unconditional combine over those identifiers (GRP2); documented signature, "
                   "ExperimentInstance fields/defaults, stdlib evaluated after the constructors are bound (GRP3); the two documented "
                   "rejections precede the definition (GRP4); the `experiments` iterable is consumed by one loop only (GRP5); duplicate names are judged within one call and the expansion calls nothing that can reject besides the task constructors (GRP4, GRP6); the schema of "
                   "the expanded task types (SCH1).",
    "rules": ["GRP1", "GRP2", "GRP3", "GRP4", "GRP5", "GRP6", "SCH1"],
    "assumptions": ["'same executions and outputs' follows from identical task definitions (C01–C08), not re-derived here"],
    "trusted": ["ast parser"],
}


def run(A, rep, tier):
    GR.rule_grp(A, rep)
    CD.rule_sch1(A, rep)
