"""Executor rules EX1–EX15, J1 (shared by C01–C04, C09, C16)."""
from __future__ import annotations

import ast
from typing import Dict, List, Optional, Set, Tuple

from ..analysis import Analysis, fmt_conj, implies
from ..cfg import CFG, Node, is_back, is_exc, branch_of
from ..model import AnalysisError, FunctionInfo, norm, walk_local

EXE = "execution.executor."
OPS_PKG = "conductor.execution.ops."


def skip(l):
    return is_exc(l) or is_back(l)


class ExecFacts:
    def __init__(self, A: Analysis):
        self.A = A
        self.launch_fi = A.fn(EXE + "Executor._launch_ops_if_able")
        self.wait_fi = A.fn(EXE + "Executor._wait_for_next_inflight_op")
        self.proc_fi = A.fn(EXE + "Executor._process_finished_op")
        self.run_fi = A.fn(EXE + "Executor.run_plan")
        self.report_fi = A.fn(EXE + "Executor._report_execution_results")
        self.launch_sites = [(f, c) for (f, c) in A.all_calls_to("Operation.start_execution") if not f.fq.startswith(OPS_PKG)]
        self.finish_sites = [(f, c) for (f, c) in A.all_calls_to("Operation.finish_execution") if not f.fq.startswith(OPS_PKG)]


def _state_events(A: Analysis, node_ast) -> List[str]:
    out = []
    for c in walk_local(node_ast):
        if isinstance(c, ast.Call) and A.res.is_call_to(c, "Operation.set_state") and c.args:
            out.append(norm(c.args[0]).replace("OperationState.", ""))
    return out


# --------------------------------------------------------------------------- EX1..EX5
def rule_ex1(A: Analysis, rep, F: ExecFacts):
    fi = F.proc_fi
    g = A.cfg(fi, "plain")
    sites = [(f, c) for (f, c) in A.all_calls_to("_ReadyToRunQueue.enqueue_op")
             if f.fq != "conductor.execution.executor._ReadyToRunQueue.load"]
    finished = fi.params[1] if len(fi.params) > 1 else None
    # the filtered-batch spelling: `load([d for d in finished.deps_of if d.waiting_on == 0])`
    batch = 0
    for c in A.calls_in(fi.node, "_ReadyToRunQueue.load"):
        arg = A.expand(c.args[0], fi) if c.args else None
        if not isinstance(arg, (ast.ListComp, ast.GeneratorExp, ast.SetComp)) or len(arg.generators) != 1:
            continue
        gen = arg.generators[0]
        x = norm(gen.target)
        batch += 1
        test = gen.ifs[0] if len(gen.ifs) == 1 else ast.BoolOp(op=ast.And(), values=list(gen.ifs)) if gen.ifs else None
        guards = A.dnf(test, True, None) if test is not None else []
        accept = [{("lt(0,%s.waiting_on)" % x, False)}, {("eq(0,%s.waiting_on)" % x, True)},
                  {("t(%s.waiting_on)" % x, False)}, {("lt(%s.waiting_on,1)" % x, True)}]
        off = implies(guards, accept)
        rep.check(off is None and bool(guards) and norm(arg.elt) == x, "EX1", "enqueue gate waiting_on==0", c,
                  "a dependent is enqueued only when its waiting_on counter is zero",
                  "load() of a batch filtered by [%s], which does not imply %s.waiting_on == 0" % (fmt_conj(off or []), x))
        ev = c.args[0]
        if isinstance(ev, ast.Name):
            defs = [st for st in walk_local(fi.node) if isinstance(st, (ast.Assign, ast.AnnAssign))
                    and any(norm(t) == ev.id for t in (st.targets if isinstance(st, ast.Assign) else [st.target]))]
            ev = defs[0] if len(defs) == 1 else c
        n = g.node_of(_stmt_of(ev))
        decs = [m for m in g.nodes if m.kind == "stmt" and any(norm(k.func.value) == finished for k in A.calls_in(m.ast, "Operation.decrement_deps_of_waiting_on"))]
        rep.check(bool(decs) and g.all_paths_pass(g.entry, n, decs, skip_labels=is_exc), "EX1", "decrement before enqueue", c,
                  "the finished op's dependents are decremented before the test",
                  "decrement_deps_of_waiting_on() of the finished op does not dominate the filter")
        rep.check(norm(gen.iter) in ("%s.deps_of" % finished, "%s._deps_of" % finished), "EX1", "all dependents considered", c,
                  "iterates all of finished_op.deps_of", "the batch is not drawn from the whole deps_of of the finished operation")
    if not sites and not batch:
        rep.bad("EX1", "enqueue gate", fi.node, "no operation is ever enqueued after a dependency finished")
    for (f, c) in sites:
        if f.fq != fi.fq:
            continue  # reported by EX3
        n = g.node_of(_stmt_of(c))
        x = norm(c.args[0]) if c.args else "?"
        guards = A.path_guards(g, g.entry, n, fi)
        accept = [{("lt(0,%s.waiting_on)" % x, False)}, {("eq(0,%s.waiting_on)" % x, True)},
                  {("t(%s.waiting_on)" % x, False)}, {("lt(%s.waiting_on,1)" % x, True)}]
        off = implies(guards, accept)
        decs = [m for m in g.nodes if m.kind == "stmt" and any(norm(k.func.value) == finished for k in A.calls_in(m.ast, "Operation.decrement_deps_of_waiting_on"))]
        dom = bool(decs) and all(g.all_paths_pass(g.entry, n, decs, skip_labels=is_exc) for _ in [0])
        # x iterates over all of finished.deps_of
        loop_ok = False
        for anc in _ancestors(c):
            if isinstance(anc, ast.For) and norm(anc.target) == x and norm(anc.iter) in ("%s.deps_of" % finished, "%s._deps_of" % finished):
                loop_ok = True
        rep.check(off is None and bool(guards), "EX1", "enqueue gate waiting_on==0", c,
                  "a dependent is enqueued only when its waiting_on counter is zero",
                  "enqueue_op(%s) reachable under [%s], which does not imply %s.waiting_on == 0" % (x, fmt_conj(off or []), x))
        rep.check(dom, "EX1", "decrement before enqueue", c, "the finished op's dependents are decremented before the test",
                  "decrement_deps_of_waiting_on() of the finished op does not dominate the enqueue")
        rep.check(loop_ok, "EX1", "all dependents considered", c, "iterates all of finished_op.deps_of",
                  "the enqueue loop does not iterate the whole deps_of of the finished operation")
    rep.expect_min("EX1", 3)


def _stmt_of(node):
    n = node
    while not isinstance(n, ast.stmt):
        n = n._parent
    return n


def _ancestors(n):
    n = getattr(n, "_parent", None)
    while n is not None:
        yield n
        n = getattr(n, "_parent", None)


def _only_stmt_loop(fn: FunctionInfo, iter_texts: Set[str], call_attr: str) -> Optional[ast.For]:
    """`for x in <iter>: x.<call_attr>()` unconditionally, as the whole effect of fn."""
    for st in fn.node.body:
        if isinstance(st, ast.For) and norm(st.iter) in iter_texts and not st.orelse:
            ok = False
            for b in st.body:
                if isinstance(b, ast.Expr) and isinstance(b.value, ast.Call) and isinstance(b.value.func, ast.Attribute) \
                        and b.value.func.attr == call_attr and norm(b.value.func.value) == norm(st.target) and not b.value.args:
                    ok = True
                elif isinstance(b, (ast.If, ast.Break, ast.Continue, ast.Return, ast.Try, ast.While, ast.For)):
                    return None
            if ok:
                return st
    return None


def rule_ex2(A: Analysis, rep, F: ExecFacts):
    OP = "execution.ops.operation.Operation."
    # reset_waiting_on assigns len(self._exe_deps)
    r = A.fn(OP + "reset_waiting_on")
    stores = [s for s in walk_local(r.node) if isinstance(s, ast.Assign) and norm(s.targets[0]) == "self._waiting_on"]
    okr = len(stores) == 1 and norm(stores[0].value) in ("len(self._exe_deps)", "len(self.exe_deps)") and stores[0] in r.node.body
    rep.check(okr, "EX2", "reset = len(exe_deps)", r.node, "waiting_on is reset to the number of dependencies",
              "Operation.reset_waiting_on does not assign len(self._exe_deps) unconditionally")
    # field inventory: _waiting_on written only in __init__, reset, _decrement
    writers = sorted({f.fq.rsplit(".", 1)[1] for (f, _s, _v) in A.field_stores("conductor.execution.ops.operation.Operation", "_waiting_on")})
    has_helper = "conductor." + OP + "_decrement_waiting_on" in A.prog.functions
    # the decrement is a helper of its own, or written out in the loop over the dependents (other objects' counters
    # are then written as `<dependent>._waiting_on`, which the field inventory does not attribute to `self`)
    rep.check(writers == (["__init__", "_decrement_waiting_on", "reset_waiting_on"] if has_helper else ["__init__", "decrement_deps_of_waiting_on", "reset_waiting_on"]), "EX2", "waiting_on writers", r.node,
              "counter written only by init/reset/decrement", "unexpected writers of _waiting_on: %s" % writers, deep=False)
    dd = A.fn(OP + "decrement_deps_of_waiting_on")
    if has_helper:
        d = A.fn(OP + "_decrement_waiting_on")
        augs = [s for s in walk_local(d.node) if isinstance(s, ast.AugAssign) and norm(s.target) == "self._waiting_on"]
        okd = len(augs) == 1 and isinstance(augs[0].op, ast.Sub) and norm(augs[0].value) == "1" and augs[0] in d.node.body
        rep.check(okd, "EX2", "decrement by exactly 1", d.node, "each finished dependency subtracts 1",
                  "_decrement_waiting_on does not subtract exactly 1 unconditionally")
        lp = _only_stmt_loop(dd, {"self.deps_of", "self._deps_of"}, "_decrement_waiting_on")
    else:
        lp = None
        for st in dd.node.body:
            if isinstance(st, ast.For) and norm(st.iter) in ("self.deps_of", "self._deps_of") and not st.orelse and isinstance(st.target, ast.Name):
                augs = [b for b in st.body if isinstance(b, ast.AugAssign) and norm(b.target) == "%s._waiting_on" % st.target.id]
                plain = all(isinstance(b, (ast.AugAssign, ast.Assert, ast.Expr)) for b in st.body)
                if len(augs) == 1 and isinstance(augs[0].op, ast.Sub) and norm(augs[0].value) == "1" and plain:
                    lp = st
        other = [s for f in A.prog.scan_functions if f.fq != dd.fq for s in walk_local(f.node)
                 if isinstance(s, (ast.AugAssign, ast.Assign)) and any(isinstance(t, ast.Attribute) and t.attr == "_waiting_on" and norm(t.value) != "self"
                                                                       for t in ([s.target] if isinstance(s, ast.AugAssign) else s.targets))]
        rep.check(lp is not None and not other, "EX2", "decrement by exactly 1", dd.node, "each finished dependency subtracts 1",
                  "the dependents' counters are not decremented by exactly 1 each, only here")
    rep.check(lp is not None, "EX2", "decrement all dependents", dd.node, "every dependent is decremented",
              "decrement_deps_of_waiting_on does not decrement every element of deps_of unconditionally")
    pr = A.fn("execution.plan.ExecutionPlan.reset_waiting_on")
    lp2 = _only_stmt_loop(pr, {"self.all_ops"}, "reset_waiting_on")
    rep.check(lp2 is not None, "EX2", "plan resets all ops", pr.node, "every op of the plan is reset",
              "ExecutionPlan.reset_waiting_on does not reset every op in all_ops")
    # add_exe_dep / add_dep_of / properties
    for meth, field in (("add_exe_dep", "_exe_deps"), ("add_dep_of", "_deps_of")):
        m = A.fn(OP + meth)
        p_ = m.params[1]
        ok = any(isinstance(s, ast.Expr) and norm(s.value) == "self.%s.append(%s)" % (field, p_) for s in m.node.body)
        rep.check(ok, "EX2", "%s appends" % meth, m.node, "edge recorded", "%s does not append its argument to %s" % (meth, field), deep=False)
    for prop, field in (("exe_deps", "_exe_deps"), ("deps_of", "_deps_of"), ("waiting_on", "_waiting_on")):
        m = A.fn(OP + prop)
        rets = [x for x in walk_local(m.node) if isinstance(x, ast.Return)]
        rep.check(len(rets) == 1 and norm(rets[0].value) == "self." + field, "EX2", "property %s" % prop, m.node,
                  "getter returns the field", "%s does not return self.%s" % (prop, field), deep=False)
    # run_plan: plan.reset_waiting_on() dominates load(initial_ops) and the main loop
    g = A.cfg(F.run_fi, "plain")
    plan = F.run_fi.params[1]
    resets = [n for n in g.nodes if n.kind == "stmt" and any(norm(c.func.value) == plan for c in A.calls_in(n.ast, "ExecutionPlan.reset_waiting_on"))]
    loads = [n for n in g.nodes if n.kind == "stmt" and A.calls_in(n.ast, "_ReadyToRunQueue.load")]
    okl = bool(resets) and bool(loads) and all(g.all_paths_pass(g.entry, l, resets, skip_labels=is_exc) for l in loads)
    load_arg_ok = all(norm(c.args[0]) == "%s.initial_ops" % plan for l in loads for c in A.calls_in(l.ast, "_ReadyToRunQueue.load"))
    rep.check(okl and load_arg_ok, "EX2", "reset before load", F.run_fi.node, "counters are reset before the initial ops are loaded",
              "plan.reset_waiting_on() does not dominate ready_to_run.load(plan.initial_ops)")
    ld = A.fn(EXE + "_ReadyToRunQueue.load")
    lp3 = None
    for st in ld.node.body:
        if isinstance(st, ast.For) and norm(st.iter) == ld.params[1] and len(st.body) == 1 and \
                norm(st.body[0]) == "self.enqueue_op(%s)" % norm(st.target):
            lp3 = st
    rep.check(lp3 is not None, "EX2", "load enqueues all", ld.node, "every initial op is enqueued", "load() does not enqueue every initial op")
    rep.expect_min("EX2", 12)


def rule_ex3(A: Analysis, rep, F: ExecFacts):
    callers = sorted({f.fq.split("conductor.execution.executor.")[-1] for (f, _c) in A.all_calls_to("_ReadyToRunQueue.enqueue_op")})
    lcallers = sorted({f.fq.split("conductor.execution.executor.")[-1] for (f, _c) in A.all_calls_to("_ReadyToRunQueue.load")})
    rep.check("_ReadyToRunQueue.load" in callers and set(callers) <= {"Executor._process_finished_op", "_ReadyToRunQueue.load"}
              and ("Executor._process_finished_op" in callers or "Executor._process_finished_op" in lcallers)
              and set(lcallers) <= {"Executor.run_plan", "Executor._process_finished_op"}, "EX3", "who may enqueue", None,
              "enqueue_op is called only by load() and _process_finished_op()", "enqueue_op callers: %s; load callers: %s" % (callers, lcallers))
    callers = sorted({f.fq.split("conductor.execution.executor.")[-1] for (f, _c) in A.all_calls_to("Executor._process_finished_op")})
    rep.check(callers == ["Executor._launch_ops_if_able", "Executor._wait_for_next_inflight_op"], "EX3", "who may finish", None,
              "_process_finished_op is called only from the launch loop and the wait step", "_process_finished_op callers: %s" % callers)
    rep.check(len(F.launch_sites) == 1 and F.launch_sites[0][0].fq == F.launch_fi.fq, "EX3", "single launch site", None,
              "operations are started only by _launch_ops_if_able", "start_execution call sites: %s" % [f.fq for f, _ in F.launch_sites])
    rep.check(len(F.finish_sites) == 1 and F.finish_sites[0][0].fq == F.wait_fi.fq, "EX3", "single finish site", None,
              "finish_execution is called only by _wait_for_next_inflight_op", "finish_execution call sites: %s" % [f.fq for f, _ in F.finish_sites])
    # dequeue only in the launch loop
    dq = sorted({f.fq.rsplit(".", 1)[1] for (f, _c) in A.all_calls_to("_ReadyToRunQueue.dequeue_next")})
    rep.check(dq == ["_launch_ops_if_able"], "EX3", "single dequeue site", None, "ops leave the ready queue only in the launch loop",
              "dequeue_next callers: %s" % dq)


def _succeeded_states(A: Analysis) -> Optional[Set[str]]:
    m = A.fn("execution.ops.operation.Operation.succeeded")
    rets = [x for x in walk_local(m.node) if isinstance(x, ast.Return)]
    if len(rets) != 1:
        return None
    e = A.expand(rets[0].value, m)     # `state = self.state` read once into a local is the same value
    states: Set[str] = set()

    def term(x) -> bool:
        if isinstance(x, ast.Compare) and len(x.ops) == 1 and norm(x.left) in ("self.state", "self._state"):
            if isinstance(x.ops[0], ast.Eq) or (isinstance(x.ops[0], ast.Is) and A._enum_member(x.comparators[0])):
                states.add(norm(x.comparators[0]).replace("OperationState.", ""))
                return True
            if isinstance(x.ops[0], ast.In) and isinstance(x.comparators[0], (ast.Tuple, ast.List, ast.Set)):
                for el in x.comparators[0].elts:
                    states.add(norm(el).replace("OperationState.", ""))
                return True
            if isinstance(x.ops[0], ast.In) and isinstance(x.comparators[0], ast.Name):
                els = A.const_elements(m.module, x.comparators[0].id)
                if els is not None:
                    for el in els:
                        states.add(el.replace("OperationState.", ""))
                    return True
        return False
    if isinstance(e, ast.BoolOp) and isinstance(e.op, ast.Or):
        if not all(term(v) for v in e.values):
            return None
    elif not term(e):
        return None
    return states


def _all_over(e: ast.expr, elem_pred, iter_texts: Set[str]) -> bool:
    """e is `all(<pred(x)> for x in ITER)` / `all(map(lambda x: pred(x), ITER))` / `all([..])`."""
    if not (isinstance(e, ast.Call) and isinstance(e.func, ast.Name) and e.func.id == "all" and len(e.args) == 1):
        return False
    a = e.args[0]
    if isinstance(a, (ast.GeneratorExp, ast.ListComp)):
        if len(a.generators) != 1 or a.generators[0].ifs:
            return False
        gen = a.generators[0]
        return norm(gen.iter) in iter_texts and isinstance(gen.target, ast.Name) and elem_pred(a.elt, gen.target.id)
    if isinstance(a, ast.Call) and isinstance(a.func, ast.Name) and a.func.id == "map" and len(a.args) == 2:
        lam, it = a.args
        if isinstance(lam, ast.Lambda) and len(lam.args.args) == 1 and norm(it) in iter_texts:
            return elem_pred(lam.body, lam.args.args[0].arg)
    return False


def _fn_all_over(fn_node: ast.FunctionDef, elem_pred, iter_texts: Set[str]) -> bool:
    """The function returns `all(pred(x) for x in ITER)`, spelled as a single `return all(...)` or as the
    explicit loop `for x in ITER: if not pred(x): return False` followed by `return True`."""
    body = [s for s in fn_node.body if not (isinstance(s, ast.Expr) and isinstance(s.value, ast.Constant))]
    if len(body) == 1 and isinstance(body[0], ast.Return) and body[0].value is not None:
        return _all_over(body[0].value, elem_pred, iter_texts)
    if len(body) == 2 and isinstance(body[0], ast.For) and isinstance(body[1], ast.Return):
        loop, last = body
        if loop.orelse or not isinstance(loop.target, ast.Name) or norm(loop.iter) not in iter_texts or norm(last.value) != "True" or len(loop.body) != 1:
            return False
        i = loop.body[0]
        if not (isinstance(i, ast.If) and not i.orelse and len(i.body) == 1 and isinstance(i.body[0], ast.Return) and norm(i.body[0].value) == "False"):
            return False
        return isinstance(i.test, ast.UnaryOp) and isinstance(i.test.op, ast.Not) and elem_pred(i.test.operand, loop.target.id)
    return False


def rule_ex4(A: Analysis, rep, F: ExecFacts):
    st = _succeeded_states(A)
    rep.check(st is not None and "SUCCEEDED" in st and st <= {"SUCCEEDED", "SUCCEEDED_CACHED"}, "EX4", "succeeded() state set",
              A.fn("execution.ops.operation.Operation.succeeded").node,
              "succeeded() accepts exactly SUCCEEDED / SUCCEEDED_CACHED",
              "succeeded() accepts %s — skipped/failed/queued dependencies would count as success" % (sorted(st) if st else "an unrecognised form"))
    m = A.fn("execution.ops.operation.Operation.exe_deps_succeeded")
    rets = [x for x in walk_local(m.node) if isinstance(x, ast.Return)]
    ok = _fn_all_over(m.node, lambda el, v: norm(el) == "%s.succeeded()" % v, {"self.exe_deps", "self._exe_deps"})
    rep.check(ok, "EX4", "exe_deps_succeeded = all(succeeded)", m.node, "all dependencies must have succeeded",
              "exe_deps_succeeded() is not `all(dep.succeeded() for dep in exe_deps)`")
    # overriders of succeeded / exe_deps_succeeded
    for name in ("succeeded", "exe_deps_succeeded"):
        ov = A.prog.overriders("conductor.execution.ops.operation.Operation", name)
        rep.check(len(ov) == 1, "EX4", "no override of %s" % name, None, "", "%s is overridden: %s" % (name, [o.fq for o in ov]), deep=False)
    # LAUNCH guarded by exe_deps_succeeded() of the same op
    fi = F.launch_fi
    g = A.cfg(fi, "plain")
    for (f, c) in F.launch_sites:
        if f.fq != fi.fq:
            continue
        recv = norm(c.func.value)
        n = g.node_of(_stmt_of(c))
        dq = _dequeue_node(A, g, fi)
        guards = A.path_guards(g, dq, n, fi)
        need = ("t(%s.exe_deps_succeeded())" % recv, True)
        rep.check(bool(guards) and all(need in cj for cj in guards), "EX4", "start gate", c,
                  "start_execution is reached only when exe_deps_succeeded() is true for that op",
                  "start_execution(%s) is reachable without `%s.exe_deps_succeeded()` being true: [%s]" % (
                      recv, recv, " | ".join(fmt_conj(cj) for cj in guards)))
        # the dequeued op is the launched op
        dq_t = norm(dq.ast.targets[0]) if isinstance(dq.ast, ast.Assign) else None
        rep.check(dq_t == recv, "EX4", "launched op is the dequeued op", c, "", "the op started is not the op dequeued", deep=False)
    rep.expect_min("EX4", 5)


def _dequeue_node(A: Analysis, g: CFG, fi: FunctionInfo) -> Node:
    ns = [n for n in g.nodes if n.kind == "stmt" and A.calls_in(n.ast, "_ReadyToRunQueue.dequeue_next")]
    if len(ns) != 1:
        raise AnalysisError("expected one dequeue_next() statement in %s" % fi.fq)
    return ns[0]


def rule_ex5(A: Analysis, rep, F: ExecFacts):
    # every place that sets SUCCEEDED / SUCCEEDED_CACHED
    sites = []
    for (f, c) in A.all_calls_to("Operation.set_state"):
        if c.args and "SUCCEEDED" in norm(c.args[0]):
            sites.append((f, c))
    for (f, s, v) in A.field_stores("conductor.execution.ops.operation.Operation", "_state"):
        if v is not None and "SUCCEEDED" in norm(v):
            sites.append((f, s))
    rep.check(len(sites) == 1 and sites[0][0].fq == F.wait_fi.fq, "EX5", "who sets SUCCEEDED", None,
              "SUCCEEDED is set at exactly one site, in the wait step", "SUCCEEDED is set in: %s" % sorted({f.fq for f, _ in sites}))
    for (f, c) in A.all_calls_to("conductor.execution.ops.operation.Operation"):
        pass
    # constructions pass initial_state=QUEUED
    OPc = "conductor.execution.ops.operation.Operation"
    n_cons = 0
    for cls in A.prog.subclasses(OPc, strict=True):
        for (f, c) in A.constructions(cls):
            v = A.kw(c, "initial_state")
            n_cons += 1
            rep.check(v is not None and norm(v) == "OperationState.QUEUED", "EX5", "initial state QUEUED", c,
                      "ops start QUEUED", "operation constructed with initial_state=%s" % (norm(v) if v is not None else "?"), deep=False)
    fi = F.wait_fi
    g = A.cfg(fi, "sync")
    fin = [n for n in g.nodes if n.kind == "stmt" and A.calls_in(n.ast, "Operation.finish_execution")]
    suc = [n for n in g.nodes if n.kind == "stmt" and "SUCCEEDED" in _state_events(A, n.ast)]
    if len(fin) != 1 or len(suc) != 1:
        rep.bad("EX5", "SUCCEEDED after finish", fi.node, "finish/SUCCEEDED sites: %d/%d" % (len(fin), len(suc)))
        return
    fn_, sn = fin[0], suc[0]
    # the only way to reach SUCCEEDED is the normal out-edge of finish_execution
    r = g.reach([g.entry], removed_edges=[(fn_, "n")])
    handlers = [n for n in g.nodes if n.kind == "except"]
    from_handler = g.reach(handlers)
    same_op = norm(A.calls_in(fn_.ast, "Operation.finish_execution")[0].func.value) == \
        norm([c for c in walk_local(sn.ast) if isinstance(c, ast.Call) and A.res.is_call_to(c, "Operation.set_state")][0].func.value)
    rep.check(sn not in r and sn not in from_handler and same_op, "EX5", "SUCCEEDED only after finish returned", sn.ast,
              "SUCCEEDED is set only when finish_execution returned normally, for the same op",
              "SUCCEEDED can be set without finish_execution having returned normally (or from a handler)")
    rep.expect_min("EX5", 5)


# --------------------------------------------------------------------------- EX6, EX7
def _events_on_path(A: Analysis, path, op_var: str) -> List[Tuple[str, Node]]:
    ev = []
    for (n, lbl) in path:
        if n.ast is None or n.kind in ("except", "for"):
            if n.kind == "except":
                ev.append(("H:" + (norm(n.ast.type) if n.ast.type is not None else "*"), n))
            continue
        root = n.ast
        for c in walk_local(root):
            if not isinstance(c, ast.Call):
                continue
            if A.res.is_call_to(c, "Operation.start_execution"):
                ev.append(("L" if not is_exc(lbl) else "Lx", n))
            elif A.res.is_call_to(c, "Operation.finish_execution"):
                ev.append(("F" if not is_exc(lbl) else "Fx", n))
            elif A.res.is_call_to(c, "_InflightOperations.add_op"):
                ev.append(("A" if not is_exc(lbl) else "Ax", n))
            elif A.res.is_call_to(c, "Executor._process_finished_op"):
                if c.args and norm(c.args[0]) == op_var:
                    ev.append(("P", n))
                else:
                    ev.append(("P?", n))
            elif A.res.is_call_to(c, "Operation.set_state") and c.args and norm(c.func.value) == op_var:
                ev.append(("S:" + norm(c.args[0]).replace("OperationState.", ""), n))
            elif A.res.is_call_to(c, "Operation.store_error") and norm(c.func.value) == op_var:
                ev.append(("E", n))
        if isinstance(root, ast.Return):
            ev.append(("R:" + (norm(root.value) if root.value is not None else "None"), n))
        if isinstance(root, ast.Raise):
            ev.append(("raise", n))
    return ev


def rule_ex6(A: Analysis, rep, F: ExecFacts, stop_rules=True):
    fi = F.launch_fi
    g = A.cfg(fi, "sync")
    dq = _dequeue_node(A, g, fi)
    op = norm(dq.ast.targets[0])
    loops = [n for n in g.nodes if n.kind == "test" and isinstance(n.info, ast.While)]
    header = None
    for n in loops:
        if id(dq.ast) in {id(x) for x in ast.walk(n.info)}:
            header = n
    if header is None:
        raise AnalysisError("EX6: dequeue is not inside a loop")
    # iteration ends: nodes with a back edge to the header, return nodes (-> exit), raise exit
    ends: Set[Node] = {g.exit, g.raise_exit}
    paths = g.enum_paths(dq, ends | {header}, skip_labels=None, stop={header})
    # enum_paths stops at header because header in dsts
    n_ok = 0
    problems: Dict[str, Tuple[Node, str]] = {}
    for path in paths:
        last = path[-1][0]
        ev = _events_on_path(A, path, op)
        names = [e for e, _ in ev]
        states = [e[2:] for e in names if e.startswith("S:")]
        tag = None
        if last is g.raise_exit:
            # abort path must mark ABORTED; other uncaught exceptions are internal errors (out of scope)
            explicit = len(path) > 1 and isinstance(path[-2][0].ast, ast.Raise)
            if explicit and any(e == "H:ConductorAbort" for e in names):
                if "ABORTED" not in states or "raise" not in names:
                    tag = "abort handler does not set ABORTED and re-raise"
                if "P" in names:
                    tag = "abort path processes the op as finished"
            n_ok += 1 if tag is None else 0
        else:
            nP, nA = names.count("P"), names.count("A")
            if "P?" in names:
                tag = "_process_finished_op called with something other than the dequeued op"
            elif nP + nA != 1:
                tag = "iteration ends with the dequeued op %s" % (
                    "neither registered in flight nor processed as finished (the op is lost)" if nP + nA == 0
                    else "both registered in flight and processed / processed twice")
            elif nP == 1:
                before = names[:names.index("P")]
                st = [e[2:] for e in before if e.startswith("S:")]
                if not st or st[-1] not in ("SKIPPED", "FAILED"):
                    tag = "op processed as finished without being marked SKIPPED or FAILED first"
                elif st[-1] == "SKIPPED" and ("L" in names or "Lx" in names):
                    tag = "op marked SKIPPED although it was started"
                elif st[-1] == "FAILED" and "E" not in before:
                    tag = "op marked FAILED without storing its error (nothing to report)"
                elif st[-1] == "FAILED" and not any(e.startswith("H:ConductorError") for e in names):
                    tag = "FAILED outside the ConductorError handler"
            elif nA == 1:
                if "L" not in names[:names.index("A")]:
                    tag = "op registered in flight without having been started"
                elif states:
                    tag = "in-flight op has its state changed in the launch loop"
            rets = [e for e in names if e.startswith("R:")]
            if tag is None and rets:
                if rets[-1] == "R:True" and "FAILED" not in states:
                    tag = "returns True (stop) without a failure"
            n_ok += 1 if tag is None else 0
        if tag and tag not in problems:
            problems[tag] = (path[-2][0] if len(path) > 1 else last, " → ".join(names))
    for tag, (node, trace) in problems.items():
        rep.bad("EX6", "launch-loop typestate", node.ast if node.ast is not None else fi.node, "%s (events: %s)" % (tag, trace),
                key="EX6|" + tag)
    if not problems:
        rep.ok("EX6", "launch-loop typestate", fi.node, "%d paths from dequeue_next() classified: skipped / launched / failed / aborted" % len(paths))
    if not stop_rules:
        rep.expect_min("EX6", 1)
        return
    # stop-early: once a launch failure was observed under stop_on_first_error, nothing else may be dequeued
    gp = A.cfg(fi, "plain")
    failed_nodes = [n for n in gp.nodes if n.kind == "stmt" and "FAILED" in _state_events(A, n.ast)]
    hdr_p = [n for n in gp.nodes if n.kind == "test" and isinstance(n.info, ast.While) and id(dq.ast) in {id(x) for x in ast.walk(n.info)}][0]
    stop_tests = [n for n in gp.nodes if n.kind == "test" and A.dnf(n.ast, True, fi) == [frozenset({("t(stop_on_first_error)", True)})]]
    for fnode in failed_nodes:
        # paths on which stop_on_first_error is true: remove the F edges of the stop tests
        r = gp.reach([fnode], removed_edges=[(t, "F") for t in stop_tests])
        again = hdr_p in r and bool(stop_tests) or (not stop_tests)
        # without a stop test the header is reachable unconditionally
        if stop_tests:
            r2 = gp.reach([fnode], removed_edges=[(t, "F") for t in stop_tests])
            again = hdr_p in r2
        rep.check(not again, "EX6", "stop-early: nothing is started after a launch failure", fnode.ast,
                  "with stop_on_first_error every path from the failure leaves the launch loop",
                  "after a launch failure the loop can dequeue and start another op although stop_on_first_error is set (no task may start after the first failure)")
    # a truthy return needs stop_on_first_error
    for n in gp.nodes:
        if n.kind == "stmt" and isinstance(n.ast, ast.Return) and n.ast.value is not None and norm(n.ast.value) != "False":
            if norm(n.ast.value) == "True":
                okr = _guarded_by(A, n.ast, "stop_on_first_error")
            else:
                d = A.dnf(n.ast.value, True, fi, inline=False)
                okr = bool(d) and all(("t(stop_on_first_error)", True) in c for c in d)
            rep.check(okr, "EX6", "stop only on request", n.ast, "a truthy result requires stop_on_first_error",
                      "the launch loop can ask the executor to stop although --stop-early was not requested")
    rep.expect_min("EX6", 2)


def _guarded_by(A: Analysis, stmt: ast.stmt, name: str) -> bool:
    for anc in _ancestors(stmt):
        if isinstance(anc, ast.If) and stmt_in(stmt, anc.body):
            d = A.dnf(anc.test, True, getattr(stmt, "_func", None))
            if all(("t(%s)" % name, True) in c for c in d) and d:
                return True
    return False


def stmt_in(stmt, body) -> bool:
    ids = set()
    for b in body:
        ids.update(id(x) for x in ast.walk(b))
    return id(stmt) in ids


def rule_ex7(A: Analysis, rep, F: ExecFacts):
    fi = F.wait_fi
    g = A.cfg(fi, "sync")
    ws = [n for n in g.nodes if n.kind == "stmt" and A.calls_in(n.ast, "_InflightOperations.wait_for_next_op")]
    if len(ws) != 1 or not isinstance(ws[0].ast, ast.Assign) or not isinstance(ws[0].ast.targets[0], ast.Tuple):
        raise AnalysisError("EX7: expected `handle, op = ...wait_for_next_op()`")
    w = ws[0]
    handle, op = [norm(x) for x in w.ast.targets[0].elts]
    paths = g.enum_paths(w, {g.exit, g.raise_exit})
    problems: Dict[str, Tuple[Node, str]] = {}
    for path in paths:
        last = path[-1][0]
        ev = _events_on_path(A, path[1:], op)
        names = [e for e, _ in ev]
        states = [e[2:] for e in names if e.startswith("S:")]
        tag = None
        if last is g.raise_exit:
            explicit = len(path) > 1 and isinstance(path[-2][0].ast, ast.Raise)
            if explicit and "H:ConductorAbort" in names and ("ABORTED" not in states or "raise" not in names):
                tag = "abort handler does not set ABORTED and re-raise"
        else:
            if names.count("P") != 1 or "P?" in names:
                tag = "the finished op is processed %d times (dependents would %s)" % (
                    names.count("P"), "never be released" if names.count("P") == 0 else "be released twice")
            else:
                before = names[:names.index("P")]
                st = [e[2:] for e in before if e.startswith("S:")]
                if not st or st[-1] not in ("SUCCEEDED", "FAILED"):
                    tag = "op processed without a final state"
                elif st[-1] == "SUCCEEDED" and "F" not in before:
                    tag = "SUCCEEDED without finish_execution returning"
                elif st[-1] == "FAILED" and ("E" not in before or not any(e.startswith("H:ConductorError") for e in before)):
                    tag = "FAILED without storing the error / outside the ConductorError handler"
                elif len(set(st)) > 1:
                    tag = "two different states set on one path"
        if tag and tag not in problems:
            problems[tag] = (path[-2][0], " → ".join(names))
    for tag, (node, trace) in problems.items():
        rep.bad("EX7", "wait typestate", node.ast if node.ast is not None else fi.node, "%s (events: %s)" % (tag, trace), key="EX7|" + tag)
    if not problems:
        rep.ok("EX7", "wait typestate", fi.node, "%d paths from wait_for_next_op() classified: succeeded / failed / aborted" % len(paths))
    # return value = error_occurred and stop_on_first_error, error flag set only in the ConductorError handler
    rets = [n.ast for n in g.nodes if n.kind == "stmt" and isinstance(n.ast, ast.Return)]
    ok = False
    # the value returned, over every return and the condition it is reached under, as a function of (error flag, stop flag)
    stop_p = fi.params[2] if len(fi.params) > 2 else "stop_on_first_error"
    flags = sorted({t.id for s_ in walk_local(fi.node) if isinstance(s_, ast.Assign) and norm(s_.value) in ("True", "False")
                    for t in s_.targets if isinstance(t, ast.Name)})
    flags = [f_ for f_ in flags if sorted(norm(x.value) for x in A.defs(fi, f_) if isinstance(x, ast.Assign)) == ["False", "True"]]
    if len(flags) == 1 and rets and all(r_.value is not None for r_ in rets):
        flag = flags[0]
        keep_ = ("t(%s)" % flag, "t(%s)" % stop_p)
        pairs_ = []
        for r_ in rets:
            for c in A.path_guards(g, g.entry, g.node_of(r_), fi):
                c = frozenset(a for a in c if a[0] in keep_)
                for pol in (True, False):
                    for d in A.dnf(r_.value, pol, fi, inline=False):
                        if all(a[0] in keep_ for a in d) and not any((a, not p_) in c for a, p_ in d):
                            pairs_.append((c | d, pol))
        from .selection import truth_table
        mism, _n = truth_table(pairs_, {keep_[0]: "error", keep_[1]: "stop"}, lambda a: a["error"] and a["stop"])
        defs = A.defs(fi, flag)
        true_in_handler = all(any(isinstance(a, ast.ExceptHandler) and a.type is not None and "ConductorError" in norm(a.type)
                                  for a in _ancestors(x)) for x in defs if isinstance(x, ast.Assign) and norm(x.value) == "True")
        ok = mism is None and true_in_handler
    rep.check(ok, "EX7", "stop flag", fi.node, "returns `error ∧ stop_on_first_error`",
              "the wait step's return value is not `error_occurred and stop_on_first_error`")
    rep.expect_min("EX7", 2)


# --------------------------------------------------------------------------- EX8..EX10
def rule_ex8(A: Analysis, rep, F: ExecFacts):
    fi = F.run_fi
    g = A.cfg(fi, "plain")
    loops = [n for n in walk_local(fi.node) if isinstance(n, ast.While)]
    main = [l for l in loops if A.calls_in(l, "Executor._launch_ops_if_able")]
    if len(main) != 1:
        raise AnalysisError("EX8: main loop of run_plan not found")
    loop = main[0]
    d = A.dnf(loop.test, True, fi)
    want = sorted([[("t(self._ready_to_run.has_ops())", True)], [("empty(self._inflight_ops)", False)]])
    rep.check(sorted(sorted(c) for c in d) == want, "EX8", "loop condition", loop,
              "runs while ops are ready or in flight", "main loop condition is [%s]" % " | ".join(fmt_conj(c) for c in d))
    # has_ops covers both queues; __len__ counts both kinds
    ho = A.fn(EXE + "_ReadyToRunQueue.has_ops")
    r = [x for x in walk_local(ho.node) if isinstance(x, ast.Return)]
    dd = A.dnf(r[0].value, True, ho, inline_preds=True) if len(r) == 1 else []
    rep.check(sorted(sorted(c) for c in dd) == sorted([[("empty(self._parallel_ops)", False)], [("empty(self._sequential_ops)", False)]]),
              "EX8", "has_ops covers both queues", ho.node, "", "has_ops() is [%s]" % " | ".join(fmt_conj(c) for c in dd))
    ln = A.fn(EXE + "_InflightOperations.__len__")
    r = [x for x in walk_local(ln.node) if isinstance(x, ast.Return)]
    rep.check(len(r) == 1 and sorted(norm(x) for x in _sum_terms(A.expand(r[0].value, ln))) == ["len(self._processes)", "len(self._sync_ops)"],
              "EX8", "len counts processes and sync ops", ln.node, "", "__len__ of the in-flight set is `%s`" % (norm(r[0].value) if r else "?"))
    # exits: breaks only under the stop flag which comes from the two helpers
    brks = [b for b in walk_local(loop) if isinstance(b, ast.Break)]
    okb = True
    for b in brks:
        par = b._parent
        if not isinstance(par, ast.If):
            okb = False
            continue
        if isinstance(par.test, ast.Name):
            vals = [x.value for x in A.defs(fi, par.test.id) if isinstance(x, ast.Assign)]
            for v in vals:
                if isinstance(v, ast.Constant) and v.value is False:
                    continue
                if isinstance(v, ast.Call) and A.res.is_call_to(v, "Executor._launch_ops_if_able", "Executor._wait_for_next_inflight_op"):
                    continue
                okb = False
        else:
            # the branch is taken only when one of the helpers returned true (whatever else is tested with it)
            hc = [c for c in ast.walk(par.test) if isinstance(c, ast.Call) and A.res.is_call_to(c, "Executor._launch_ops_if_able", "Executor._wait_for_next_inflight_op")]
            d_ = A.dnf(par.test, True, fi, inline=False)
            in_body = any(x is b for st_ in par.body for x in ast.walk(st_))
            if not (in_body and hc and d_ and all(any((A.atom(c, fi)[0], True) in cj for c in hc) for cj in d_)):
                okb = False
    rets = [x for x in walk_local(loop) if isinstance(x, ast.Return)]
    rep.check(okb and not rets, "EX8", "loop exits", loop, "the loop is left early only on the stop flag returned by the helpers",
              "the main loop can be left early for another reason")
    # wait only when something is in flight
    gw = [n for n in g.nodes if n.kind in ("stmt", "test") and n.ast is not None and A.calls_in(n.ast, "Executor._wait_for_next_inflight_op")]
    hdr = [n for n in g.nodes if n.kind == "test" and n.info is loop][0]
    for n in gw:
        guards = A.path_guards(g, hdr, n, fi)
        if n.kind == "test":
            # the call sits inside a test: add the condition under which it is evaluated at all
            from ..analysis import _and_all
            wc = [c for c in ast.walk(n.ast) if isinstance(c, ast.Call) and A.res.is_call_to(c, "Executor._wait_for_next_inflight_op")]
            if wc:
                guards = _and_all([guards, A.eval_guard(n.ast, wc[0], fi)])
        rep.check(bool(guards) and all(("empty(self._inflight_ops)", False) in c for c in guards), "EX8", "wait only if in flight", n.ast,
                  "the blocking wait is reached only when an op is in flight",
                  "the wait step can be reached with nothing in flight (blocks forever): [%s]" % " | ".join(fmt_conj(c) for c in guards))
    # each iteration calls the launch step first
    ls = [n for n in g.nodes if n.kind in ("stmt", "test") and n.ast is not None and A.calls_in(n.ast, "Executor._launch_ops_if_able")]
    body_entry = [m for (m, l) in hdr.succ if l == "T"]
    rep.check(bool(ls) and all(g.all_paths_pass(be, w, ls, skip_labels=skip) for be in body_entry for w in gw), "EX8", "launch before wait", loop,
              "", "the wait step is reachable without the launch step having run in that iteration")
    rep.expect_min("EX8", 5)


def _sum_terms(e):
    if isinstance(e, ast.BinOp) and isinstance(e.op, ast.Add):
        return _sum_terms(e.left) + _sum_terms(e.right)
    return [e]


def collect_fills(A: Analysis, fi, g=None):
    """Lists that are filled from an iterable: (list name, iterable, element, guard DNF) for the loop form
    `for x in IT: … L.append(E)` (guard = path condition inside one iteration) and for `L = [E for x in IT if C]`."""
    g = g or A.cfg(fi, "plain")
    out = []
    for node in walk_local(fi.node):
        if isinstance(node, (ast.Assign, ast.AnnAssign)) and isinstance(node.value, ast.ListComp) and len(node.value.generators) == 1:
            tg = node.targets[0] if isinstance(node, ast.Assign) else node.target
            gen = node.value.generators[0]
            if isinstance(tg, ast.Name):
                cond = ast.BoolOp(op=ast.And(), values=list(gen.ifs)) if len(gen.ifs) > 1 else (gen.ifs[0] if gen.ifs else ast.Constant(value=True))
                out.append((tg.id, gen.iter, node.value.elt, A.dnf(cond, True, fi, inline=False)))
        elif isinstance(node, ast.For):
            hdr = [n for n in g.nodes if n.kind == "for" and n.ast is node]
            if not hdr:
                continue
            be = [m for (m, l) in hdr[0].succ if l == "T"]
            inside = {id(x) for x in ast.walk(node)}
            for n in g.nodes:
                if n.kind == "stmt" and isinstance(n.ast, ast.Expr) and isinstance(n.ast.value, ast.Call) and isinstance(n.ast.value.func, ast.Attribute) \
                        and n.ast.value.func.attr == "append" and isinstance(n.ast.value.func.value, ast.Name) and id(n.ast) in inside and n.ast.value.args:
                    # innermost loop only
                    anc = getattr(n.ast, "_parent", None)
                    while anc is not None and not isinstance(anc, ast.For):
                        anc = getattr(anc, "_parent", None)
                    if anc is node and be:
                        out.append((n.ast.value.func.value.id, node.iter, n.ast.value.args[0], A.path_guards(g, be[0], n, fi)))
    return out


def rule_ex9(A: Analysis, rep, F: ExecFacts):
    fi = F.report_fi
    g = A.cfg(fi, "plain")
    # every normal exit is control dependent on all(op.succeeded() ...)
    v = A.single_def_value(fi, "all_succeeded")
    ok_all = v is not None and _all_over(v, lambda el, x: norm(el) == "%s.succeeded()" % x, {"self._completed_ops"})
    rep.check(ok_all, "EX9", "all_succeeded = all(op.succeeded())", fi.node, "the verdict is computed over every completed op",
              "all_succeeded is not `all(op.succeeded() for op in self._completed_ops)`")
    guards = A.path_guards(g, g.entry, g.exit, fi)
    need_names = ("all_succeeded",)
    okx = bool(guards) and all(any(a == "t(all_succeeded)" and pol for a, pol in c) or
                               any("succeeded()" in a and pol for a, pol in c) for c in guards)
    # path_guards inlines single-assignment booleans; all_succeeded becomes t(all(...))
    okx = bool(guards) and all(any(pol and ("all_succeeded" in a or "succeeded()" in a) for a, pol in c) for c in guards)
    rep.check(okx, "EX9", "normal return ⇒ all succeeded", fi.node,
              "the report returns normally (exit 0) only if every completed op succeeded; otherwise it raises",
              "_report_execution_results can return normally although an op did not succeed: [%s]" % " | ".join(fmt_conj(c) for c in guards))
    # the else branch ends in a raise of a stored error
    raises = [n for n in g.nodes if n.kind == "stmt" and isinstance(n.ast, ast.Raise)]
    rep.check(any(r.ast.exc is not None and "stored_error" in A.xtext(r.ast.exc, fi) for r in raises), "EX9", "raises the failure", fi.node,
              "the first failed op's error is raised", "no stored error is raised on failure", deep=False)
    # failed / skipped lists are filled by state
    fills = {}
    for (lst, it_, elt_, guard) in collect_fills(A, fi, g):
        if norm(it_) == "self._completed_ops":
            fills[lst] = " | ".join(fmt_conj(c) for c in guard)
    sk = [k for k, t in fills.items() if "eq(OperationState.SKIPPED," in t and "!eq(OperationState.SKIPPED," not in t and " | " not in t]
    fl = [k for k, t in fills.items() if "eq(OperationState.FAILED," in t and "!eq(OperationState.FAILED," not in t and " | " not in t]
    rep.check(len(sk) == 1 and len(fl) == 1 and sk != fl, "EX9", "lists by state", fi.node,
              "skipped list ⇐ state == SKIPPED, failed list ⇐ state == FAILED",
              "failed/skipped lists are not filled from the matching states: %s" % fills)
    if len(sk) == 1 and len(fl) == 1:
        printed = {}
        for node in walk_local(fi.node):
            if isinstance(node, ast.For) and norm(node.iter) in (sk[0], fl[0]):
                printed[norm(node.iter)] = True
        rep.check(sk[0] in printed and fl[0] in printed, "EX9", "both lists printed", fi.node, "", "a list is collected but never printed", deep=False)
    # run_plan reaches the report on every non-abort path after the loop
    rf = F.run_fi
    gr = A.cfg(rf, "plain")
    reps = [n for n in gr.nodes if n.kind == "stmt" and A.calls_in(n.ast, "Executor._report_execution_results")]
    rep.check(bool(reps) and gr.all_paths_pass(gr.entry, gr.exit, reps, skip_labels=is_exc), "EX9", "report always reached", rf.node,
              "run_plan reports on every normal path", "run_plan can return without reporting results (exit status 0 regardless of failures)")
    # completed ops: _process_finished_op appends the op
    pf = F.proc_fi
    okc = any(isinstance(s, ast.Expr) and norm(s.value) == "self._completed_ops.append(%s)" % pf.params[1] for s in pf.node.body)
    rep.check(okc, "EX9", "completed ops recorded", pf.node, "every finished op is recorded for the report",
              "_process_finished_op does not record the op in _completed_ops unconditionally")
    rep.expect_min("EX9", 6)


def rule_cli1(A: Analysis, rep):
    fi = A.fn("utils.user_code.cli_command.command_main")
    hs = [h for h in walk_local(fi.node) if isinstance(h, ast.ExceptHandler)]
    ok = False
    detail = "cli_command has no ConductorError handler"
    for h in hs:
        if h.type is not None and norm(h.type) == "ConductorError":
            exits = [c for c in walk_local(h) if isinstance(c, ast.Call) and norm(c.func) == "sys.exit"]
            g = A.cfg(fi, "plain")
            hn = [n for n in g.nodes if n.kind == "except" and n.ast is h][0]
            ex_nodes = [n for n in g.nodes if n.kind == "stmt" and any(isinstance(c, ast.Call) and norm(c.func) == "sys.exit" for c in walk_local(n.ast))]
            all_exit = bool(ex_nodes) and g.all_paths_pass(hn, g.exit, ex_nodes, skip_labels=is_exc)
            nonzero = all(len(c.args) == 1 and isinstance(c.args[0], ast.Constant) and isinstance(c.args[0].value, int) and c.args[0].value != 0 for c in exits)
            prints_error = any(isinstance(c, ast.Call) and norm(c.func) == "print" and c.args and isinstance(c.args[0], ast.Constant)
                               and str(c.args[0].value).startswith("ERROR") for c in walk_local(h))
            ok = all_exit and nonzero and prints_error
            detail = "ConductorError handler: exits on all paths=%s, non-zero literal=%s, prints ERROR=%s" % (all_exit, nonzero, prints_error)
    rep.check(ok, "CLI1", "ConductorError ⇒ ERROR + non-zero exit", fi.node, "errors become `ERROR:` and a non-zero exit status", detail)
    # main(args) inside that try
    calls_main = [c for c in walk_local(fi.node) if isinstance(c, ast.Call) and norm(c.func) == "main"]
    in_try = all(any(isinstance(a, ast.Try) and stmt_in(_stmt_of(c), a.body) for a in _ancestors(c)) for c in calls_main)
    rep.check(bool(calls_main) and in_try, "CLI1", "main inside try", fi.node, "", "main(args) is not inside the error-reporting try", deep=False)
    # decorated entry points
    decorated = sorted(f.module.name.rsplit(".", 1)[1] for f in A.prog.scan_functions if "cli_command" in f.decorators)
    rep.check(set(["run", "archive", "restore", "where", "clean", "gc"]) <= set(decorated), "CLI1", "all commands decorated", None,
              "", "commands wrapped by cli_command: %s" % decorated, deep=False)
    # no intermediate handler swallows ConductorError between report and cli_command (run path)
    for fq in ("cli.run.main", EXE + "Executor.run_plan"):
        f = A.fn(fq)
        for h in walk_local(f.node):
            if isinstance(h, ast.ExceptHandler):
                g = A.cfg(f, "plain")
                hn = [n for n in g.nodes if n.kind == "except" and n.ast is h][0]
                swallow = g.reachable(hn, g.exit, skip_labels=is_exc)
                rep.check(not swallow, "CLI1", "no swallowing handler in %s" % fq.rsplit(".", 1)[1], h,
                          "handler re-raises", "a handler in %s can swallow the error (exit status would be 0)" % fq)


def rule_ex10(A: Analysis, rep, F: ExecFacts):
    fi = F.run_fi
    g = A.cfg(fi, "plain")
    loops = [n for n in walk_local(fi.node) if isinstance(n, ast.While) and A.calls_in(n, "Executor._launch_ops_if_able")]
    loop = loops[0]
    # each helper result, when true, leaves the main loop at once: with the "flag is false" edges removed, the loop
    # header must be unreachable from the call
    hdr0 = [n for n in g.nodes if n.kind == "test" and n.info is loop][0]
    in_loop = {id(x) for x in ast.walk(loop)}
    for tgt in ("Executor._launch_ops_if_able", "Executor._wait_for_next_inflight_op"):
        for n in g.nodes:
            if n.kind not in ("stmt", "test") or n.ast is None or id(n.ast) not in in_loop or n is hdr0:
                continue
            calls = [c for c in A.calls_in(n.ast, tgt)]
            if not calls:
                continue
            if n.kind == "test":
                false_edges = A.edges_not_true(g, fi, calls[0])
            elif isinstance(n.ast, ast.Assign) and n.ast.value is calls[0] and isinstance(n.ast.targets[0], ast.Name):
                false_edges = A.edges_implying(g, fi, "t(%s)" % n.ast.targets[0].id, False)
            else:
                false_edges = []
            r = g.reach([m for (m, l) in n.succ if not is_exc(l) and not ((n, branch_of(l)) in false_edges)], skip_labels=is_exc, removed_edges=false_edges)
            rep.check(hdr0 not in r, "EX10", "stop flag from %s breaks" % tgt.rsplit(".", 1)[1], n.ast,
                      "a True result stops the main loop immediately", "a True stop flag returned by %s does not leave the main loop (the next iteration can start)" % tgt)
    # terminate_processes() after the loop on the normal path
    hdr = [n for n in g.nodes if n.kind == "test" and n.info is loop][0]
    terms = [n for n in g.nodes if n.kind == "stmt" and A.calls_in(n.ast, "_InflightOperations.terminate_processes")
             and id(n.ast) not in {id(x) for h in walk_local(fi.node) if isinstance(h, ast.ExceptHandler) for x in ast.walk(h)}]
    brk_nodes = [n for n in g.nodes if n.kind == "stmt" and isinstance(n.ast, ast.Break)]
    ok = bool(terms) and all(g.all_paths_pass(b, g.exit, terms, skip_labels=is_exc) for b in brk_nodes) and bool(brk_nodes)
    rep.check(ok, "EX10", "terminate after early stop", loop, "processes still running are terminated after an early stop",
              "after `break` the running processes are not sent SIGTERM on every path")
    rule_terminate(A, rep, "EX10")
    rep.expect_min("EX10", 4)


def rule_terminate(A: Analysis, rep, rule: str):
    """terminate_processes sends SIGTERM to the process group of every entry;
    a failure for one entry (already reaped pid) must not end the loop."""
    tp = A.fn(EXE + "_InflightOperations.terminate_processes")
    loops = [l for l in walk_local(tp.node) if isinstance(l, ast.For)]
    ok_iter = len(loops) == 1 and norm(loops[0].iter) in ("self._processes.values()", "self._processes.items()", "list(self._processes.values())", "list(self._processes.items())")
    kills = [c for c in walk_local(tp.node) if isinstance(c, ast.Call) and norm(c.func) in ("os.killpg", "os.kill")]
    ok_kill = False
    det = "no kill call"
    if len(kills) == 1 and len(kills[0].args) == 2:
        k = kills[0]
        sig_ok = norm(k.args[1]) == "signal.SIGTERM"
        tgt = A.xtext(k.args[0], tp)
        grp_ok = norm(k.func) == "os.killpg" and tgt.startswith("os.getpgid(") and tgt.endswith(".pid)")
        in_loop = bool(loops) and id(k) in {id(x) for x in ast.walk(loops[0])}
        ok_kill = sig_ok and grp_ok and in_loop
        det = "kill target `%s`, signal `%s`, inside the loop=%s" % (tgt, norm(k.args[1]), in_loop)
    # error containment must be per iteration: anything that swallows an exception (try/except that does not
    # re-raise everything, contextlib.suppress) has to sit INSIDE the loop body, otherwise the first ESRCH ends the loop
    ok_contain = True
    cdet = ""
    if loops:
        lp = loops[0]
        inside = {id(x) for x in ast.walk(lp)}
        for n in walk_local(tp.node):
            swallow = None
            if isinstance(n, ast.Try) and n.handlers:
                swallow = "try/except"
            elif isinstance(n, ast.With) and any("suppress" in norm(it.context_expr) for it in n.items):
                swallow = "contextlib.suppress"
            if swallow and id(n) not in inside and id(lp) in {id(x) for x in ast.walk(n)}:
                ok_contain = False
                cdet = "`%s` (line %d) wraps the whole loop: the first process that is already gone ends the loop and the remaining process groups never get SIGTERM" % (swallow, n.lineno)
        # the kill itself must be protected (ESRCH for an already reaped pid is expected)
        protected = False
        for k in kills:
            for anc in _ancestors(k):
                if anc is lp:
                    break
                if isinstance(anc, ast.Try) and anc.handlers:
                    protected = True
                if isinstance(anc, ast.With) and any("suppress" in norm(it.context_expr) for it in anc.items):
                    protected = True
        if kills and not protected:
            ok_contain = False
            cdet = cdet or "an already reaped pid makes getpgid/killpg raise and abort the loop (no per-iteration handler)"
    hs = [h for h in walk_local(tp.node) if isinstance(h, ast.ExceptHandler)]
    ok_h = True
    def expected_errno(a: str, ex_name: str) -> bool:
        if a in ("eq(errno.ESRCH,%s.errno)" % ex_name, "eq(errno.ECHILD,%s.errno)" % ex_name):
            return True
        pre = "in(%s.errno," % ex_name
        if a.startswith(pre) and a.endswith(")"):
            nm = a[len(pre):-1]
            els = A.const_elements(tp.module, nm)
            if els is None and nm.startswith("("):
                els = [x.strip() for x in nm.strip("()").split(",") if x.strip()]
            return bool(els) and set(els) <= {"errno.ESRCH", "errno.ECHILD"}
        return False

    def swallowed(stmts, conds):
        """Path conditions under which the handler body ends without raising (falls out, or `continue`s)."""
        out = []
        for i, st in enumerate(stmts):
            if isinstance(st, ast.Raise):
                return out
            if isinstance(st, (ast.Continue, ast.Break, ast.Return)):
                return out + conds
            if isinstance(st, ast.If):
                t_ = [c | d for c in conds for d in A.dnf(st.test, True, tp) if not any((a, not p_) in c for a, p_ in d)]
                f_ = [c | d for c in conds for d in A.dnf(st.test, False, tp) if not any((a, not p_) in c for a, p_ in d)]
                rest = stmts[i + 1:]
                return out + swallowed(list(st.body) + rest, t_) + swallowed(list(st.orelse) + rest, f_)
        return out + conds
    for h in hs:
        reraises = any(isinstance(x, ast.Raise) for x in walk_local(h))
        if not reraises:
            ok_h = False
        exn = h.name or "ex"
        for c in swallowed(list(h.body), [frozenset()]):
            # an error is ignored only when it is one of the two expected ones
            if not any(p_ and expected_errno(a, exn) for a, p_ in c):
                ok_h = False
    for n in walk_local(tp.node):
        if isinstance(n, ast.With):
            for it in n.items:
                if "suppress" in norm(it.context_expr) and isinstance(it.context_expr, ast.Call):
                    names = {norm(a) for a in it.context_expr.args}
                    if not names <= {"ProcessLookupError", "ChildProcessError"}:
                        ok_h = False
    conts = [c for c in walk_local(tp.node) if isinstance(c, ast.Continue)]
    ok_skip = True
    for c in conts:
        if any(isinstance(a_, ast.ExceptHandler) for a_ in _ancestors(c)):
            continue    # inside a handler: covered by the swallowed-paths condition above
        par = c._parent
        if not isinstance(par, ast.If):
            ok_skip = False
            continue
        tx = norm(par.test)
        if not (tx.endswith(".pid is None") or tx.endswith("< 0")):
            ok_skip = False
    brk = [x for x in walk_local(tp.node) if isinstance(x, (ast.Break, ast.Return))]
    rep.check(ok_iter and ok_kill and ok_h and ok_skip and ok_contain and not brk, rule, "terminate_processes covers all", tp.node,
              "SIGTERM to the process group of every registered process; only ESRCH/ECHILD ignored, per entry",
              "terminate_processes: iterates all=%s; %s; ignored errors ok=%s; skips ok=%s; %s%s" % (ok_iter, det, ok_h, ok_skip, cdet, "; early exit from the loop" if brk else ""))


# --------------------------------------------------------------------------- EX11..EX15, J1 (C04)
def rule_ex11(A: Analysis, rep, F: ExecFacts):
    fi = F.launch_fi
    g = A.cfg(fi, "plain")
    dq = _dequeue_node(A, g, fi)
    hdr = None
    for n in g.nodes:
        if n.kind == "test" and isinstance(n.info, ast.While) and id(dq.ast) in {id(x) for x in ast.walk(n.info)}:
            hdr = n
    guards = A.path_guards(g, hdr, dq, fi)
    seq = {("empty(self._inflight_ops)", True)}
    par = {("t(self._running_parallel)", True), ("lt(len(self._inflight_ops),self._slots)", True),
           ("t(self._ready_to_run.has_parallelizable_ops())", True)}
    off = implies(guards, [seq, par])
    rep.check(bool(guards) and off is None, "EX11", "launch guard", dq.ast,
              "an op is dequeued only if nothing is in flight, or (running parallel ∧ in-flight < slots ∧ a parallelizable op is ready)",
              "dequeue_next() reachable under [%s] — neither `len(in-flight)==0` nor all of {_running_parallel, len(in-flight) < slots, "
              "has_parallelizable_ops()}" % fmt_conj(off or []))
    # also must have something to dequeue: every disjunct has has_ops or has_parallelizable_ops
    off2 = implies(guards, [{("t(self._ready_to_run.has_ops())", True)}, {("t(self._ready_to_run.has_parallelizable_ops())", True)}])
    rep.check(off2 is None and bool(guards), "EX11", "something to dequeue", dq.ast, "dequeue only when the queue has a suitable op",
              "dequeue_next() reachable with an empty queue under [%s]" % fmt_conj(off2 or []))
    # no launch outside that guard: LAUNCH dominated by dq
    for (f, c) in F.launch_sites:
        n = g.node_of(_stmt_of(c))
        rep.check(g.dominates(dq, n, skip_labels=is_back), "EX11", "launch after dequeue", c, "", "start_execution not dominated by the guarded dequeue")
    rep.expect_min("EX11", 3)


def rule_ex12(A: Analysis, rep, F: ExecFacts):
    q = EXE + "_ReadyToRunQueue."
    en = A.fn(q + "enqueue_op")
    ok = False
    par_q = seq_q = None
    op = en.params[1]
    ge = A.cfg(en, "plain")
    apps = [n for n in ge.nodes if n.kind == "stmt" and isinstance(n.ast, ast.Expr) and isinstance(n.ast.value, ast.Call) and
            isinstance(n.ast.value.func, ast.Attribute) and n.ast.value.func.attr == "append" and len(n.ast.value.args) == 1 and norm(n.ast.value.args[0]) == op]
    routed = {}
    clash = False
    for n in apps:
        for c, v in A.rvalues(en, n.ast.value.func.value, n, ge, keep=lambda a: a == "t(%s.parallelizable)" % op):
            key = None
            if c == frozenset({("t(%s.parallelizable)" % op, True)}):
                key = "par"
            elif c == frozenset({("t(%s.parallelizable)" % op, False)}):
                key = "seq"
            if key is None or key in routed:
                clash = True
            else:
                routed[key] = v
    # exactly one append per call
    once = all(not any(b is not a and b in ge.reach([m for (m, l) in a.succ if not is_exc(l)], skip_labels=is_exc) for b in apps) for a in apps)
    if not clash and once and len(routed) == 2 and routed["par"] != routed["seq"]:
        par_q, seq_q = routed["par"], routed["seq"]
        ok = True
    rep.check(ok, "EX12", "enqueue routes by parallelizable", en.node, "parallelizable ops go to the parallel deque, others to the sequential deque",
              "enqueue_op does not route ops by `op.parallelizable` into two distinct queues")
    hp = A.fn(q + "has_parallelizable_ops")
    r = [x for x in walk_local(hp.node) if isinstance(x, ast.Return)]
    d = A.dnf(r[0].value, True, hp) if len(r) == 1 else []
    rep.check(ok and d == [frozenset({("empty(%s)" % par_q, False)})], "EX12", "has_parallelizable_ops tests the parallel deque", hp.node,
              "", "has_parallelizable_ops() is [%s], parallel deque is %s" % (" | ".join(fmt_conj(c) for c in d), par_q))
    dqf = A.fn(q + "dequeue_next")
    okd = False
    detd = "dequeue_next does not return the parallel deque's head when it is non-empty, else the sequential head"
    if ok:
        from ..analysis import _simplify
        gd = A.cfg(dqf, "plain")
        by_val = {}
        for n in gd.nodes:
            if n.kind == "stmt" and isinstance(n.ast, ast.Return) and n.ast.value is not None:
                for c, v in A.rvalues(dqf, n.ast.value, n, gd):
                    # the predicate was shown above to be exactly "parallel deque non-empty"
                    c2 = frozenset((("empty(%s)" % par_q, not p_) if a == "t(self.has_parallelizable_ops())" else (a, p_)) for a, p_ in c)
                    by_val.setdefault(v, []).append(c2)
        tab = {v: sorted(map(sorted, _simplify(cs))) for v, cs in by_val.items()}
        want = {"%s.popleft()" % par_q: [[("empty(%s)" % par_q, False)]], "%s.popleft()" % seq_q: [[("empty(%s)" % par_q, True)]]}
        okd = tab == want
        detd += " (returns %s)" % {v: [fmt_conj(frozenset(c)) for c in cs] for v, cs in tab.items()}
    rep.check(okd, "EX12", "dequeue prefers parallel", dqf.node, "when a parallelizable op is ready it is the one dequeued (FIFO)", detd)
    # parallelizable of the op comes from the task / constructor flag
    rt = A.fn("execution.ops.run_task_executable.RunTaskExecutable.parallelizable")
    r = [x for x in walk_local(rt.node) if isinstance(x, ast.Return)]
    rep.check(len(r) == 1 and norm(r[0].value) == "self._parallelizable", "EX12", "op.parallelizable is the declared flag", rt.node,
              "", "RunTaskExecutable.parallelizable does not return the constructor flag", deep=False)
    base = A.fn("execution.ops.operation.Operation.parallelizable")
    r = [x for x in walk_local(base.node) if isinstance(x, ast.Return)]
    rep.check(len(r) == 1 and norm(r[0].value) == "False", "EX12", "default not parallelizable", base.node, "", "Operation.parallelizable default is not False", deep=False)
    for (f, c) in A.constructions("conductor.execution.ops.run_task_executable.RunTaskExecutable"):
        v = A.kw(c, "parallelizable")
        t_ = A.kw(c, "task")
        rep.check(v is not None and t_ is not None and norm(v) == norm(t_) + ".parallelizable", "EX12", "flag from task", c,
                  "the op's flag is its task's declared flag", "RunTaskExecutable(parallelizable=%s) is not the task's flag" % (norm(v) if v else "?"))
    tp = A.fn("task_types.run._RunSubprocess.parallelizable")
    r = [x for x in walk_local(tp.node) if isinstance(x, ast.Return)]
    rep.check(len(r) == 1 and norm(r[0].value) == "self._parallelizable", "EX12", "task flag getter", tp.node, "", "task.parallelizable does not return the declared flag", deep=False)
    rep.expect_min("EX12", 7)


def rule_ex13(A: Analysis, rep, F: ExecFacts):
    stores = A.field_stores("conductor.execution.executor.Executor", "_running_parallel")
    fi = F.launch_fi
    g = A.cfg(fi, "plain")
    dq = _dequeue_node(A, g, fi)
    op = norm(dq.ast.targets[0])
    for (f, s, v) in stores:
        name = f.fq.rsplit(".", 1)[1]
        if name in ("__init__", "_reset"):
            rep.check(v is not None and norm(v) == "False", "EX13", "init/reset False", s, "", "_running_parallel initialised to %s" % norm(v), deep=False)
        elif f.fq == fi.fq:
            n = g.node_of(s)
            okv = v is not None and norm(v) == "%s.parallelizable" % op and g.dominates(dq, n, skip_labels=is_back)
            # and it happens on every path from the dequeue to the launch
            rep.check(okv, "EX13", "mode follows the dequeued op", s, "_running_parallel := next_op.parallelizable right after the dequeue",
                      "_running_parallel is assigned `%s`, not the dequeued op's parallelizable flag" % norm(v))
        else:
            rep.bad("EX13", "unexpected writer", s, "_running_parallel written in %s" % f.fq)
    launch_nodes = [g.node_of(_stmt_of(c)) for (_f, c) in F.launch_sites]
    st_nodes = [g.node_of(s) for (f, s, v) in stores if f.fq == fi.fq]
    rep.check(bool(st_nodes) and all(g.all_paths_pass(dq, ln, st_nodes, skip_labels=skip) for ln in launch_nodes), "EX13", "mode set before launch", fi.node,
              "", "an op can be launched without _running_parallel having been updated for it")
    rep.expect_min("EX13", 4)


def rule_ex14(A: Analysis, rep, F: ExecFacts):
    fi = F.launch_fi
    g = A.cfg(fi, "sync")
    gp = A.cfg(fi, "plain")
    (lf, lc) = F.launch_sites[0]
    slot_arg = lc.args[1] if len(lc.args) > 1 else A.kw(lc, "slot")
    if slot_arg is None or not isinstance(slot_arg, ast.Name):
        rep.bad("EX14", "slot passed", lc, "start_execution is not passed a slot variable")
        return
    slot = slot_arg.id
    cv = A.cvalues(fi, slot, gp)
    want = sorted([(sorted([("t(self._running_parallel)", True), ("lt(1,self._slots)", True)]), "self._available_slots[-1]")])
    got_top = sorted((sorted(c), v_) for c, v_ in cv if v_ != "None")
    none_vals = [c for c, v_ in cv if v_ == "None"]
    # the None alternative must be the complement of the guard: !parallel | !(slots>1)
    comp_ok = sorted(map(sorted, none_vals)) in (sorted(map(sorted, [frozenset({("t(self._running_parallel)", False)}), frozenset({("lt(1,self._slots)", False)})])),
                                                  sorted(map(sorted, [frozenset({("t(self._running_parallel)", False)}), frozenset({("t(self._running_parallel)", True), ("lt(1,self._slots)", False)})])))
    # the dequeue-iteration prefix conditions (launch guard etc.) are irrelevant here: strip atoms that do not mention the mode/slots
    def strip(cs):
        return sorted((sorted(a for a in c if a[0] in ("t(self._running_parallel)", "lt(1,self._slots)")), v_) for c, v_ in cs)
    cv_s = [(frozenset(a for a in c if a[0] in ("t(self._running_parallel)", "lt(1,self._slots)")), v_) for c, v_ in cv]
    from ..analysis import _simplify
    tops = {}
    for c, v_ in cv_s:
        if v_ != "None":
            tops.setdefault(v_, []).append(c)
    got_top = sorted((sorted(c), v_) for v_, cs in tops.items() for c in _simplify(cs))
    none_s = _simplify([c for c, v_ in cv_s if v_ == "None"])
    comp_ok = sorted(map(sorted, none_s)) == sorted(map(sorted, [frozenset({("t(self._running_parallel)", False)}), frozenset({("lt(1,self._slots)", False)})]))
    ok_acq = got_top == want and comp_ok
    det = "slot takes the values %s — the slot handed out must be the pool's top element (the one `_available_slots.pop()` removes) exactly when running parallel with more than one slot, else None" % [
        ("%s if %s" % (v_, fmt_conj(c))) for c, v_ in cv_s]
    rep.check(ok_acq, "EX14", "acquire: top of pool iff parallel ∧ slots>1", lc,
              "slot = top of the free pool exactly when running parallel with more than one slot, else None", det)
    # handle.slot = slot, add_op, pop iff slot is not None — all on the success path, in this order
    ln = g.node_of(_stmt_of(lc))
    hvar = norm(_stmt_of(lc).targets[0]) if isinstance(_stmt_of(lc), ast.Assign) else None
    rec = [n for n in g.nodes if n.kind == "stmt" and isinstance(n.ast, ast.Assign) and norm(n.ast.targets[0]) == "%s.slot" % hvar and norm(n.ast.value) == slot]
    pops = [n for n in g.nodes if n.kind == "stmt" and isinstance(n.ast, (ast.Expr, ast.Assign, ast.AnnAssign)) and n.ast.value is not None
            and norm(n.ast.value) == "self._available_slots.pop()"]
    adds = [n for n in g.nodes if n.kind == "stmt" and A.calls_in(n.ast, "_InflightOperations.add_op")
            and not any(isinstance(a, ast.ExceptHandler) for a in _ancestors(n.ast))]
    ok_rec = len(rec) == 1 and len(adds) == 1 and g.all_paths_pass(ln, adds[0], rec, skip_labels=skip)
    rep.check(ok_rec, "EX14", "handle records the slot", lc, "handle.slot = slot before the op is registered",
              "the slot is not recorded on the handle before add_op (it could never be released)")
    ok_pop = False
    if len(pops) == 1 and len(adds) == 1:
        pn = pops[0]
        gs = A.path_guards(g, adds[0], pn, fi)
        after_add = g.all_paths_pass(ln, pn, adds, skip_labels=skip)
        # on the path where slot is not None, pop is reached before the iteration ends
        ok_pop = gs == [frozenset({("none(%s)" % slot, False)})] and after_add
        # exactly one pop per launch
        pn_succ = [m for (m, l) in pn.succ if not skip(l)]
        ok_pop = ok_pop and pn not in g.reach(pn_succ, skip_labels=skip)
    rep.check(ok_pop, "EX14", "pop iff a slot was taken", lc, "the pool shrinks by exactly the slot handed out, after the op was registered",
              "`_available_slots.pop()` is not executed exactly when slot is not None (after add_op): %d pop site(s)" % len(pops))
    # release in the wait step
    wf = F.wait_fi
    gw = A.cfg(wf, "sync")
    rel = [n for n in gw.nodes if n.kind == "stmt" and isinstance(n.ast, ast.Expr) and norm(n.ast.value).startswith("self._available_slots.append(")]
    ws = [n for n in gw.nodes if n.kind == "stmt" and A.calls_in(n.ast, "_InflightOperations.wait_for_next_op")]
    ok_rel = False
    det = "%d release site(s)" % len(rel)
    if len(rel) == 1 and len(ws) == 1:
        handle = norm(ws[0].ast.targets[0].elts[0]) if isinstance(ws[0].ast.targets[0], ast.Tuple) else "?"
        rn = rel[0]
        arg_ok = norm(rn.ast.value.args[0]) == "%s.slot" % handle
        gs = A.path_guards(gw, ws[0], rn, wf)
        # all normal (non-abort) paths to exit with slot not None pass the release: remove rn, exit must only be reachable via the F edge of the test
        tests = [n for n in gw.nodes if n.kind == "test" and norm(n.ast) == "%s.slot is not None" % handle]
        wo = gw.reach([ws[0]], removed=[rn], removed_edges=[(t, "F") for t in tests])
        always = gw.exit not in wo
        once = rn not in gw.reach([m for (m, l) in rn.succ], skip_labels=None)
        ok_rel = arg_ok and always and once and bool(tests)
        det = "arg=%s always-on-normal-paths=%s once=%s" % (arg_ok, always, once)
    rep.check(ok_rel, "EX14", "release on success and failure", wf.node,
              "the handle's slot is pushed back exactly once on every non-abort path of the wait step", "slot release: " + det)
    rep.expect_min("EX14", 4)


def _pool_is_permutation(e: ast.expr, n: int) -> bool:
    class Unsupported(Exception):
        pass

    def ev(x):
        if isinstance(x, ast.Constant) and isinstance(x.value, int) and not isinstance(x.value, bool):
            return x.value
        if isinstance(x, ast.Constant) and x.value is None:
            return None
        if isinstance(x, (ast.Name, ast.Attribute)) and norm(x) in ("self._slots", "execution_slots", "self._execution_slots", "slots"):
            return n
        if isinstance(x, ast.UnaryOp) and isinstance(x.op, ast.USub):
            return -ev(x.operand)
        if isinstance(x, ast.BinOp) and isinstance(x.op, (ast.Add, ast.Sub)):
            a, b = ev(x.left), ev(x.right)
            return a + b if isinstance(x.op, ast.Add) else a - b
        if isinstance(x, (ast.List, ast.Tuple)):
            out = []
            for el in x.elts:
                if isinstance(el, ast.Starred):
                    out.extend(ev(el.value))
                else:
                    out.append(ev(el))
            return out
        if isinstance(x, ast.Call) and isinstance(x.func, ast.Name) and x.func.id in ("list", "range", "reversed", "sorted", "tuple") and not x.keywords:
            args = [ev(a) for a in x.args]
            return list({"list": list, "range": range, "reversed": reversed, "sorted": sorted, "tuple": tuple}[x.func.id](*args))
        if isinstance(x, ast.Subscript) and isinstance(x.slice, ast.Slice):
            sl = x.slice
            return ev(x.value)[slice(ev(sl.lower) if sl.lower else None, ev(sl.upper) if sl.upper else None, ev(sl.step) if sl.step else None)]
        if isinstance(x, (ast.ListComp, ast.GeneratorExp)) and len(x.generators) == 1 and not x.generators[0].ifs and isinstance(x.generators[0].target, ast.Name):
            it = ev(x.generators[0].iter)
            var = x.generators[0].target.id
            out = []
            for item in it:
                class Sub(ast.NodeTransformer):
                    def visit_Name(self_, nm):
                        return ast.Constant(value=item) if nm.id == var else nm
                import copy as _c
                out.append(ev(Sub().visit(_c.deepcopy(x.elt))))
            return out
        raise Unsupported(ast.dump(x)[:60])
    try:
        v = ev(e)
    except (Unsupported, TypeError, ValueError):
        return False
    return isinstance(v, list) and sorted(v) == list(range(n))


def rule_ex15(A: Analysis, rep, F: ExecFacts):
    stores = A.field_stores("conductor.execution.executor.Executor", "_available_slots")
    names = sorted(f.fq.rsplit(".", 1)[1] for (f, _s, _v) in stores)
    rep.check(sorted(set(names)) == ["__init__", "_reset"], "EX15", "pool (re)built only in init/reset", None, "", "_available_slots assigned in %s" % names, deep=False)
    # a store that every path overwrites before the function returns is a placeholder, not the pool
    live = []
    for (f, s, v) in stores:
        gf = A.cfg(f, "plain")
        sn = gf.node_of(s)
        others = [gf.node_of(s2) for (f2, s2, _v2) in stores if f2 is f and s2 is not s]
        succ_ = [m for (m, lb) in sn.succ if not is_exc(lb)]
        if others and succ_ and all(gf.all_paths_pass(m, gf.exit, others, skip_labels=is_exc) for m in succ_):
            continue
        live.append((f, s, v))
    for (f, s, v) in live:
        tx = norm(v) if v is not None else "?"
        # the initial pool, evaluated for a few slot counts: a pure expression over list/range/reversed/sorted and
        # arithmetic on the slot count (nothing of the repository is executed)
        ok = v is not None and all(_pool_is_permutation(A.expand(v, f), n) for n in (1, 2, 3, 5, 8))
        rep.check(ok, "EX15", "pool is a permutation of range(slots)", s, "the pool holds each slot number in [0, slots) once",
                  "pool initialised as `%s`" % tx)
    slots = A.field_stores("conductor.execution.executor.Executor", "_slots")
    rep.check(len(slots) == 1 and slots[0][0].name == "__init__" and norm(slots[0][2]) == slots[0][0].params[1], "EX15", "slots = constructor argument", None,
              "", "_slots is not the constructor's execution_slots", deep=False)
    # mutators of the pool: only the pop (launch) and the append (wait)
    muts = []
    for fq, sites in A.cg.sites.items():
        fo = A.prog.functions.get(fq)
        if fo is not None and fo.inlined:
            continue     # its statements are counted where it was inlined
        for (c, _e) in sites:
            if isinstance(c.func, ast.Attribute) and norm(c.func.value) == "self._available_slots":
                muts.append((fq.rsplit(".", 1)[1], c.func.attr))
    rep.check(sorted(muts) == [("_launch_ops_if_able", "pop"), ("_wait_for_next_inflight_op", "append")], "EX15", "pool mutators", None,
              "only the launch pop and the wait append touch the pool", "pool mutators: %s" % sorted(muts))
    rep.expect_min("EX15", 4)


def rule_j1(A: Analysis, rep):
    rm = A.fn("cli.run.main")
    cons = [c for c in A.calls_in_func(rm, "conductor.execution.executor.Executor")]
    ok = False
    if len(cons) == 1:
        v = A.kw(cons[0], "execution_slots") or (cons[0].args[0] if cons[0].args else None)
        src = A.expand(v, rm) if v is not None else None
        ok = src is not None and isinstance(src, ast.Call) and norm(src.func) == "validate_and_retrieve_jobs_count"
    rep.check(ok, "J1", "slots from the validated --jobs", rm.node, "Executor(execution_slots=validate_and_retrieve_jobs_count(args))",
              "the executor's slot count does not come from validate_and_retrieve_jobs_count")
    vf = A.fn("cli.run.validate_and_retrieve_jobs_count")
    g = A.cfg(vf, "plain")
    rets = [n for n in g.nodes if n.kind == "stmt" and isinstance(n.ast, ast.Return)]
    allok = True
    det = []
    for r in rets:
        tx = A.xtext(r.ast.value, vf)       # locals (a copy of args.jobs, a named default) expanded
        folded = A.prog.fold(vf.module, A.expand(r.ast.value, vf))
        if tx == "1" or tx == "multiprocessing.cpu_count()" or (isinstance(folded, int) and not isinstance(folded, bool) and folded >= 1):
            continue
        if tx == "args.jobs":
            gs = A.path_guards(g, g.entry, r, vf, xstop=[])
            if all(("lt(0,args.jobs)", True) in c or ("lt(args.jobs,1)", False) in c for c in gs) and gs:
                continue
        allok = False
        det.append(tx)
    rep.check(allok and bool(rets), "J1", "jobs ≥ 1", vf.node, "every returned job count is at least 1 (None → 1, ≤0 → error)",
              "validate_and_retrieve_jobs_count can return %s without a `> 0` guard" % det)
    ex = A.fn(EXE + "Executor.__init__")
    rep.check(any(isinstance(s, ast.Assert) and norm(s.test) == "%s > 0" % ex.params[1] for s in ex.node.body), "J1", "executor asserts slots>0", ex.node,
              "", "Executor.__init__ lost its `execution_slots > 0` assertion", deep=False)
