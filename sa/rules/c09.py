"""C09 — Runs always terminate with every planned task accounted for."""
from . import executor as E, reaping as RP, runtask as R

META = {
    "explanation": "Ownership of the Popen object until the pid is reaped (RT10), no other reaper or waited-for child reachable from the "
                   "tracked region (SG8, call graph with RTA), pipe/list pairing of the SIGCHLD helper (SG6), reap loop until (0,0) "
                   "recording every pid (SG7, SGc), a bounded timeout on the blocking self-pipe wait so that a SIGCHLD delivered just before the syscall cannot be lost (SG9), attribution of a completion to the entry of exactly that pid (INF1), main-loop shape "
                   "(EX8) and no op lost between queues (EX3, EX6, EX7, EX1); slot accounting cannot underflow (EX14, EX15: an IndexError from the pool would end the run with tasks unaccounted for). One lowering per task and one count per lowered task (W1, PL6–PL8): a task is reported exactly once.",
    "rules": ["RT10", "SG8", "SG6", "SG9", "SG7", "SGc", "INF1", "EX8", "EX3", "EX6", "EX7", "EX1", "EX14", "EX15", "W1(planner)", "PL6", "PL7", "PL8", "DUP1"],
    "assumptions": ["liveness proper (progress under every batching of SIGCHLD) is argued from SG6/SG7/EX6–EX8, not decided",
                    "a grandchild keeping the tee pipe open delays finish() — run-time behaviour"],
    "trusted": ["ast parser", "own call resolver + RTA", "CPython: a dropped Popen of a live child is parked on subprocess._active"],
}


def run(A, rep, tier):
    RP.rule_rt10(A, rep)
    RP.rule_sg8(A, rep)
    R.rule_sg6(A, rep)
    R.rule_sg7(A, rep)
    R.rule_sgc(A, rep)
    RP.rule_inf1(A, rep)
    X = E.ExecFacts(A)
    E.rule_ex8(A, rep, X)
    E.rule_ex3(A, rep, X)
    E.rule_ex6(A, rep, X, stop_rules=False)
    E.rule_ex7(A, rep, X)
    E.rule_ex1(A, rep, X)
    # slot accounting cannot underflow: an IndexError from the pool would end the run with tasks unaccounted for
    E.rule_ex14(A, rep, X)
    E.rule_ex15(A, rep, X)
    # "accounted for" exactly once: a task is lowered into operations by one worklist entry only
    from . import planner as P
    F = P.PlannerFacts(A)
    P.rule_w1_planner(A, rep, F)
    P.rules_planner_counts(A, rep, F)
    # a dependency listed twice under two spellings is linked twice: its dependent is released (and run, and reported) twice
    from . import graphs as G
    G.rule_dup1(A, rep)
