"""C06 — Only successful runs become versions; the index never outlives its data."""
from . import archive_restore as AR, fs, runtask as R, vindex as V

META = {
    "explanation": "Record order in finish_execution as dominance facts (RT1, RT2), who may write which index by receiver (VI1), "
                   "restore ordering/rollback (RS1, RS3, RS4), the recorded Version's provenance (VI6), no implicit commits (VI7), "
                   "column agreement (VI2) and the frozen inventory of filesystem-mutating call sites (DEL1). The task is told to write into the recorded directory: Conductor's COND_OUT overrides inherited values (RT3).",
    "rules": ["RT1", "RT2", "SGc", "VI1", "RS1", "RS3", "RS4", "VI6", "VI7", "VI2", "DEL1", "RT3", "GC1", "GC2", "GC3", "GC4"],
    "assumptions": ["sqlite3: a row is durable only at commit; a killed process leaves the rolled-back state",
                    "`cond clean` killed midway and power-loss durability of file contents are outside the property's wording"],
    "trusted": ["ast parser", "SQL subset reader", "typed exception summaries"],
}


def run(A, rep, tier):
    R.rule_rt1(A, rep)
    R.rule_rt2(A, rep)
    # the data of a recorded version is in its directory only if the task was told to write there: Conductor's
    # COND_OUT overrides anything inherited
    from . import envcontract as EC
    EC.rule_rt3(A, rep)
    # 'only if that execution exited 0': the recorded return code must distinguish a signalled child from exit 0
    R.rule_sgc(A, rep)
    V.rule_vi1(A, rep)
    F = AR.rule_rs1(A, rep)
    V.rule_vi6(A, rep)
    V.rule_vi7(A, rep)
    V.rule_vi2(A, rep)
    # the index never outlives its data: gc removes only what is not recorded
    fs.rule_gc(A, rep)
    fs.rule_del1(A, rep)
