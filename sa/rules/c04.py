"""C04 — Parallelism limits: --jobs bound, exclusive sequential tasks, distinct slots."""
import ast

from ..model import NOFOLD, norm, walk_local
from . import executor as E, runtask as R

META = {
    "explanation": "Guard normal form of the launch condition (EX11), queue routing agreement (EX12), single writer of the "
                   "parallel-mode flag (EX13), slot acquire/release typestate (EX14), pool initialisation (EX15), COND_SLOT "
                   "agreement on a per-task fresh environment dict (RT8) and the --jobs validation (J1). The flag a generated task carries is the one its ExperimentInstance declares (GRP1–GRP6).",
    "rules": ["EX11", "EX12", "EX13", "EX14", "EX15", "RT8", "J1", "GRP1", "GRP2", "GRP3", "GRP4", "GRP5", "GRP6", "SGc", "SG7"],
    "assumptions": ["the invariant 'in-flight ops are all parallelizable or there is exactly one' is argued by hand from the guard shape (DESIGN §4.C04)"],
    "trusted": ["ast parser", "own call resolver"],
}


def rule_rt8(A, rep):
    fi, spawns = R.spawn_calls(A)
    mod = fi.module
    slot = fi.params[2]
    stores = [s for s in walk_local(fi.node) if isinstance(s, ast.Assign) and isinstance(s.targets[0], ast.Subscript)
              and A.prog.fold(mod, s.targets[0].slice) == "COND_SLOT"]
    ok = len(stores) == 1
    det = "%d assignment(s) of COND_SLOT" % len(stores)
    if ok:
        s = stores[0]
        g = A.cfg(fi, "plain")
        gs = A.path_guards(g, g.entry, g.node_of(s), fi)
        env = A.kw(spawns[0], "env") if spawns else None
        ok = gs == [frozenset({("none(%s)" % slot, False)})] and norm(s.value) == "str(%s)" % slot and env is not None and norm(env) == norm(s.targets[0].value)
        det = "guard [%s], value `%s`, dict `%s` vs env=`%s`" % (" | ".join(" & ".join(("" if p else "!") + a for a, p in c) for c in gs), norm(s.value),
                                                                 norm(s.targets[0].value), norm(env) if env is not None else "?")
    # the dict that receives COND_SLOT is created by this call: a dict shared between tasks would keep a stale COND_SLOT
    if spawns:
        env = A.kw(spawns[0], "env")
        d = A.expand(env, fi) if env is not None else None
        fresh = isinstance(d, ast.Dict) or (isinstance(d, ast.Call) and norm(d.func) in ("dict", "os.environ.copy"))
        rep.check(fresh, "RT8", "environment dict is fresh per task", spawns[0], "env= is a dict built inside start_execution",
                  "env=`%s` is not a dict created in start_execution: a COND_SLOT written for one task would still be there for the next (sequential) one" % (norm(env) if env is not None else "?"))
    rep.check(ok, "RT8", "COND_SLOT iff slot is not None", fi.node, "COND_SLOT = str(slot) exactly when a slot was assigned", det)
    v = A.prog.fold_fq("conductor.config.SLOT_ENV_VARIABLE_NAME")
    rep.check(v == "COND_SLOT", "RT8", "variable name", None, "", "SLOT_ENV_VARIABLE_NAME folds to %r" % (v,), deep=False)
    # os.environ must not already leak a COND_SLOT into sequential tasks: checked as 'Conductor keys override' in C07


def run(A, rep, tier):
    X = E.ExecFacts(A)
    E.rule_ex11(A, rep, X)
    E.rule_ex12(A, rep, X)
    E.rule_ex13(A, rep, X)
    E.rule_ex14(A, rep, X)
    E.rule_ex15(A, rep, X)
    rule_rt8(A, rep)
    E.rule_j1(A, rep)
    # in-flight and slot accounting assume that a reported completion is an exit: status decoding and the reap loop
    R.rule_sgc(A, rep)
    R.rule_sg7(A, rep)
    # "tasks not marked parallelizable run alone": the flag a generated task carries is the one its instance declares
    from . import group as GRPM
    GRPM.rule_grp(A, rep)
