"""C15 rules: EXC1, EXC2, SCH1, VAL1, INC1 (COND definitions)."""
from __future__ import annotations

import ast
from typing import Dict, List, Optional, Set

from ..analysis import Analysis, fmt_conj
from ..cfg import is_back, is_exc
from ..model import AnalysisError, NOFOLD, norm, walk_local

CE = "conductor.errors.base.ConductorError"
TL = "parsing.task_loader.TaskLoader."


def skip(l):
    return is_exc(l) or is_back(l)


def _anc(n):
    n = getattr(n, "_parent", None)
    while n is not None:
        yield n
        n = getattr(n, "_parent", None)


def _in_body(node, body) -> bool:
    ids = set()
    for b in body:
        ids.update(id(x) for x in ast.walk(b))
    return id(node) in ids


def rule_exc1(A: Analysis, rep):
    n_exec = 0
    for f in A.prog.scan_functions:
        if not f.fq.startswith("conductor.parsing"):
            continue
        for c in walk_local(f.node):
            if not (isinstance(c, ast.Call) and isinstance(c.func, ast.Name) and c.func.id == "exec"):
                continue
            if f.name == "_compile_scope":
                continue  # Conductor's own STDLIB_FILES, not user code (reason recorded)
            n_exec += 1
            tr = None
            for a in _anc(c):
                if isinstance(a, ast.Try) and _in_body(c, a.body):
                    tr = a
                    break
            if tr is None:
                rep.bad("EXC1", "exec of user code in %s" % f.name, c, "user code is executed outside any try: a Python error in the COND file becomes a traceback")
                continue
            types = [norm(h.type) if h.type is not None else "*" for h in tr.handlers]
            # SyntaxError ⊂ Exception: a catch-all clause contains every Python error raised by the user's file
            has_catch_all = any(t in ("Exception", "BaseException", "*") for t in types)
            ok = has_catch_all
            rep.check(ok, "EXC1", "exec in %s is contained" % f.name, c, "handlers %s" % types,
                      "handlers around exec are %s — a catch-all `except Exception` is required so that any Python error (syntax errors included) is reported as an ERROR" % types)
            g = A.cfg(f, "plain")
            for h in tr.handlers:
                t = norm(h.type) if h.type is not None else "*"
                hn = [n for n in g.nodes if n.kind == "except" and n.ast is h][0]
                falls = g.exit in g.reach([hn], skip_labels=is_exc)
                raises = [x for x in walk_local(h) if isinstance(x, ast.Raise)]
                def _raised_classes(x, depth=0):
                    """Classes of the value raised by `raise <x>`: a constructor call, or a local of the handler whose
                    every definition is one (followed through plain copies)."""
                    if x is None:
                        return ["reraise"]
                    k = A.exc.exc_class(x)
                    if k is not None or not isinstance(x, ast.Name) or depth > 3 or x.id == h.name:
                        return [k]
                    ds = [d for d in A.defs(f, x.id) if isinstance(d, (ast.Assign, ast.AnnAssign)) and d.value is not None and id(d) in {id(y) for y in ast.walk(h)}]
                    if not ds:
                        return [None]
                    out_ = []
                    for d in ds:
                        out_.extend(_raised_classes(d.value, depth + 1))
                    return out_
                classes = [c_ for x in raises for c_ in _raised_classes(x.exc)]
                is_ce = lambda c_: c_ == "reraise" or (c_ is not None and A.prog.is_subclass(c_, CE))
                if t == "ConductorError":
                    okh = not falls and bool(raises) and all(c_ == "reraise" or c_ == "conductor.errors.base.ConductorError" or is_ce(c_) for c_ in classes) and \
                        all(x.exc is None or (isinstance(x.exc, ast.Name) and x.exc.id == h.name) for x in raises)
                    rep.check(okh, "EXC1", "%s: ConductorError passes through unchanged" % f.name, h, "", "the ConductorError handler does not re-raise the same error")
                else:
                    ctx = any(isinstance(x, ast.Call) and isinstance(x.func, ast.Attribute) and x.func.attr in ("add_file_context", "add_file_context_if_missing") for x in walk_local(h))
                    okh = not falls and bool(raises) and all(is_ce(c_) and c_ != "reraise" for c_ in classes) and ctx
                    rep.check(okh, "EXC1", "%s: %s → ConductorError with file context" % (f.name, t), h, "raises %s" % [c_.rsplit(".", 1)[1] if c_ else c_ for c_ in classes],
                              "the `%s` handler does not always raise a ConductorError naming the file (raises %s, falls through=%s, file context=%s)" % (t, classes, falls, ctx))
            # ordering: a handler that can catch ConductorError (Exception) must come after the ConductorError clause
            if "Exception" in types or "*" in types:
                idx_all = min(i for i, t in enumerate(types) if t in ("Exception", "BaseException", "*"))
                rep.check("ConductorError" in types[:idx_all], "EXC1", "%s: Conductor's own errors are not re-wrapped" % f.name, tr,
                          "", "`except Exception` would wrap ConductorError (e.g. a task-definition error or an abort) into a parse error: no earlier ConductorError clause")
    # SCP1: every COND file is evaluated in its own copy of the compiled scope (names defined or included by one
    # COND file must not be visible in the next one, or an undefined name would be accepted depending on load order)
    pc = A.fn(TL + "parse_cond_file")
    ex = [c for c in walk_local(pc.node) if isinstance(c, ast.Call) and isinstance(c.func, ast.Name) and c.func.id == "exec"]
    ok = False
    det = "exec of the COND file not found"
    if len(ex) == 1 and len(ex[0].args) >= 2:
        gl = ex[0].args[1]
        src = None
        if isinstance(gl, ast.Attribute) and norm(gl.value) == "self":
            st = [s_ for s_ in walk_local(pc.node) if isinstance(s_, ast.Assign) and norm(s_.targets[0]) == norm(gl)]
            g = A.cfg(pc, "plain")
            en = g.node_of([x for x in walk_local(pc.node) if isinstance(x, ast.stmt) and ex[0] in list(ast.walk(x)) and not isinstance(x, (ast.Try, ast.With, ast.FunctionDef))][-1])
            dom = [s_ for s_ in st if g.all_paths_pass(g.entry, en, [g.node_of(s_)], skip_labels=skip)]
            src = norm(dom[-1].value) if dom else None
        elif isinstance(gl, ast.Name):
            v = A.single_def_value(pc, gl.id)
            src = norm(v) if v is not None else None
        else:
            src = norm(gl)
        fresh = src in ("self._conductor_scope.copy()", "dict(self._conductor_scope)", "{**self._conductor_scope}")
        ok = fresh
        det = "the COND file is evaluated with globals `%s` — not a fresh copy of the compiled scope: names leak from one COND file into the next" % src
    rep.check(ok, "SCP1", "each COND file gets a fresh copy of the scope", pc.node, "exec(code, self._conductor_scope.copy())", det)
    if n_exec < 2:
        raise AnalysisError("EXC1: expected the two exec sites of user code (COND file, included file), found %d" % n_exec)
    rep.expect_min("EXC1", 8)


# frozen allow-table for EXC2: explicit raises of non-Conductor exceptions reachable while loading tasks
EXC2_ALLOW = {
    ("conductor.task_identifier.TaskIdentifier.__eq__", "NotImplementedError"): "comparison with a non-identifier: dictionaries here are keyed by identifiers only",
    ("conductor.errors.base.ConductorError._message", "NotImplementedError"): "abstract method, overridden by every generated error class",
    ("conductor.task_types.run._RunSubprocess.record_output", "NotImplementedError"): "abstract property, overridden by RunCommand / RunExperiment",
    ("conductor.utils.git.Git.get_distance", "RuntimeError"): "not reachable from loading (version selection only)",
}


def rule_exc2(A: Analysis, rep):
    roots = ["conductor.parsing.task_index.TaskIndex.load_transitive_closure", "conductor.parsing.task_index.TaskIndex.load_single_task"]
    reach = A.cg.reachable(roots)
    n = 0
    for fq in sorted(reach):
        f = A.prog.functions.get(fq)
        if f is None or fq.startswith(("conductor.envs", "conductor.explorer")):
            continue
        for r in walk_local(f.node):
            if not isinstance(r, ast.Raise):
                continue
            n += 1
            if r.exc is None:
                rep.ok("EXC2", "re-raise in %s" % fq.replace("conductor.", ""), r, "bare raise", deep=False)
                continue
            cls = A.exc.exc_class(r.exc)
            if cls is not None and A.prog.is_subclass(cls, CE):
                rep.ok("EXC2", "%s in %s" % (cls.rsplit(".", 1)[1], fq.replace("conductor.", "")), r, "ConductorError subclass", deep=False)
                continue
            if cls is None and isinstance(r.exc, ast.Name):
                h = [a for a in _anc(r) if isinstance(a, ast.ExceptHandler) and a.name == r.exc.id]
                if h:
                    rep.ok("EXC2", "re-raise of the caught error in %s" % fq.replace("conductor.", ""), r, "", deep=False)
                    continue
            key = (fq, (cls or norm(r.exc)).rsplit(".", 1)[-1].split("(")[0])
            if key in EXC2_ALLOW:
                rep.ok("EXC2", "allowed %s in %s" % (key[1], fq.replace("conductor.", "")), r, EXC2_ALLOW[key], deep=False)
            else:
                rep.bad("EXC2", "raise of %s in %s" % (key[1], fq.replace("conductor.", "")), r,
                        "`%s` is reachable while loading task definitions and is not a ConductorError: the user would see a traceback instead of an ERROR diagnostic" % norm(r)[:80])
    rep.notes.append("EXC2: %d functions reachable from load_transitive_closure, %d raise statements classified" % (len(reach), n))
    rep.expect_min("EXC2", 30)


# attributes of built-in exceptions that may be None (typeshed: builtins.pyi)
OPTIONAL_EXC_ATTRS = {
    "SyntaxError": {"text", "lineno", "offset", "filename", "end_lineno", "end_offset"},
    "IndentationError": {"text", "lineno", "offset", "filename", "end_lineno", "end_offset"},
    "TabError": {"text", "lineno", "offset", "filename", "end_lineno", "end_offset"},
    "OSError": {"errno", "strerror", "filename", "filename2"},
    "FileNotFoundError": {"errno", "strerror", "filename", "filename2"},
    "PermissionError": {"errno", "strerror", "filename", "filename2"},
    "ImportError": {"name", "path"},
    "ModuleNotFoundError": {"name", "path"},
    "SystemExit": {"code"},
}
ALWAYS_OPTIONAL = {"__cause__", "__context__", "__traceback__"}


def optional_exc_derefs(handler: ast.ExceptHandler) -> List[ast.AST]:
    """Uses of `<caught>.<optional attribute>` that fail when the attribute is None — as the receiver of an attribute
    access / subscript / call, as an arithmetic operand, iterated, or handed to len/int/float — without a test of
    that attribute on the way (enclosing if / conditional expression / earlier `and` operand / assert)."""
    if handler.name is None or handler.type is None:
        return []
    types = [norm(t).rsplit(".", 1)[-1] for t in (handler.type.elts if isinstance(handler.type, ast.Tuple) else [handler.type])]
    opt = set(ALWAYS_OPTIONAL)
    for t in types:
        opt |= OPTIONAL_EXC_ATTRS.get(t, set())
    parents: Dict[int, ast.AST] = {}
    for b in handler.body:
        for n in ast.walk(b):
            for ch in ast.iter_child_nodes(n):
                parents[id(ch)] = n
    asserted: Set[str] = set()
    out = []
    for b in handler.body:
        if isinstance(b, ast.Assert):
            asserted |= {norm(x) for x in ast.walk(b.test) if isinstance(x, ast.Attribute)}
        for n in ast.walk(b):
            if not (isinstance(n, ast.Attribute) and isinstance(n.value, ast.Name) and n.value.id == handler.name and n.attr in opt):
                continue
            par = parents.get(id(n))
            deref = (isinstance(par, ast.Attribute) and par.value is n) or (isinstance(par, ast.Subscript) and par.value is n) or \
                (isinstance(par, ast.Call) and (par.func is n or (isinstance(par.func, ast.Name) and par.func.id in ("len", "int", "float", "iter", "sorted", "list") and n in par.args))) or \
                (isinstance(par, ast.BinOp)) or (isinstance(par, ast.UnaryOp) and not isinstance(par.op, ast.Not)) or \
                (isinstance(par, (ast.For, ast.comprehension)) and par.iter is n) or (isinstance(par, ast.Starred))
            if not deref:
                continue
            txt = norm(n)
            guarded = txt in asserted
            cur: Optional[ast.AST] = n
            while cur is not None and not guarded:
                up = parents.get(id(cur))
                if isinstance(up, (ast.If, ast.IfExp, ast.While)) and cur is not up.test and txt in norm(up.test):
                    guarded = True
                if isinstance(up, ast.BoolOp) and any(txt in norm(v) for v in up.values[:up.values.index(cur)] if v is not cur):
                    guarded = True
                if isinstance(up, ast.comprehension) and any(txt in norm(c_) for c_ in up.ifs):
                    guarded = True
                cur = up
            if not guarded:
                out.append(n)
    return out


def rule_exc3(A: Analysis, rep):
    """A handler that turns an error into a diagnostic must not fail itself: no unguarded dereference of an attribute of
    the caught exception that can be None (SyntaxError.text is None for errors found after parsing; .lineno too)."""
    # the detector recognises the construct (kept as a positive example: the rule's expected count on the tree is zero)
    sample = ast.parse("try:\n    pass\nexcept SyntaxError as ex:\n    a = ex.text.strip()\n    b = ex.text.strip() if ex.text else ''\n    c = (ex.text or '').strip()\n    d = f(ex.lineno)\n")
    hs = [h for h in ast.walk(sample) if isinstance(h, ast.ExceptHandler)]
    if [getattr(x, "lineno", 0) for x in optional_exc_derefs(hs[0])] != [4]:
        raise AnalysisError("EXC3: the optional-attribute detector no longer recognises its positive example")
    n_h = n_use = 0
    for f in A.prog.scan_functions:
        if f.fq.startswith(("conductor.envs", "conductor.explorer")):
            continue
        for h in walk_local(f.node):
            if not isinstance(h, ast.ExceptHandler) or h.name is None:
                continue
            n_h += 1
            n_use += sum(1 for b in h.body for x in ast.walk(b) if isinstance(x, ast.Attribute) and isinstance(x.value, ast.Name) and x.value.id == h.name)
            bad = optional_exc_derefs(h)
            for x in bad:
                rep.bad("EXC3", "handler of %s in %s" % (norm(h.type), f.fq.replace("conductor.", "")), x,
                        "`%s` can be None here: the handler would raise %s instead of the diagnostic (a traceback, not an ERROR line)" % (
                            norm(x), "AttributeError/TypeError"))
            if not bad:
                rep.ok("EXC3", "handler of %s in %s" % (norm(h.type), f.fq.replace("conductor.", "")), h, "no unguarded use of an optional attribute", deep=False)
    rep.notes.append("EXC3: %d named exception handlers, %d attribute reads of the caught exception" % (n_h, n_use))
    rep.expect_min("EXC3", 8)


# documented task types (website/docs): parameter -> (type text, default text | None for required)
DOC_SCHEMA = {
    "run_command": {"name": ("str", None), "run": ("str", None), "parallelizable": ("bool", "False"), "args": ("list", "[]"), "options": ("dict", "{}"), "deps": ("[str]", "[]")},
    "run_experiment": {"name": ("str", None), "run": ("str", None), "parallelizable": ("bool", "False"), "args": ("list", "[]"), "options": ("dict", "{}"), "deps": ("[str]", "[]")},
    "group": {"name": ("str", None), "deps": ("[str]", "[]")},
    "combine": {"name": ("str", None), "deps": ("[str]", "[]")},
}
DOC_FULL = {"run_command": "RunCommand", "run_experiment": "RunExperiment", "group": "Group", "combine": "Combine"}


def raw_types(A: Analysis):
    m = A.prog.module("task_types")
    vals = m.assigns.get("_raw_task_types")
    if not vals or not isinstance(vals[0], ast.List):
        raise AnalysisError("SCH1: _raw_task_types list not found")
    out = {}
    for c in vals[0].elts:
        if not (isinstance(c, ast.Call) and norm(c.func) == "RawTaskType"):
            raise AnalysisError("SCH1: unexpected element in _raw_task_types")
        kw = A.kwmap(c)
        name = kw["name"].value
        schema = {norm(k).strip("'"): norm(v) for k, v in zip(kw["schema"].keys, kw["schema"].values)}
        defaults = {norm(k).strip("'"): norm(v) for k, v in zip(kw["defaults"].keys, kw["defaults"].values)}
        out[name] = (schema, defaults, norm(kw["full_type"]), c)
    return out


def scope_bindings(A: Analysis, cs) -> list:
    """Where `_compile_scope` binds one name per registered task type: (CFG node, loop variable, key text, value text,
    iterable text) for `for t in IT: scope[K] = V` and for `scope.update({K: V for t in IT})` (no filter, no early exit)."""
    g = A.cfg(cs, "plain")
    out = []
    for n in g.nodes:
        if n.kind == "for" and isinstance(n.ast, ast.For) and isinstance(n.ast.target, ast.Name) and not any(isinstance(x, (ast.Break, ast.Continue, ast.If)) for x in walk_local(n.ast)):
            for s_ in n.ast.body:
                if isinstance(s_, ast.Assign) and isinstance(s_.targets[0], ast.Subscript) and isinstance(s_.targets[0].value, ast.Name):
                    out.append((n, n.ast.target.id, norm(s_.targets[0].slice), norm(s_.value), norm(n.ast.iter), s_.targets[0].value.id))
        elif n.kind == "stmt" and isinstance(n.ast, ast.Expr) and isinstance(n.ast.value, ast.Call) and isinstance(n.ast.value.func, ast.Attribute) \
                and n.ast.value.func.attr == "update" and isinstance(n.ast.value.func.value, ast.Name) and len(n.ast.value.args) == 1 and isinstance(n.ast.value.args[0], ast.DictComp):
            dc = n.ast.value.args[0]
            if len(dc.generators) == 1 and not dc.generators[0].ifs and isinstance(dc.generators[0].target, ast.Name):
                out.append((n, dc.generators[0].target.id, norm(dc.key), norm(dc.value), norm(dc.generators[0].iter), n.ast.value.func.value.id))
    return out


def rule_sch1(A: Analysis, rep):
    rts = raw_types(A)
    for name, doc in DOC_SCHEMA.items():
        if name not in rts:
            rep.bad("SCH1", "task type %s" % name, None, "documented task type is no longer registered")
            continue
        schema, defaults, full, call = rts[name]
        want_schema = {k: v[0] for k, v in doc.items()}
        want_defaults = {k: v[1] for k, v in doc.items() if v[1] is not None}
        rep.check(schema == want_schema, "SCH1", "%s: documented parameters and types" % name, call, "", "schema is %s, documented %s" % (schema, want_schema))
        rep.check(defaults == want_defaults, "SCH1", "%s: documented defaults / required parameters" % name, call, "", "defaults are %s, documented %s" % (defaults, want_defaults))
        rep.check(full == DOC_FULL[name], "SCH1", "%s: materialised as %s" % (name, DOC_FULL[name]), call, "", "full_type is %s" % full)
        cls = A.prog.resolve_global(A.prog.module("task_types"), full)
        init = A.prog.find_method(cls, "__init__") if cls else None
        params = set(init.params[1:]) if init is not None else set()
        want = (set(schema) - {"name", "deps"}) | {"identifier", "cond_file_path", "deps"}
        rep.check(params == want, "SCH1", "%s: schema keys = constructor parameters" % name, call, "",
                  "%s.__init__ takes %s but materialisation passes %s (TypeError traceback at load time)" % (full, sorted(params), sorted(want)))
    rep.check(set(DOC_SCHEMA) <= set(rts), "SCH1", "all documented types registered", None, "", "registered: %s" % sorted(rts), deep=False)
    # registry and scope
    m = A.prog.module("task_types")
    v = m.assigns.get("raw_task_types")
    ok = v is not None and isinstance(v[0], ast.DictComp) and norm(v[0].key) == "task_type.name" and norm(v[0].value) == "task_type" and norm(v[0].generators[0].iter) == "_raw_task_types" and not v[0].generators[0].ifs
    rep.check(ok, "SCH1", "registry keyed by type name", m.tree, "", "raw_task_types is not {t.name: t for t in _raw_task_types}")
    cs = A.fn(TL + "_compile_scope")
    sb = scope_bindings(A, cs)
    ok = len(sb) == 1 and sb[0][2] == "%s.name" % sb[0][1] and sb[0][3] == "self._wrap_task_function(%s.load_from_cond_file)" % sb[0][1] and sb[0][4] == "raw_task_types.values()" and \
        A.cfg(cs, "plain").all_paths_pass(A.cfg(cs, "plain").entry, A.cfg(cs, "plain").exit, [sb[0][0]], skip_labels=is_exc)
    rep.check(ok, "SCH1", "every registered type is bound in the COND scope under its name", cs.node, "", "_compile_scope no longer binds each task type's constructor")
    fr = A.fn("task_types.base.TaskType.from_raw_task")
    r = [x for x in walk_local(fr.node) if isinstance(x, ast.Return)]
    ok = len(r) == 1 and norm(r[0].value) == "constructor(identifier=%s, deps=%s, **%s)" % (fr.params[0], fr.params[2], fr.params[1]) and \
        [norm(s) for s in fr.node.body if isinstance(s, ast.Delete)] == ["del %s['name']" % fr.params[1], "del %s['_full_type']" % fr.params[1]]
    rep.check(ok, "SCH1", "materialisation passes identifier, deps and the remaining schema keys", fr.node, "", "from_raw_task changed")
    rep.expect_min("SCH1", 16)


def rule_val1(A: Analysis, rep):
    v = A.fn("parsing.validation.generate_type_validator.validate")
    g = A.cfg(v, "plain")
    raises = {}
    for n in g.nodes:
        if n.kind == "stmt" and isinstance(n.ast, ast.Raise) and n.ast.exc is not None:
            cls = A.exc.exc_class(n.ast.exc)
            raises.setdefault(cls.rsplit(".", 1)[-1] if cls else norm(n.ast.exc), []).append(n)
    arg = v.params[0]
    ok = "MissingTaskParameter" in raises
    if ok:
        gs = A.path_guards(g, g.entry, raises["MissingTaskParameter"][0], v)
        ok = bool(gs) and all(("in(parameter,%s)" % arg, False) in c and ("t(_is_optional(type_class))", False) in c for c in gs)
    rep.check(ok, "VAL1", "missing required parameter rejected", v.node, "absent ∧ not Optional ⇒ MissingTaskParameter", "the validator no longer rejects exactly the absent non-optional parameters")
    ok = len(raises.get("InvalidTaskParameterType", [])) == 3
    if ok:
        conds = []
        for n in raises["InvalidTaskParameterType"]:
            gs = A.path_guards(g, g.entry, n, v)
            conds.append(sorted({a for c in gs for a, p in c if "isinstance" in a or "all(" in a}))
        conds = []
        for n in raises["InvalidTaskParameterType"]:
            gs = A.path_guards(g, g.entry, n, v, xstop=[arg])
            conds.append(sorted({a for c in gs for a, p in c if "isinstance" in a or "all(" in a}))
        flat = {a for c in conds for a in c}
        elem = "t(all((isinstance(_v0, expected_type[0]) for _v0 in %s[parameter])))" % arg
        ok = {"t(isinstance(%s[parameter], list))" % arg, elem, "t(isinstance(%s[parameter], expected_type))" % arg} <= flat
    rep.check(ok, "VAL1", "wrong types rejected (element-wise for lists)", v.node, "", "the validator's type checks changed (%s)" % {k: len(x) for k, x in raises.items()})
    alls = [c for c in walk_local(v.node) if isinstance(c, ast.Call) and isinstance(c.func, ast.Name) and c.func.id == "all" and len(c.args) == 1]
    want_all = "all((isinstance(_v0, expected_type[0]) for _v0 in %s[parameter]))" % arg
    rep.check(any(A.ctext(c, v) == want_all for c in alls), "VAL1", "list elements checked against the declared element type", v.node, "all(isinstance(el, expected_type[0]) for el in arguments[parameter])",
              "list elements are checked with %s" % [A.ctext(c, v) for c in alls])
    ok = "UnrecognizedTaskParameters" in raises
    if ok:
        n = raises["UnrecognizedTaskParameters"][0]
        loops = [a for a in _anc(n.ast) if isinstance(a, ast.For)]
        ok = len(loops) == 1 and norm(loops[0].iter) == arg and isinstance(n.ast._parent, ast.If) and norm(n.ast._parent.test) == "%s not in schema" % norm(loops[0].target)
        if not loops:
            # comprehension forms: `if any(a not in schema for a in arguments): raise` / `if not all(a in schema …): raise`
            gs = A.path_guards(g, g.entry, n, v)
            forms = {("t(any((_v0 not in schema for _v0 in %s)))" % arg, True), ("t(all((_v0 in schema for _v0 in %s)))" % arg, False),
                     ("t(any((not _v0 in schema for _v0 in %s)))" % arg, True)}
            ok = bool(gs) and all(any(a_ in forms for a_ in c) and not any("isinstance" in a_[0] for a_ in c) for c in gs)
    rep.check(ok, "VAL1", "unknown parameters rejected", v.node, "", "the validator no longer rejects parameters outside the schema")
    lf = A.fn("task_types.raw.RawTaskType.load_from_cond_file")
    g = A.cfg(lf, "plain")
    # the merged dict is whatever the validator is applied to
    vcalls = [n for n in g.nodes if n.kind == "stmt" and isinstance(n.ast, ast.Expr) and isinstance(n.ast.value, ast.Call)
              and norm(n.ast.value.func) == "self._validator" and len(n.ast.value.args) == 1 and isinstance(n.ast.value.args[0], ast.Name)]
    MV = vcalls[0].ast.value.args[0].id if vcalls else "args"
    val = [n for n in vcalls if n.ast.value.args[0].id == MV]
    rets = [n for n in g.nodes if n.kind == "stmt" and isinstance(n.ast, ast.Return)]
    nm = [n for n in g.nodes if n.kind == "stmt" and isinstance(n.ast, ast.Raise) and "InvalidTaskName" in norm(n.ast)]
    merged = A.single_def_value(lf, MV)
    kw = lf.node.args.kwarg.arg if lf.node.args.kwarg is not None else "kwargs"
    # "defaults overridden by the user's values", in any of its spellings
    one_shot = {"{**self._defaults, **%s}" % kw, "dict(self._defaults, **%s)" % kw, "self._defaults | %s" % kw, "{**self._defaults} | %s" % kw}
    copies = {"dict(self._defaults)", "self._defaults.copy()", "{**self._defaults}", "dict(**self._defaults)"}
    muts = [n for n in g.nodes if n.kind == "stmt" and n.ast is not None and any(
        (isinstance(x, ast.Call) and isinstance(x.func, ast.Attribute) and norm(x.func.value) == MV and x.func.attr in ("update", "pop", "clear", "setdefault", "popitem")) or
        (isinstance(x, (ast.Assign, ast.Delete)) and any(isinstance(t_, ast.Subscript) and norm(t_.value) == MV for t_ in (x.targets if hasattr(x, "targets") else [])))
        for x in ast.walk(n.ast))]
    muts_before = [m_ for m_ in muts if val and any(g.reachable(m_, v_, skip_labels=skip) for v_ in val)]
    ok_merge = False
    if merged is not None and norm(merged) in one_shot:
        ok_merge = not muts_before
    elif merged is not None and norm(merged) in copies:
        ok_merge = len(muts_before) == 1 and norm(muts_before[0].ast) in ("%s.update(%s)" % (MV, kw), "%s.update(**%s)" % (MV, kw)) and \
            all(g.all_paths_pass(g.entry, v_, muts_before, skip_labels=skip) for v_ in val)
    ok = bool(val) and bool(rets) and all(g.all_paths_pass(g.entry, r, val, skip_labels=skip) for r in rets) and len(nm) == 1 and \
        A.path_guards(g, g.entry, nm[0], lf, xstop=[MV]) == [frozenset({("t(TaskIdentifier.is_name_valid(%s['name']))" % MV, False)})] and ok_merge
    rep.check(ok, "VAL1", "definitions are validated, named validly, defaults overridden by the user's values", lf.node, "", "load_from_cond_file no longer validates (schema, then name) the merged arguments")
    rt = A.fn("task_types.raw.RawTaskType.__init__")
    rep.check(any(isinstance(s, ast.Assign) and norm(s.targets[0]) == "self._validator" and norm(s.value) == "generate_type_validator(%s, %s)" % (rt.params[1], rt.params[2]) for s in rt.node.body), "VAL1", "validator built from the type's own schema", rt.node, "", "the validator is not generated from (name, schema)", deep=False)
    sh = A.fn(TL + "_wrap_task_function.shim")
    g = A.cfg(sh, "plain")
    dup = [n for n in g.nodes if n.kind == "stmt" and isinstance(n.ast, ast.Raise) and "DuplicateTaskName" in norm(n.ast)]
    store = [n for n in g.nodes if n.kind == "stmt" and isinstance(n.ast, ast.Assign) and norm(n.ast.targets[0]).startswith("self._tasks[")]
    ok = len(dup) == 1 and len(store) == 1 and A.path_guards(g, g.entry, dup[0], sh, xstop=["raw_task"]) == [frozenset({("in(raw_task['name'],self._tasks)", True)})] and \
        all(("in(raw_task['name'],self._tasks)", False) in c for c in A.path_guards(g, g.entry, store[0], sh, xstop=["raw_task"])) and \
        A.xtext(store[0].ast.targets[0].slice, sh, stop=["raw_task"]) == "raw_task['name']"
    rep.check(ok, "VAL1", "unique task names per COND file", sh.node, "", "a second task with the same name is no longer rejected before being stored")
    # primitives
    for cls, err in (("utils.run_arguments.RunArguments", "RunArgumentsNonPrimitiveValue"), ("utils.run_options.RunOptions", "RunOptionsNonPrimitiveValue")):
        fr = A.fn(cls + ".from_raw")
        rs = [x for x in walk_local(fr.node) if isinstance(x, ast.Raise) and err in norm(x)]
        ok = len(rs) == 1
        if ok:
            # the condition under which the error is raised for one element, whatever the nesting (`if bad: raise` /
            # `if good: continue; raise`): its guard from the entry of the enclosing loop body
            gfr = A.cfg(fr, "plain")
            loops_ = [a_ for a_ in _anc(rs[0]) if isinstance(a_, ast.For)]
            start = gfr.entry
            if loops_:
                hdr_ = [n_ for n_ in gfr.nodes if n_.kind == "for" and n_.ast is loops_[0]]
                if hdr_:
                    start = [m_ for (m_, l_) in hdr_[0].succ if l_ == "T"][0]
            d = A.path_guards(gfr, start, gfr.node_of(rs[0]), fr)
            kinds = []
            for c in d:
                neg_vars = {a[len("t(isinstance("):-2].split(", ", 1)[0] for a, p in c if not p and a.startswith("t(isinstance(")}
                for a, p in c:
                    if p and a.startswith("t(isinstance(") and a[len("t(isinstance("):-2].split(", ", 1)[0] not in neg_vars:
                        continue   # an earlier check on another variable (the option's key) that was passed
                    if p or not a.startswith("t(isinstance("):
                        kinds.append("?")
                        continue
                    ty = a[len("t(isinstance("):-2].split(", ", 1)[-1]
                    if ty.startswith("("):
                        kinds.extend(x.strip() for x in ty.strip("()").split(","))
                    else:
                        els = A.const_elements(fr.module, ty)
                        kinds.extend(els if els is not None else [ty])
            ok = len(d) == 1 and sorted(kinds) == ["bool", "float", "int", "str"]
        rep.check(ok, "VAL1", "%s: only str/bool/int/float values" % cls.rsplit(".", 1)[1], fr.node, "", "the primitive-value check changed")
    fo = A.fn("utils.run_options.RunOptions.from_raw")
    rs = [x for x in walk_local(fo.node) if isinstance(x, ast.Raise) and "RunOptionsNonStringKey" in norm(x)]
    rep.check(len(rs) == 1 and isinstance(rs[0]._parent, ast.If) and norm(rs[0]._parent.test) == "not isinstance(key, str)", "VAL1", "option keys are strings", fo.node, "", "the option-key check changed")
    rep.expect_min("VAL1", 10)


def rule_inc2(A: Analysis, rep):
    """What include() binds in a COND file belongs to that COND file: the values are created by evaluating the included
    file for it, or — when a cache of evaluated scopes is filled — handed out as deep copies.  Handing the cached scope's
    own lists/dicts to several COND files lets an in-place change made by one of them (`BASE_ARGS.append(...)`) show up
    in the args/options of tasks another file declares, depending on load order."""
    fi = A.fn(TL + "_run_include")
    cls_fns = [f for f in A.prog.scan_functions if f.fq.startswith("conductor.parsing.task_loader.TaskLoader.")]
    stores = []
    for f in cls_fns:
        for s in walk_local(f.node):
            if isinstance(s, (ast.Assign, ast.AugAssign)):
                for t in (s.targets if isinstance(s, ast.Assign) else [s.target]):
                    if isinstance(t, ast.Subscript) and norm(t.value) == "self._include_cache":
                        stores.append((f, s))
            if isinstance(s, ast.Call) and isinstance(s.func, ast.Attribute) and norm(s.func.value) == "self._include_cache" and s.func.attr in ("update", "setdefault", "__setitem__"):
                stores.append((f, s))
    hits = [c for c in walk_local(fi.node) if isinstance(c, ast.Call) and isinstance(c.func, ast.Attribute) and c.func.attr == "update"
            and norm(c.func.value) == "self._curr_exec_scope" and c.args and "self._include_cache" in A.xtext(c.args[0], fi)]
    if not hits:
        raise AnalysisError("INC2: the cache-hit path of _run_include was not found")
    for c in hits:
        arg = A.expand(c.args[0], fi)
        copied = isinstance(arg, ast.Call) and norm(arg.func) in ("copy.deepcopy", "deepcopy")
        rep.check(not stores or copied, "INC2", "a cached include scope is not shared between COND files", c,
                  "the cache is never filled (every include() is evaluated afresh)" if not stores else "the cached scope is deep-copied on a hit",
                  "the include cache is filled (%s) and a hit binds the cached objects themselves: lists and dicts defined by the included file are shared by every COND file that includes it" % (
                      ", ".join("%s:%d" % (f.name, s.lineno) for f, s in stores)))
    rep.notes.append("INC2: %d store(s) into _include_cache, %d hit site(s)" % (len(stores), len(hits)))


def rule_inc1(A: Analysis, rep):
    fi = A.fn(TL + "_run_include")
    g = A.cfg(fi, "plain")
    cp = fi.params[1]
    raises = {}
    for n in g.nodes:
        if n.kind == "stmt" and isinstance(n.ast, ast.Raise) and n.ast.exc is not None:
            cls = A.exc.exc_class(n.ast.exc)
            raises.setdefault(cls.rsplit(".", 1)[-1] if cls else "?", []).append(n)
    ext = A.prog.fold_fq("conductor.config.COND_INCLUDE_EXTENSION")
    ok = "IncludeFileInvalidExtension" in raises and A.path_guards(g, g.entry, raises["IncludeFileInvalidExtension"][0], fi) == [frozenset({("t(%s.endswith(COND_INCLUDE_EXTENSION))" % cp, False)})] and ext == ".cond"
    rep.check(ok, "INC1", "only .cond files may be included", fi.node, "", "the extension check changed (extension %r)" % (ext,))
    h1 = [h for h in walk_local(fi.node) if isinstance(h, ast.ExceptHandler) and h.type is not None and norm(h.type) == "FileNotFoundError"]
    ok = len(h1) == 1 and any(isinstance(x, ast.Raise) and "IncludeFileNotFound" in norm(x) for x in h1[0].body) and \
        any(isinstance(c, ast.Call) and isinstance(c.func, ast.Attribute) and c.func.attr == "resolve" and isinstance(c.func.value, ast.Name)
            and norm(A.kw(c, "strict") or ast.Constant(value=False)) == "True" for t in _anc(h1[0]) if isinstance(t, ast.Try) for b in t.body for c in ast.walk(b))
    rep.check(ok, "INC1", "missing include ⇒ IncludeFileNotFound", fi.node, "", "a non-existent included file is no longer reported cleanly")
    h2 = [h for h in walk_local(fi.node) if isinstance(h, ast.ExceptHandler) and h.type is not None and norm(h.type) == "ValueError"]
    ok = len(h2) == 1 and any(isinstance(x, ast.Raise) and "IncludeFileNotInProject" in norm(x) for x in h2[0].body) and \
        any(isinstance(c, ast.Call) and norm(c) == "include_path.relative_to(self._project_root)" for t in _anc(h2[0]) if isinstance(t, ast.Try) for b in t.body for c in ast.walk(b))
    rep.check(ok, "INC1", "includes must lie inside the project", fi.node, "resolved path must be relative to the project root", "the inside-the-project check changed")
    # order: extension -> resolve -> inside project -> exec
    ex = [n for n in g.nodes if n.kind == "stmt" and any(isinstance(c, ast.Call) and isinstance(c.func, ast.Name) and c.func.id == "exec" for c in walk_local(n.ast))]
    rel = [n for n in g.nodes if n.kind == "stmt" and norm(n.ast) == "include_path.relative_to(self._project_root)"]
    res = [n for n in g.nodes if n.kind == "stmt" and "resolve(strict=True)" in norm(n.ast)]
    extt = [n for n in g.nodes if n.kind == "test" and "endswith(COND_INCLUDE_EXTENSION)" in norm(n.ast)]
    ok = bool(ex) and bool(rel) and bool(res) and bool(extt) and all(g.all_paths_pass(g.entry, e, rel, skip_labels=skip) and g.all_paths_pass(g.entry, e, res, skip_labels=skip) and g.all_paths_pass(g.entry, e, extt, skip_labels=skip) for e in ex)
    rep.check(ok, "INC1", "all checks precede the evaluation of the included file", fi.node, "", "the included file can be evaluated before its path was validated")
    # INC2: nothing enters the COND file's scope (evaluation result *or cached result*) before the same checks,
    # and the include cache is keyed by the resolved absolute path (the same relative string names different
    # files in different directories)
    upd = [n for n in g.nodes if n.kind == "stmt" and "self._curr_exec_scope.update(" in norm(n.ast)]
    okc = bool(upd) and all(g.all_paths_pass(g.entry, u, rel, skip_labels=skip) and g.all_paths_pass(g.entry, u, res, skip_labels=skip) and
                            g.all_paths_pass(g.entry, u, extt, skip_labels=skip) for u in upd)
    rep.check(okc, "INC1", "cached or fresh, symbols enter the scope only after all checks", fi.node, "every `_curr_exec_scope.update(...)` is dominated by the extension, existence and inside-project checks",
              "symbols of an included file can be injected (e.g. from the include cache) before the path was validated — a missing or malformed file would be accepted silently")
    keys = set()
    for n in walk_local(fi.node):
        if isinstance(n, ast.Subscript) and norm(n.value) == "self._include_cache":
            keys.add(A.xtext(n.slice, fi, stop=["include_path"]))
        if isinstance(n, ast.Compare) and len(n.ops) == 1 and isinstance(n.ops[0], (ast.In, ast.NotIn)) and norm(n.comparators[0]) == "self._include_cache":
            keys.add(A.xtext(n.left, fi, stop=["include_path"]))
    cache_tests = [n for n in g.nodes if n.kind == "test" and "self._include_cache" in norm(n.ast)]
    # a local that holds the key must itself be computed after the path was resolved
    key_defs = [g.node_of(d) for nm_ in {x.id for n in walk_local(fi.node) if isinstance(n, ast.Subscript) and norm(n.value) == "self._include_cache" for x in ast.walk(n.slice) if isinstance(x, ast.Name)}
                for d in A.defs(fi, nm_) if isinstance(d, (ast.Assign, ast.AnnAssign)) and nm_ != "include_path" and g.nodes_of(d)]
    okk = keys <= {"str(include_path)"} and all(g.all_paths_pass(g.entry, t_, res, skip_labels=skip) for t_ in cache_tests + key_defs)
    rep.check(okk, "INC1", "include cache keyed by the resolved path", fi.node, "", "the include cache is keyed by %s (must be the resolved absolute path, looked up after resolution)" % sorted(keys))
    # the included file is evaluated in a scope without Conductor's symbols (cannot define tasks or include)
    okx = False
    for e in ex:
        for c in walk_local(e.ast):
            if isinstance(c, ast.Call) and isinstance(c.func, ast.Name) and c.func.id == "exec" and len(c.args) == 3:
                gl = c.args[1]
                okx = isinstance(gl, ast.Dict) and not gl.keys and isinstance(c.args[2], ast.Name)
                lv = A.single_def_value(fi, c.args[2].id) if isinstance(c.args[2], ast.Name) else None
                okx = okx and lv is not None and isinstance(lv, ast.Dict) and not lv.keys
    rep.check(okx, "INC1", "included files see no task constructors and no include()", fi.node, "exec(code, {}, fresh_scope)", "the included file is evaluated in a scope that may contain Conductor's symbols (it could define tasks or include files)")
    # path resolution: // = project root, otherwise relative to the including COND file
    # … decided on what is handed to resolve(): the value reaching it, per path condition
    res_calls = [c for c in walk_local(fi.node) if isinstance(c, ast.Call) and isinstance(c.func, ast.Attribute) and c.func.attr == "resolve"
                 and norm(A.kw(c, "strict") or ast.Constant(value=False)) == "True"]
    defs = []
    ok = False
    if len(res_calls) == 1:
        st_ = res_calls[0]
        while not isinstance(st_, ast.stmt):
            st_ = st_._parent
        defs = sorted((fmt_conj(c_), v_) for c_, v_ in A.rvalues(fi, res_calls[0].func.value, st_, g, keep=lambda a: a == "t(%s.startswith('//'))" % cp, depth=3, calls=True))
        ok = defs == sorted([("t(%s.startswith('//'))" % cp, "self._project_root.joinpath(%s[2:])" % cp),
                             ("!t(%s.startswith('//'))" % cp, "self._current_cond_file_path.parent.joinpath(%s)" % cp)])
    rep.check(ok, "INC1", "include paths: //… from the root, others relative to the COND file", fi.node, "", "include path resolution changed: %s" % defs)
    rep.expect_min("INC1", 8)
