"""C07 — Task environment contract and a consistent dependency snapshot."""
from . import envcontract as EC, fs, planner as P

META = {
    "explanation": "Environment dict shape and documented variable names (RT3), spawn parameters and command assembly (RT4), output "
                   "directory created before the spawn (RT5/RT6), dependency paths in declared order (DEP1), snapshot taken on the second "
                   "visit after the task's own new version (PL9) with one lowering per task (W1, PL10), and writer/reader agreement of the "
                   "support library on COND_DEPS / COND_OUT including the empty list (LIB1, LIB2).",
    "rules": ["RT3", "RT4", "RT5", "DEP1", "PL9", "W1(planner)", "PL10", "LIB1", "LIB2"],
    "assumptions": ["quoting of argument values inside the bash command line is plain string joining (documented contract)"],
    "trusted": ["ast parser", "constant folder"],
}


def run(A, rep, tier):
    EC.rule_rt3(A, rep)
    EC.rule_rt4(A, rep)
    fs.rule_rt6(A, rep)
    EC.rule_dep1(A, rep)
    F = P.rules_planner_links(A, rep)
    P.rule_w1_planner(A, rep, F)
    P.rule_pl9_snapshot(A, rep, F)
    EC.rule_lib(A, rep)
