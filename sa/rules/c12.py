"""C12 — restore is all-or-nothing and never overwrites."""
from . import archive_restore as AR, fs, vindex as V

META = {
    "explanation": "All inserts share one transaction committed at one point after the copy loop (RS1, RS4), rolled back first on every "
                   "exceptional exit by a catch-all handler (RS3), never committed implicitly (VI7) or from the loader; existing directories "
                   "are never written (RS2, DEL1); the primary key rejects a recorded version (SQL3).",
    "rules": ["RS1", "RS2", "RS3", "RS4", "VI7", "SQL3", "DEL1"],
    "assumptions": ["a kill leaves SQLite's journal to roll back", "partially copied *unrecorded* directories may remain (allowed by the property)"],
    "trusted": ["ast parser", "typed exception summaries", "SQL subset reader"],
}


def run(A, rep, tier):
    F = AR.rule_rs1(A, rep)
    AR.rule_rs2(A, rep, F)
    V.rule_vi7(A, rep)
    V.rule_sql3(A, rep)
    V.rule_vi1(A, rep)
    fs.rule_del1(A, rep)
