"""C03 — Failures skip dependents, spare independents, and decide the exit status."""
from . import executor as E, planner as P, runtask as R

META = {
    "explanation": "Typestate of the launch loop and of the wait step over the typed-exception CFG (EX6/EX7: every path "
                   "from dequeue/wait ends skipped∧processed, launched∧registered, failed∧stored∧processed or aborted∧re-raised), "
                   "the success predicate (EX4/EX5), failure precedence in finish_execution (RT1), launch failures "
                   "(RT7), wait-status decoding (SGc), the report and exit status (EX9, CLI1), --stop-early (EX10), and the planner's edge completeness (PL1–PL3, PL10, W1: a dependent can only be skipped if the edge from the failed task exists). Slot accounting cannot underflow after a launch failure (EX14, EX15). A failure is charged to the task whose pid was reaped (RT10, SG8, INF1).",
    "rules": ["EX4", "EX5", "EX6", "EX7", "RT1", "RT7", "SGc", "EX9", "CLI1", "EX10", "EX1", "PL1", "PL2", "PL3", "PL10", "W1(planner)", "EX14", "EX15", "RT10", "SG8", "INF1"],
    "assumptions": ["liveness half ('every other needed task still runs') is covered only through 'no op is dropped' (EX6/EX7) and the enqueue gate",
                    "signal delivery between statements (DESIGN §3.7)"],
    "trusted": ["ast parser", "typed exception summaries (sa/exc.py tables for externals)"],
}


def run(A, rep, tier):
    X = E.ExecFacts(A)
    E.rule_ex4(A, rep, X)
    E.rule_ex5(A, rep, X)
    E.rule_ex6(A, rep, X)
    E.rule_ex7(A, rep, X)
    E.rule_ex1(A, rep, X)
    R.rule_rt1(A, rep)
    R.rule_rt7(A, rep)
    R.rule_sgc(A, rep)
    # a failure is charged to the task that failed: status attribution by reaped pid, one reaper
    from . import reaping as RP
    RP.rule_rt10(A, rep)
    RP.rule_sg8(A, rep)
    RP.rule_inf1(A, rep)
    E.rule_ex9(A, rep, X)
    E.rule_cli1(A, rep)
    E.rule_ex10(A, rep, X)
    # a dependent is skipped only if the edge from the failed task exists: planner edge completeness
    F = P.rules_planner_links(A, rep)
    P.rule_w1_planner(A, rep, F)
    # the slot pool cannot underflow after a launch failure (an IndexError would end the run without the failed/skipped report)
    E.rule_ex14(A, rep, X)
    E.rule_ex15(A, rep, X)
