"""Planner (lowering) rules PL1–PL9 and the planner instance of W1."""
from __future__ import annotations

import ast
from typing import List, Optional, Tuple

from ..analysis import Analysis, fmt_conj
from ..cfg import Node, is_back, is_exc
from ..model import AnalysisError, norm, walk_local
from .worklist import Worklist, check_w1, find_worklists, skip

PLANNER = "execution.planning.planner.ExecutionPlanner.create_plan_for"
OPERATION = "conductor.execution.ops.operation.Operation"


class PlannerFacts:
    def __init__(self, A: Analysis):
        self.A = A
        self.fi = A.fn(PLANNER)
        self.g = A.cfg(self.fi, "plain")
        wls = find_worklists(A, self.fi)
        if len(wls) != 1:
            raise AnalysisError("planner: expected exactly one worklist loop, found %d" % len(wls))
        self.w: Worklist = wls[0]
        self.lt = self.w.pop_targets[0] if self.w.pop_targets else None
        # operation constructions: `<name> = <Operation subclass>(...)`
        self.constructions: List[Tuple[Node, str, ast.Call, str]] = []
        for n in self.w.nodes():
            st = n.ast
            if n.kind == "stmt" and isinstance(st, (ast.Assign, ast.AnnAssign)) and isinstance(st.value, ast.Call):
                for c in A.callees(st.value):
                    if c in A.prog.classes and A.prog.is_subclass(c, OPERATION):
                        tgt = st.targets[0] if isinstance(st, ast.Assign) else st.target
                        if isinstance(tgt, ast.Name):
                            self.constructions.append((n, tgt.id, st.value, c))
        if not self.constructions:
            raise AnalysisError("planner: no Operation construction found")
        self.op_var = self.constructions[0][1]
        # the ExecutionPlan(...) construction
        plans = [c for c in A.calls_in_func(self.fi, "conductor.execution.plan.ExecutionPlan")]
        if len(plans) != 1:
            raise AnalysisError("planner: expected one ExecutionPlan(...) construction")
        self.plan_call = plans[0]

        def kwname(k):
            v = A.kw(self.plan_call, k)
            if not isinstance(v, ast.Name):
                raise AnalysisError("planner: ExecutionPlan(%s=...) is not a local list" % k)
            return v.id
        self.all_ops = kwname("all_ops")
        self.initial_ops = kwname("initial_ops")
        self.cached = kwname("cached_tasks")
        self.num = kwname("num_tasks_to_run")

    def appends(self, lst: str) -> List[Node]:
        out = []
        for n in self.w.nodes():
            if n.kind == "stmt" and isinstance(n.ast, ast.Expr) and isinstance(n.ast.value, ast.Call):
                c = n.ast.value
                if isinstance(c.func, ast.Attribute) and c.func.attr == "append" and norm(c.func.value) == lst:
                    out.append(n)
        return out

    def link_loops(self):
        """for dep in <lt>.deps: for dep_op in dep.output_ops: ..."""
        out = []
        for node in walk_local(self.w.loop):
            if isinstance(node, ast.For):
                for inner in node.body:
                    if isinstance(inner, ast.For):
                        calls = [c for c in walk_local(inner) if isinstance(c, ast.Call) and isinstance(c.func, ast.Attribute)
                                 and c.func.attr in ("add_exe_dep", "add_dep_of")]
                        if calls:
                            out.append((node, inner, calls))
        return out


def second_visit_guarded(A: Analysis, F, conj) -> bool:
    """The path condition says "second visit": `state == SECOND_VISIT`, or — LoweringState having exactly the two
    members FIRST_VISIT and SECOND_VISIT — `state != FIRST_VISIT`."""
    if ("eq(LoweringState.SECOND_VISIT,%s.state)" % F.lt, True) in conj:
        return True
    members = []
    try:
        cls = A.prog.cls("conductor.execution.planning.lowering.LoweringState")
        members = [norm(t) for st in cls.node.body if isinstance(st, ast.Assign) for t in st.targets if isinstance(t, ast.Name)]
    except Exception:
        members = []
    return sorted(members) == ["FIRST_VISIT", "SECOND_VISIT"] and ("eq(LoweringState.FIRST_VISIT,%s.state)" % F.lt, False) in conj


def rules_planner_links(A: Analysis, rep, F: Optional[PlannerFacts] = None):
    """PL1, PL2, PL3, PL5."""
    F = F or PlannerFacts(A)
    g, w, fi = F.g, F.w, F.fi
    all_append = F.appends(F.all_ops)
    if not all_append:
        rep.bad("PL1", "all_ops", w.loop, "no operation is ever appended to the plan's all_ops list")
        return F
    links = F.link_loops()
    if len(links) != 1:
        rep.bad("PL1", "link-loop", w.loop, "expected exactly one dependency-linking loop nest, found %d" % len(links))
        return F
    outer, inner, calls = links[0]
    problems = []
    it_outer = A.xtext(outer.iter, fi)
    if norm(outer.iter) != "%s.deps" % F.lt:
        problems.append("outer loop iterates `%s`, not the whole `%s.deps`" % (norm(outer.iter), F.lt))
    if not (isinstance(outer.target, ast.Name) and norm(inner.iter) == "%s.output_ops" % outer.target.id):
        problems.append("inner loop iterates `%s`, not the whole `<dep>.output_ops`" % norm(inner.iter))
    for lp in (outer, inner):
        for sub in walk_local(lp):
            if sub is not lp and isinstance(sub, (ast.If, ast.Break, ast.Continue, ast.Return, ast.Try, ast.While)) and not (sub is inner):
                problems.append("conditional / early exit `%s` inside the linking loops (line %d)" % (type(sub).__name__, sub.lineno))
    if outer.orelse or inner.orelse or len(outer.body) != 1:
        problems.append("linking loop nest has extra statements / else clauses")
    dep_op = inner.target.id if isinstance(inner.target, ast.Name) else None
    have = {"add_exe_dep": False, "add_dep_of": False}
    for st in inner.body:
        if isinstance(st, ast.Expr) and isinstance(st.value, ast.Call) and isinstance(st.value.func, ast.Attribute):
            c = st.value
            recv, meth = norm(c.func.value), c.func.attr
            arg = norm(c.args[0]) if len(c.args) == 1 else None
            if meth == "add_exe_dep" and recv == F.op_var and arg == dep_op and A.res.is_call_to(c, "Operation.add_exe_dep"):
                have["add_exe_dep"] = True
            if meth == "add_dep_of" and recv == dep_op and arg == F.op_var and A.res.is_call_to(c, "Operation.add_dep_of"):
                have["add_dep_of"] = True
    for k, v in have.items():
        if not v:
            problems.append("missing `%s` with the roles (new op ↔ dependency op) in the linking loop" % k)
    rep.check(not problems, "PL1", "edge-completeness", outer,
              "every dependency's every output op is linked in both directions", "; ".join(problems))
    # every construction reaches all_ops.append only through the linking loop
    outer_nodes = [n for n in g.nodes if n.kind == "for" and n.ast is outer]
    for (cn, var, call, cls) in F.constructions:
        okp = all(g.all_paths_pass(cn, ap, outer_nodes, skip_labels=skip) for ap in all_append) and \
            any(g.reachable(cn, ap, skip_labels=skip) for ap in all_append)
        rep.check(okp and var == F.op_var, "PL1", "construct→link→register %s" % cls.rsplit(".", 1)[1], cn.ast,
                  "construction reaches all_ops.append only through the linking loop",
                  "an operation of type %s can be registered in all_ops without passing the linking loop" % cls.rsplit(".", 1)[1])
    rep.expect_min("PL1", 4)

    # PL2 deps mirror
    mirror = None
    for node in walk_local(w.loop):
        if isinstance(node, ast.For) and norm(node.iter).replace("reversed(", "").rstrip(")") == "%s.task.deps" % F.lt:
            in_loop = {id(x) for x in ast.walk(node)}
            if any(id(n.ast) in in_loop for n in F.appends("%s.deps" % F.lt)):
                mirror = node
    if mirror is None:
        rep.bad("PL2", "deps-mirror", w.loop, "no loop over all of `%s.task.deps` in the first-visit branch" % F.lt)
    else:
        hdr = [n for n in g.nodes if n.kind == "for" and n.ast is mirror][0]
        body_entry = [m for (m, l) in hdr.succ if l == "T"]
        apps = [n for n in F.appends("%s.deps" % F.lt)]
        in_body = {id(x) for x in ast.walk(mirror)}
        apps = [n for n in apps if id(n.ast) in in_body]
        # every path body-entry -> back edge passes exactly one append
        reach_wo = g.reach(body_entry, removed=apps, skip_labels=skip)
        ends_without = [n for n in reach_wo if any(m is hdr and is_back(l) for (m, l) in n.succ)]
        twice = any(b in g.reach([m for (m, l) in a.succ if not skip(l)], skip_labels=skip) for a in apps for b in apps)
        tvar = mirror.target.id if isinstance(mirror.target, ast.Name) else "?"
        arg_ok = True
        for a in apps:
            arg = a.ast.value.args[0]
            if isinstance(arg, ast.Name):
                vals = [d.value for d in A.defs(fi, arg.id) if isinstance(d, ast.Assign) and id(d) in in_body]
                if not vals or not all(tvar in {x.id for x in ast.walk(A.expand(v, fi, stop=[tvar, F.lt, w.stack])) if isinstance(x, ast.Name)} for v in vals):
                    arg_ok = False
            elif tvar not in {x.id for x in ast.walk(arg) if isinstance(x, ast.Name)}:
                arg_ok = False
        rep.check(bool(apps) and not ends_without and not twice and arg_ok, "PL2", "deps-mirror", mirror,
                  "each listed dependency contributes exactly one LoweringTask to lt.deps on every path",
                  "an iteration over task.deps can end %s" % ("without appending to lt.deps (line %s)" % ends_without[0].lineno
                                                              if ends_without else "with two appends / an unrelated value"))
    # PL10: a LoweringTask linked into lt.deps must be complete (lowered or cached) when lt is lowered.
    #  (a) a fresh entry must be pushed above lt's own second-visit marker (LIFO ⇒ finished first);
    #  (b) an entry taken from the memo is complete only if the memo is marked at pop (first visit):
    #      an entry that is merely *on the stack* (marked at push) may still be unprocessed when a sibling links to it.
    memos = w.memos()
    second_push = [p for (p, c) in w.pushes() if c.args and norm(c.args[0]) == F.lt]
    dep_apps = F.appends("%s.deps" % F.lt)
    for a in dep_apps:
        arg = a.ast.value.args[0]
        srcs = [arg]
        if isinstance(arg, ast.Name):
            srcs = [d.value for d in A.defs(fi, arg.id) if isinstance(d, ast.Assign)]
        for v in srcs:
            from_memo = [m for m in memos if (isinstance(v, ast.Subscript) and norm(v.value) == m) or
                         (isinstance(v, ast.Call) and isinstance(v.func, ast.Attribute) and v.func.attr == "get" and norm(v.func.value) == m)]
            if from_memo:
                m = from_memo[0]
                marks = w.marks(m)
                push_marks = [(n, k) for (n, k) in marks if not (any(t in k for t in w.pop_targets) or (w.stack + ".pop()") in k)]
                rep.check(not push_marks, "PL10", "memo entries linked as dependencies are complete", a.ast,
                          "`%s` is marked only at the node's own first visit, so an entry found there has finished lowering (acyclic graph, LIFO)" % m,
                          "`%s` is marked at push time (line %s): a sibling listed earlier links to an entry that is still unprocessed on the stack, "
                          "its output_ops is empty and the dependency edge is silently lost" % (m, push_marks[0][0].lineno if push_marks else "?"))
            elif isinstance(v, ast.Call) and (A.res.is_call_to(v, "LoweringTask.initial") or norm(v.func) == "LoweringTask.initial"):
                pushed = [p for (p, c) in w.pushes() if c.args and isinstance(arg, ast.Name) and norm(c.args[0]) == arg.id]
                okp = bool(pushed) and bool(second_push) and all(g.all_paths_pass(w.pop_node(), p, second_push, skip_labels=skip) for p in pushed)
                rep.check(okp, "PL10", "fresh dependency entries are pushed above the second-visit marker", a.ast,
                          "the task's own second visit is pushed first, so its dependencies are lowered before it",
                          "a new dependency entry is not pushed after (above) the task's own second-visit marker — it would be lowered too late")
            else:
                rep.bad("PL10", "origin of a linked dependency", a.ast, "`%s` is neither a fresh LoweringTask nor a memo entry" % norm(v)[:60])
    rep.expect_min("PL10", 2)
    # PL3 output_ops
    out_apps = F.appends("%s.output_ops" % F.lt)
    for (cn, var, call, cls) in F.constructions:
        okp = bool(out_apps) and all(g.all_paths_pass(cn, ap, out_apps, skip_labels=skip) for ap in all_append)
        okarg = all(norm(o.ast.value.args[0]) == var for o in out_apps)
        rep.check(okp and okarg, "PL3", "output_ops %s" % cls.rsplit(".", 1)[1], cn.ast,
                  "the new op is appended to the lowering task's output_ops before it is registered",
                  "dependents link against lt.output_ops, but the new op is not appended to it on every path")
    # PL5 initial ops
    init_apps = F.appends(F.initial_ops)
    post = A.single_def_value(fi, F.initial_ops) if not init_apps else None
    if not init_apps and isinstance(post, (ast.ListComp, ast.GeneratorExp)):
        # computed once the graph is complete: [op for op in all_ops if len(op.exe_deps) == 0], after the lowering loop
        gen = post.generators[0] if len(post.generators) == 1 else None
        okc = gen is not None and isinstance(gen.target, ast.Name) and norm(gen.iter) == F.all_ops and norm(post.elt) == gen.target.id and len(gen.ifs) == 1 and \
            A.dnf(gen.ifs[0], True, None) in ([frozenset({("empty(%s.exe_deps)" % gen.target.id, True)})], [frozenset({("empty(%s._exe_deps)" % gen.target.id, True)})])
        dn = [n for n in g.nodes if n.kind == "stmt" and isinstance(n.ast, (ast.Assign, ast.AnnAssign)) and n.ast.value is post]
        after_loop = bool(dn) and not any(id(dn[0].ast) == id(x) for x in ast.walk(w.loop)) and g.all_paths_pass(g.entry, dn[0], [w.header], skip_labels=skip)
        rep.check(okc and after_loop, "PL5", "initial_ops iff no exe_deps", post,
                  "initial_ops = the registered ops without dependencies, computed after the whole graph was linked",
                  "initial_ops is `%s`" % norm(post)[:100])
    elif len(init_apps) != 1:
        rep.bad("PL5", "initial_ops", w.loop, "expected exactly one append to the initial-operations list, found %d" % len(init_apps))
    else:
        ia = init_apps[0]
        after_link = outer_nodes[0]
        guards = A.path_guards(g, after_link, ia, fi)
        want = {("empty(%s.exe_deps)" % F.op_var, True)}
        alt = {("empty(%s._exe_deps)" % F.op_var, True)}
        ok_guard = len(guards) == 1 and (set(guards[0]) == want or set(guards[0]) == alt)
        dom = all(g.all_paths_pass(cn, ia, outer_nodes, skip_labels=skip) for (cn, _v, _c, _k) in F.constructions)
        arg_ok = norm(ia.ast.value.args[0]) == F.op_var
        rep.check(ok_guard and dom and arg_ok, "PL5", "initial_ops iff no exe_deps", ia.ast,
                  "initial_ops receives the op exactly under len(exe_deps)==0, after linking",
                  "guard is [%s] / linked-before=%s" % (" | ".join(fmt_conj(c) for c in guards), dom))
    return F


def rule_w1_planner(A: Analysis, rep, F: Optional[PlannerFacts] = None):
    """PL4 / W1 at the planner: a task is lowered by exactly one LoweringTask."""
    F = F or PlannerFacts(A)
    w = F.w
    memos = w.memos()
    if len(memos) != 1:
        rep.bad("W1", "planner", w.loop, "expected one visited-memo in the planner loop, found %s" % memos)
        return F
    memo = memos[0]
    A_ = A

    def effect(n: Node) -> bool:
        if n.kind not in ("stmt", "test"):
            return False
        st = n.ast
        # pushes, cached-task registration, the caching decision, the switch to the second visit
        for c in walk_local(st):
            if isinstance(c, ast.Call) and isinstance(c.func, ast.Attribute):
                if c.func.attr == "append" and norm(c.func.value) in (w.stack, F.cached):
                    return True
                if A_.res.is_call_to(c, "TaskType.should_run"):
                    return True
        if isinstance(st, ast.Assign) and any(isinstance(t, ast.Attribute) and t.attr == "state" for t in st.targets):
            return True
        return False

    ok = check_w1(A, rep, "W1", "planner create_plan_for", w, memo, effect)
    # second-visit effects: constructions are control dependent on state == SECOND_VISIT
    g = F.g
    pop = w.pop_node()
    for (cn, var, call, cls) in F.constructions:
        guards = A.path_guards(g, pop, cn, F.fi)
        okg = bool(guards) and all(second_visit_guarded(A, F, c) for c in guards)
        rep.check(okg, "W1", "second-visit gate %s" % cls.rsplit(".", 1)[1], cn.ast,
                  "operations are constructed only on the second visit",
                  "operation construction is not guarded by `%s.state == LoweringState.SECOND_VISIT`" % F.lt)
    return F


def rules_planner_counts(A: Analysis, rep, F: Optional[PlannerFacts] = None):
    """PL6 one op one count; PL7 cached xor lowered; PL8 task provenance."""
    F = F or PlannerFacts(A)
    g, w, fi = F.g, F.w, F.fi
    pop = w.pop_node()
    all_append = F.appends(F.all_ops)
    # PL6: exactly one construction and one increment per path that registers an op
    incs = [n for n in w.nodes() if n.kind == "stmt" and isinstance(n.ast, ast.AugAssign) and norm(n.ast.target) == F.num]
    inc_ok = all(isinstance(n.ast.op, ast.Add) and norm(n.ast.value) == "1" for n in incs)
    cons_nodes = [cn for (cn, _v, _c, _k) in F.constructions]
    # the total may also be taken from the finished list: num_tasks_to_run = len(all_ops), after the loop
    total_by_len = False
    if not incs:
        nv = A.single_def_value(fi, F.num)
        if nv is not None and norm(nv) == "len(%s)" % F.all_ops:
            dn = [n for n in g.nodes if n.kind == "stmt" and isinstance(n.ast, (ast.Assign, ast.AnnAssign)) and n.ast.value is nv]
            total_by_len = bool(dn) and not any(id(dn[0].ast) == id(x) for x in ast.walk(w.loop)) and g.all_paths_pass(g.entry, dn[0], [w.header], skip_labels=skip)
    for ap in all_append:
        paths_wo_cons = not g.all_paths_pass(pop, ap, cons_nodes, skip_labels=skip)
        two_cons = any(b in g.reach([m for (m, l) in a.succ if not skip(l)], skip_labels=skip) for a in cons_nodes for b in cons_nodes)
        rep.check(not paths_wo_cons and not two_cons, "PL6", "one-op-per-visit", ap.ast,
                  "every registration in all_ops is preceded by exactly one operation construction",
                  "a path registers an op %s" % ("without constructing one" if paths_wo_cons else "after two constructions"))
        # increments: every path from ap to back edge passes exactly one increment (or increment precedes)
        before = [n for n in incs if g.reachable(n, ap, skip_labels=skip)]
        after = [n for n in incs if g.reachable(ap, n, skip_labels=skip)]
        end_wo = w.reaches_backedge([m for (m, l) in ap.succ if not skip(l)], removed=after) if not before else None
        cnt_ok = total_by_len or (inc_ok and len(before) + len(after) == 1 and (before and g.all_paths_pass(pop, ap, before, skip_labels=skip) or (after and end_wo is None)))
        rep.check(bool(cnt_ok), "PL6", "one-count-per-op", ap.ast,
                  "num_tasks_to_run is incremented by exactly 1 for every registered op",
                  "progress total and executed operations disagree: %d increment site(s), +1 form=%s" % (len(incs), inc_ok))
    # all increments lie on registering paths
    for n in incs:
        okp = any(g.reachable(ap, n, skip_labels=skip) or g.reachable(n, ap, skip_labels=skip) for ap in all_append) and \
            all(g.all_paths_pass(pop, n, cons_nodes, skip_labels=skip) for _ in [0])
        rep.check(okp, "PL6", "count-only-ops", n.ast, "the counter is incremented only when an op was constructed",
                  "num_tasks_to_run is incremented on a path that constructs no operation")
    # the fall-through arm raises
    unsupported = [n for n in w.nodes() if n.kind == "stmt" and isinstance(n.ast, ast.Raise)]
    rep.check(any("NotImplementedError" in norm(n.ast) for n in unsupported), "PL6", "unsupported-type-raises", w.loop,
              "a task type without lowering raises instead of being dropped", "no raise for unsupported task types", deep=False)
    # main_task override for every constructed op class
    for (cn, var, call, cls) in F.constructions:
        m = A.prog.find_method(cls, "main_task")
        okm = m is not None and m.cls.fq != OPERATION and any(
            isinstance(r, ast.Return) and r.value is not None and norm(r.value) == "self._task" for r in walk_local(m.node))
        init = A.prog.find_method(cls, "__init__")
        stores = init is not None and any(isinstance(s, ast.Assign) and norm(s.targets[0]) == "self._task" and norm(s.value) == "task"
                                          for s in walk_local(init.node))
        passes = A.kw(call, "task") is not None and norm(A.kw(call, "task")) == "%s.task" % F.lt
        rep.check(bool(okm and stores and passes), "PL6", "main_task %s" % cls.rsplit(".", 1)[1], call,
                  "the op reports its task as main_task (progress numerator counts it)",
                  "main_task of %s does not return the lowered task" % cls.rsplit(".", 1)[1])
    rep.expect_min("PL6", 6)

    # PL7 cached xor lowered
    cached_apps = F.appends(F.cached)
    if len(cached_apps) != 1:
        rep.bad("PL7", "cached-site", w.loop, "expected one append to cached_tasks, found %d" % len(cached_apps))
    else:
        ca = cached_apps[0]
        guards = A.path_guards(g, pop, ca, fi)
        # strip the first-visit / not-seen atoms; what remains must be exactly {!run_again, !should_run(...)}
        core = [set(x) for x in {frozenset(a for a in c if not a[0].startswith("eq(LoweringState") and not a[0].startswith("in("))
                                 for c in guards}]
        sr = [a for c in core for a in c if "should_run(" in a[0]]
        okg = len(core) == 1 and len(core[0]) == 2 and ("t(run_again)", False) in core[0] and len(sr) == 1 and sr[0][1] is False
        # the should_run call takes the popped task and at_least_commit
        calls = A.calls_in(w.loop, "TaskType.should_run")
        okcall = len(calls) == 1 and norm(calls[0].func.value) == "%s.task" % F.lt and \
            [norm(a) for a in calls[0].args][-1:] == ["at_least_commit"]
        rep.check(okg and okcall, "PL7", "cached iff !again & !should_run", ca.ast,
                  "a task is reported cached exactly under `not run_again and not should_run(ctx, at_least_commit)`",
                  "cached-task guard is [%s]" % " | ".join(fmt_conj(c) for c in core))
        # after caching: no push, iteration ends
        r = w.iteration_reach([m for (m, l) in ca.succ if not skip(l)])
        pushes = [p for (p, _c) in w.pushes()]
        rep.check(not any(p in r for p in pushes) and norm(ca.ast.value.args[0]) == "%s.task" % F.lt, "PL7", "cached ⇒ not lowered", ca.ast,
                  "a cached task is neither re-pushed nor expanded", "a cached task is still pushed for lowering / wrong task recorded")
        # not cached: the second-visit push happens
        second_push = [p for (p, c) in w.pushes() if norm(c.args[0]) == F.lt]
        if len(second_push) != 1:
            rep.bad("PL7", "second-visit push", w.loop, "expected exactly one re-push of the popped lowering task")
        else:
            sp = second_push[0]
            gs = A.path_guards(g, pop, sp, fi)
            core2 = [set(x) for x in {frozenset(a for a in c if not a[0].startswith("eq(LoweringState") and not a[0].startswith("in("))
                                      for c in gs}]
            # complement of the cached guard: run_again or should_run
            want = [{("t(run_again)", True)}, {(sr[0][0], True)}] if sr else []
            ok2 = bool(sr) and sorted(map(sorted, core2)) == sorted(map(sorted, [{("t(run_again)", True)}, {("t(run_again)", False), (sr[0][0], True)}])) \
                or sorted(map(sorted, core2)) == sorted(map(sorted, want))
            rep.check(ok2, "PL7", "lowered iff again | should_run", sp.ast,
                      "every first-visited, non-cached task is pushed for its second visit",
                      "second-visit push guard is [%s]" % " | ".join(fmt_conj(c) for c in core2))
    rule_pl7_overriders(A, rep)

    # PL8 provenance of tasks
    bad = []
    for c in A.calls_in(fi.node, "TaskIndex.get_task"):
        arg = norm(c.args[0]) if c.args else ""
        ok = arg == fi.params[1] if len(fi.params) > 1 else False
        if not ok:
            # must be the loop variable of a loop over <something>.deps
            for anc in _ancestors(c):
                if isinstance(anc, ast.For) and isinstance(anc.target, ast.Name) and anc.target.id == arg and \
                        norm(anc.iter).replace("reversed(", "").rstrip(")").endswith(".task.deps"):
                    ok = True
                # … or the variable of a comprehension over <something>.deps
                if isinstance(anc, (ast.ListComp, ast.GeneratorExp, ast.SetComp, ast.DictComp)):
                    for gen_ in anc.generators:
                        if isinstance(gen_.target, ast.Name) and gen_.target.id == arg and \
                                norm(gen_.iter).replace("reversed(", "").rstrip(")").endswith(".task.deps"):
                            ok = True
        if not ok:
            bad.append(c)
    rep.check(not bad, "PL8", "task provenance", fi.node, "tasks come only from the requested id or a visited task's deps",
              "get_task(%s) obtains a task outside the closure" % (norm(bad[0].args[0]) if bad else ""))
    return F


def _ancestors(n):
    n = getattr(n, "_parent", None)
    while n is not None:
        yield n
        n = getattr(n, "_parent", None)


def rule_pl7_overriders(A: Analysis, rep):
    """Only experiments can be treated as cached: every other task type (commands, groups, combine) is
    re-executed in every invocation that needs it."""
    ov = [f.cls.fq.rsplit(".", 1)[1] for f in A.prog.overriders("conductor.task_types.base.TaskType", "should_run")]
    rep.check(sorted(ov) == ["RunExperiment", "TaskType"], "PL7", "should_run overriders", None,
              "only RunExperiment can be cached", "should_run is overridden by %s" % ov, deep=False)
    base_sr = A.prog.find_method("conductor.task_types.base.TaskType", "should_run")
    rets = [r for r in walk_local(base_sr.node) if isinstance(r, ast.Return)]
    rep.check(len(rets) == 1 and norm(rets[0].value) == "True", "PL7", "base should_run is True", base_sr.node,
              "non-experiment tasks always run", "TaskType.should_run does not return True", deep=False)


def rule_pl9_snapshot(A: Analysis, rep, F: Optional[PlannerFacts] = None):
    """PL9: dependency output paths are read only on the second visit, after
    the task's own new version was created."""
    F = F or PlannerFacts(A)
    g, w, fi = F.g, F.w, F.fi
    pop = w.pop_node()
    need = ("eq(LoweringState.SECOND_VISIT,%s.state)" % F.lt, True)
    sites = []
    for n in w.nodes():
        if n.kind in ("stmt", "test") and A.calls_in(n.ast, "TaskType.get_deps_output_paths", "TaskType.get_output_path"):
            sites.append(n)
    for n in sites:
        guards = A.path_guards(g, pop, n, fi)
        rep.check(bool(guards) and all(second_visit_guarded(A, F, c) for c in guards), "PL9", "snapshot on second visit", n.ast,
                  "output paths are resolved after all dependencies were lowered",
                  "dependency/own output path is read outside the second-visit branch")
    rep.expect_min("PL9", 4)
    # RunExperiment: create_new_version dominates its own get_output_path and deps paths
    for (cn, var, call, cls) in F.constructions:
        if A.kw(call, "version_to_record") is None:
            continue
        v = A.kw(call, "version_to_record")
        if isinstance(v, ast.Constant) and v.value is None:
            continue
        cv = [n for n in w.nodes() if n.kind == "stmt" and A.calls_in(n.ast, "RunExperiment.create_new_version")]
        # on the paths taken for an experiment (edges that imply "not a RunExperiment" removed) every path read passes the new version
        not_exp = A.edges_implying(g, fi, "t(isinstance(%s.task, RunExperiment))" % F.lt, False)
        r_wo = g.reach([pop], removed=cv, skip_labels=skip, removed_edges=not_exp)
        okd = bool(cv) and not any(s in r_wo for s in sites if g.reachable(s, cn, skip_labels=skip) or s is cn)
        # the recorded version is the result of that call (on those paths)
        rv = A.rvalues(fi, v, cn, g, start=pop, keep=lambda a: a.startswith("t(isinstance(%s.task, " % F.lt), depth=3, calls=True)
        exp_vals = {val for c, val in rv if ("t(isinstance(%s.task, RunExperiment))" % F.lt, False) not in c}
        src_ok = bool(exp_vals) and all(".create_new_version(" in val and val.endswith(")") for val in exp_vals)
        rep.check(okd and src_ok, "PL9", "new version before paths", cn.ast,
                  "the experiment's output path is computed from the version created for this execution",
                  "create_new_version does not precede the path computation, or version_to_record is not its result")
    return F
