"""C07 rules: RT3, RT4, DEP1, LIB1, LIB2 (task environment contract)."""
from __future__ import annotations

import ast
from typing import List, Optional

from ..analysis import Analysis, fmt_conj
from ..cfg import is_back, is_exc
from ..model import AnalysisError, NOFOLD, norm, walk_local
from .runtask import RTE, spawn_calls


def skip(l):
    return is_exc(l) or is_back(l)


def _fold_name(A, mod, e):
    v = A.prog.fold(mod, e)
    return v if v is not NOFOLD else None


def rule_rt3(A: Analysis, rep):
    fi, spawns = spawn_calls(A)
    if len(spawns) != 1:
        raise AnalysisError("RT3: expected one Popen")
    sp = spawns[0]
    mod = fi.module
    env = A.kw(sp, "env")
    d = A.expand(env, fi) if env is not None else None
    if not isinstance(d, ast.Dict):
        rep.bad("RT3", "environment dict", sp, "env= is not a dict literal built in start_execution (`%s`)" % (norm(env) if env is not None else "missing — the child would not get COND_* variables"))
        return
    keys = []
    for k, v in zip(d.keys, d.values):
        if k is None:
            keys.append(("**", norm(v)))
        else:
            keys.append((_fold_name(A, mod, k), norm(v)))
    names = [k for k, _ in keys]
    pos_env = names.index("**") if "**" in names else -1
    ok_inherit = pos_env >= 0 and keys[pos_env][1] == "os.environ"
    cond_keys = [i for i, k in enumerate(names) if isinstance(k, str) and k.startswith("COND_")]
    ok_order = ok_inherit and all(i > pos_env for i in cond_keys) and names.count("**") == 1
    rep.check(ok_order, "RT3", "os.environ first, Conductor keys override", sp,
              "{**os.environ, COND_*: ...}: the caller's environment is inherited and cannot override the contract",
              "environment dict order is %s — an inherited COND_* value would override Conductor's" % names)
    want = {"COND_OUT": "str(self._output_path)", "COND_NAME": "self._identifier.name"}
    got = {k: v for k, v in keys if isinstance(k, str)}
    for k, v in want.items():
        rep.check(got.get(k) == v, "RT3", "%s value" % k, sp, "%s = %s" % (k, v), "%s is set to `%s` (expected `%s`)" % (k, got.get(k), v))
    dv = got.get("COND_DEPS")
    sep = A.prog.fold_fq("conductor.config.DEPS_ENV_PATH_SEPARATOR")
    from ..analysis import canon
    try:
        dv_c = norm(canon(ast.parse(dv, mode="eval").body)) if dv else None
    except SyntaxError:
        dv_c = None
    # map(str, X), [str(p) for p in X] and (str(p) for p in X) are one canonical generator
    ok = dv_c == norm(canon(ast.parse("DEPS_ENV_PATH_SEPARATOR.join(map(str, self._deps_output_paths))", mode="eval").body)) and sep == ":"
    rep.check(ok, "RT3", "COND_DEPS value", sp, "':'.join(str(p) for p in deps_output_paths), in order", "COND_DEPS is `%s` with separator %r" % (dv, sep))
    for c, want_v in (("OUTPUT_ENV_VARIABLE_NAME", "COND_OUT"), ("DEPS_ENV_VARIABLE_NAME", "COND_DEPS"), ("TASK_NAME_ENV_VARIABLE_NAME", "COND_NAME")):
        v = A.prog.fold_fq("conductor.config." + c)
        rep.check(v == want_v, "RT3", "documented name %s" % want_v, None, "", "%s folds to %r" % (c, v), deep=False)
    # later modifications of the dict: only the slot variable
    var = env.id if isinstance(env, ast.Name) else None
    if var:
        mods = []
        for n in walk_local(fi.node):
            if isinstance(n, ast.Assign) and isinstance(n.targets[0], ast.Subscript) and norm(n.targets[0].value) == var:
                mods.append(_fold_name(A, mod, n.targets[0].slice))
            elif isinstance(n, ast.Call) and isinstance(n.func, ast.Attribute) and norm(n.func.value) == var and n.func.attr in ("update", "pop", "clear", "setdefault"):
                mods.append("." + n.func.attr)
            elif isinstance(n, ast.Delete) and any(isinstance(t, ast.Subscript) and norm(t.value) == var for t in n.targets):
                mods.append("del")
        rep.check(mods == ["COND_SLOT"], "RT3", "no later tampering", fi.node, "only COND_SLOT is added afterwards", "the environment dict is modified afterwards: %s" % mods)
    # field provenance
    init = A.fn(RTE + "__init__")
    st = {norm(s.targets[0]): norm(s.value) for s in walk_local(init.node) if isinstance(s, ast.Assign) and isinstance(s.targets[0], ast.Attribute)}
    for f, p in (("self._identifier", "identifier"), ("self._output_path", "output_path"), ("self._deps_output_paths", "deps_output_paths"), ("self._working_path", "working_path")):
        rep.check(st.get(f) == p, "RT3", "field %s" % f, init.node, "", "%s is assigned `%s`" % (f, st.get(f)), deep=False)
    rep.expect_min("RT3", 10)


def rule_rt4(A: Analysis, rep):
    fi, spawns = spawn_calls(A)
    sp = spawns[0]
    kws = {k.arg: norm(k.value) for k in sp.keywords if k.arg}
    rep.check(kws.get("executable") == "'/bin/bash'" and kws.get("shell") == "True", "RT4", "runs under bash", sp, "", "Popen(executable=%s, shell=%s)" % (kws.get("executable"), kws.get("shell")))
    rep.check(kws.get("cwd") == "self._working_path", "RT4", "cwd = the task's COND directory", sp, "", "Popen(cwd=%s)" % kws.get("cwd"))
    rep.check(len(sp.args) == 1 and norm(sp.args[0]) in ("[self._run]", "self._run"), "RT4", "command = the assembled run string", sp, "", "Popen command is `%s`" % (norm(sp.args[0]) if sp.args else "?"))
    rep.check(kws.get("start_new_session") == "True", "RT4", "own session / process group", sp, "the task is a process-group leader (killpg reaches its children)",
              "Popen(start_new_session=%s): SIGTERM to the group would not reach the task's children" % kws.get("start_new_session"))
    init = A.fn(RTE + "__init__")
    st = {norm(s.targets[0]): s.value for s in walk_local(init.node) if isinstance(s, ast.Assign) and isinstance(s.targets[0], ast.Attribute)}
    run_v = A.expand(st["self._run"], init, stop=init.params) if "self._run" in st else None
    # `' '.join([run, <args>.serialize_cmdline(), <options>.serialize_cmdline()])` — list or tuple, parts through locals;
    # the fields and the constructor parameters they were set from are the same objects
    parts = None
    if isinstance(run_v, ast.Call) and norm(run_v.func) == "' '.join" and len(run_v.args) == 1 and isinstance(run_v.args[0], (ast.List, ast.Tuple)):
        alias = {"self._args": "args", "self._options": "options"}
        parts = [norm(x) for x in run_v.args[0].elts]
        parts = [p_.replace("self._args.", "args.").replace("self._options.", "options.") if all(k in st and norm(st[k]) == v for k, v in alias.items()) else p_ for p_ in parts]
    st = {k: norm(v) for k, v in st.items()}
    rep.check(parts == ["run", "args.serialize_cmdline()", "options.serialize_cmdline()"] and st.get("self._args") == "args" and st.get("self._options") == "options",
              "RT4", "run, then args, then options", init.node, "", "the command line is assembled as `%s`" % st.get("self._run"))
    # serialisers
    sa = A.fn("utils.run_arguments.RunArguments.serialize_cmdline")
    ok = _serializer_ok(A, sa, "self._args", None)
    rep.check(ok, "RT4", "args serialised in order, bool before str", sa.node, "", "RunArguments.serialize_cmdline changed (order / bool handling / joining)")
    so = A.fn("utils.run_options.RunOptions.serialize_cmdline")
    ok = _serializer_ok(A, so, "self._options.items()", "EXP_OPTION_CMD_FORMAT")
    fmt = A.prog.fold_fq("conductor.config.EXP_OPTION_CMD_FORMAT")
    rep.check(ok and fmt == "--{key}={value}", "RT4", "options serialised as --key=value in order", so.node, "", "RunOptions.serialize_cmdline changed (format %r)" % (fmt,))
    # planner hands the task's own values to the op
    from .planner import PlannerFacts
    F = PlannerFacts(A)
    n = 0
    for (cn, var, call, cls) in F.constructions:
        if not cls.endswith("RunTaskExecutable"):
            continue
        n += 1
        t = "%s.task" % F.lt
        want = {"identifier": t + ".identifier", "task": t, "run": t + ".raw_run", "args": t + ".args", "options": t + ".options",
                "working_path": t + ".get_working_path(self._ctx)", "deps_output_paths": t + ".get_deps_output_paths(self._ctx)"}
        got = {k: A.xtext(v, F.fi, stop=[F.lt]) for k, v in A.kwmap(call).items()}
        diff = {k: got.get(k) for k, v in want.items() if got.get(k) != v}
        op = A.kw(call, "output_path")
        opv = A.xtext(op, F.fi) if op is not None else None
        if isinstance(op, ast.Name):
            pd = A.preceding_def(cn.ast, op.id)
            opv = A.xtext(pd, F.fi, stop=[F.lt]) if pd is not None else opv
        ok_out = opv == t + ".get_output_path(self._ctx)"
        rep.check(not diff and ok_out, "RT4", "planner passes the task's own run/args/options/paths", call, "", "RunTaskExecutable constructed with %s, output_path=%s" % (diff, opv))
    gw = A.fn("task_types.base.TaskType.get_working_path")
    r = [x for x in walk_local(gw.node) if isinstance(x, ast.Return)]
    from ..analysis import pathparts
    rep.check(len(r) == 1 and pathparts(A.expand(r[0].value, gw, stop=[gw.params[1]])) == ["%s.project_root" % gw.params[1], "self._identifier.path"] and
              len(A.prog.overriders("conductor.task_types.base.TaskType", "get_working_path")) == 1, "RT4", "working directory = directory of the task's COND file", gw.node,
              "project_root / identifier.path", "get_working_path is `%s`" % (norm(r[0].value) if r else "?"))
    rs = A.fn("task_types.run._RunSubprocess.__init__")
    st = {norm(s.targets[0]): A.xtext(s.value, rs, stop=rs.params) for s in walk_local(rs.node) if isinstance(s, ast.Assign) and isinstance(s.targets[0], ast.Attribute)}
    rep.check(st.get("self._args") == "RunArguments.from_raw(identifier, args)" and st.get("self._options") == "RunOptions.from_raw(identifier, options)" and st.get("self._raw_run") == "run",
              "RT4", "task keeps declared run/args/options", rs.node, "", "_RunSubprocess.__init__ stores %s" % {k: st.get(k) for k in ("self._args", "self._options", "self._raw_run")})
    for prop, field in (("raw_run", "_raw_run"), ("args", "_args"), ("options", "_options")):
        pf = A.fn("task_types.run._RunSubprocess." + prop)
        r = [x for x in walk_local(pf.node) if isinstance(x, ast.Return)]
        rep.check(len(r) == 1 and norm(r[0].value) == "self." + field, "RT4", "getter %s" % prop, pf.node, "", "getter changed", deep=False)
    rep.expect_min("RT4", 10)


def _renderings(A, x: ast.expr, fi, val: str):
    """Conditional renderings of a value expression: IfExp split; a call to a repo function of the
    value alone is replaced by that function's conditional return values."""
    from ..analysis import _split_ifexp, canon
    out = []
    if isinstance(x, ast.Call) and len(x.args) == 1 and not x.keywords and norm(x.args[0]) == val:
        cs = [c for c in A.res.callees(x) if c in A.prog.functions]
        if len(cs) == 1:
            f2 = A.prog.functions[cs[0]]
            if len(f2.params) == 1:
                return [(c, v) for c, v in A.ret_values(f2, bind={f2.params[0]: val})]
    for (gs, v) in _split_ifexp(A, x, fi):
        for c in gs:
            out.append((c, norm(canon(v))))
    return out


def _serializer_ok(A, fi, iter_text, fmt_const) -> bool:
    """The serialiser renders every element of `iter_text`, in order, as
    'true'/'false' for bools (tested before anything else) and str(value) otherwise, joined by ' '."""
    from ..analysis import _and_all, _simplify
    g = A.cfg(fi, "plain")
    rets = [x for x in walk_local(fi.node) if isinstance(x, ast.Return)]
    if len(rets) != 1 or not (isinstance(rets[0].value, ast.Call) and norm(rets[0].value.func) == "' '.join" and len(rets[0].value.args) == 1):
        return False
    src = rets[0].value.args[0]
    elems = []  # (guard, element expr, value var, key var)
    comp = src if isinstance(src, (ast.ListComp, ast.GeneratorExp)) else None
    if comp is None and isinstance(src, ast.Name):
        v = A.single_def_value(fi, src.id)
        if isinstance(v, (ast.ListComp, ast.GeneratorExp)):
            comp = v
    if comp is not None:
        if len(comp.generators) != 1 or comp.generators[0].ifs or norm(comp.generators[0].iter) != iter_text:
            return False
        tgt = comp.generators[0].target
        elems.append((frozenset(), comp.elt, tgt, None))
    else:
        if not isinstance(src, ast.Name):
            return False
        lst = src.id
        init = A.single_def_value(fi, lst)
        loops = [l for l in fi.node.body if isinstance(l, ast.For) and norm(l.iter) == iter_text]
        if len(loops) != 1 or init is None or norm(init) != "[]":
            return False
        l = loops[0]
        if any(isinstance(x, (ast.Break, ast.Continue, ast.Return)) for x in walk_local(l)):
            return False
        hdr = [n for n in g.nodes if n.kind == "for" and n.ast is l][0]
        be = [x for (x, lb) in hdr.succ if lb == "T"][0]
        apps = [n for n in g.nodes if n.kind == "stmt" and norm(n.ast).startswith("%s.append(" % lst) and id(n.ast) in {id(x) for x in ast.walk(l)}]
        # every iteration appends exactly once
        r = g.reach([be], removed=apps, skip_labels=is_exc)
        if any(any(m is hdr and is_back(lb) for m, lb in n.succ) for n in r):
            return False
        for a in apps:
            for c in A.path_guards(g, be, a, fi):
                elems.append((c, a.ast.value.args[0], l.target, (a, be)))
    got = set()
    for (gd, el, tgt, site) in elems:
        if fmt_const is None:
            val = norm(tgt)
            x = el
        else:
            if not (isinstance(tgt, ast.Tuple) and len(tgt.elts) == 2):
                return False
            key, val = norm(tgt.elts[0]), norm(tgt.elts[1])
            if not (isinstance(el, ast.Call) and norm(el.func) == "%s.format" % fmt_const and not el.args):
                return False
            kw = {k.arg: k.value for k in el.keywords}
            if set(kw) != {"key", "value"} or norm(kw["key"]) != key:
                return False
            x = kw["value"]
        alts = [(frozenset(), x)]
        if isinstance(x, ast.Name) and x.id != val and site is not None:
            # the rendered text held in a local that the branches of the iteration assign: its reaching values
            alts = []
            for (c0, vt) in A.rvalues(fi, x, site[0].ast, g, start=site[1], depth=2, calls=True):
                try:
                    pe = ast.parse(vt, mode="eval").body
                except SyntaxError:
                    return False
                for sub_ in ast.walk(pe):
                    sub_._module = fi.module  # type: ignore[attr-defined]
                    sub_._func = fi  # type: ignore[attr-defined]
                alts.append((c0, pe))
            gd = frozenset()       # the path condition is carried by the reaching values
        for (c0, x_) in alts:
          for (c, v) in _renderings(A, x_, fi, val):
            cc = frozenset(gd | c | c0)
            got.add((frozenset(a for a in cc if a[0] in ("t(isinstance(%s, bool))" % val, "t(%s)" % val)), v))
    # merge: drop subsumed alternatives
    want = {(frozenset({("t(isinstance(%s, bool))" % val, True), ("t(%s)" % val, True)}), "'true'"),
            (frozenset({("t(isinstance(%s, bool))" % val, True), ("t(%s)" % val, False)}), "'false'"),
            (frozenset({("t(isinstance(%s, bool))" % val, False)}), "str(%s)" % val)}
    return got == want


def rule_dep1(A: Analysis, rep):
    fi = A.fn("task_types.base.TaskType.get_deps_output_paths")
    ctx = fi.params[1]
    loops = [l for l in fi.node.body if isinstance(l, ast.For)]
    ok = False
    det = "no loop over self.deps"
    if len(loops) == 1 and norm(loops[0].iter) in ("self.deps", "self._deps"):
        l = loops[0]
        g = A.cfg(fi, "plain")
        hdr = [n for n in g.nodes if n.kind == "for" and n.ast is l][0]
        be = [x for (x, lb) in hdr.succ if lb == "T"][0]
        apps = [n for n in g.nodes if n.kind == "stmt" and isinstance(n.ast, ast.Expr) and isinstance(n.ast.value, ast.Call) and isinstance(n.ast.value.func, ast.Attribute)
                and n.ast.value.func.attr == "append" and id(n.ast) in {id(x) for x in ast.walk(l)}]
        if len(apps) == 1:
            lst = norm(apps[0].ast.value.func.value)
            pv = norm(apps[0].ast.value.args[0])
            gs = A.path_guards(g, be, apps[0], fi)
            src = A.single_def_value(fi, pv)
            ok = gs == [frozenset({("none(%s)" % pv, False)})] and src is not None and \
                A.xtext(src, fi, stop=[norm(l.target), ctx]) == "%s.task_index.get_task(%s).get_output_path(%s)" % (ctx, norm(l.target), ctx)
            rets = [x for x in walk_local(fi.node) if isinstance(x, ast.Return)]
            ok = ok and len(rets) == 1 and norm(rets[0].value) == lst
            det = "append guard [%s], source `%s`" % (" | ".join(fmt_conj(c) for c in gs), norm(src) if src is not None else "?")
    rep.check(ok, "DEP1", "dependency paths in declared order, skipping only None", fi.node,
              "iterates self.deps in order, appends each dependency's get_output_path(ctx) unless it is None", det)
    dp = A.fn("task_types.base.TaskType.deps")
    r = [x for x in walk_local(dp.node) if isinstance(x, ast.Return)]
    rep.check(len(r) == 1 and norm(r[0].value) == "self._deps", "DEP1", "deps getter", dp.node, "", "deps getter changed", deep=False)
    bi = A.fn("task_types.base.TaskType.__init__")
    st = [s for s in walk_local(bi.node) if isinstance(s, ast.Assign) and norm(s.targets[0]) == "self._deps"]
    rep.check(len(st) == 1 and norm(st[0].value) in ("tuple(deps)", "list(deps)", "deps"), "DEP1", "deps stored in listing order", bi.node, "", "TaskType stores deps as `%s`" % (norm(st[0].value) if st else "?"))
    mt = A.fn("parsing.task_index.TaskIndex._materialize_raw_task")
    from .graphs import raw_deps_loops
    loops = raw_deps_loops(A, mt)
    ok = False
    if len(loops) == 1:
        g = A.cfg(mt, "plain")
        hdr = [n for n in g.nodes if n.kind == "for" and n.ast is loops[0]][0]
        be = [x for (x, lb) in hdr.succ if lb == "T"][0]
        apps = [n for n in g.nodes if n.kind == "stmt" and norm(n.ast).startswith("task_deps.append(") and id(n.ast) in {id(x) for x in ast.walk(loops[0])}]
        # every iteration that does not raise appends exactly once
        r = g.reach([be], removed=apps, skip_labels=is_exc)
        ends = [n for n in r if any(m is hdr and is_back(lb) for m, lb in n.succ)]
        ok = len(apps) == 1 and not ends and norm(apps[0].ast.value.args[0]) == "dep_identifier"
        call = [c for c in walk_local(mt.node) if isinstance(c, ast.Call) and A.res.is_call_to(c, "TaskType.from_raw_task")]
        ok = ok and len(call) == 1 and norm(call[0].args[2]) == "task_deps"
    rep.check(ok, "DEP1", "materialisation keeps listing order", mt.node, "every listed dependency is appended once, in order", "_materialize_raw_task no longer appends every listed dependency in order")
    rep.expect_min("DEP1", 4)


def rule_lib(A: Analysis, rep):
    m = A.prog.module("lib.path")
    for c in ("DEPS_ENV_VARIABLE_NAME", "DEPS_ENV_PATH_SEPARATOR", "OUTPUT_ENV_VARIABLE_NAME"):
        rep.check(m.imports.get(c) == "conductor.config." + c, "LIB2", "reader uses the writer's constant %s" % c, m.tree, "", "lib/path.py does not import %s from conductor.config" % c, deep=False)
    gd = A.fn("lib.path.get_deps_paths")
    g = A.cfg(gd, "plain")
    splits = [c for c in walk_local(gd.node) if isinstance(c, ast.Call) and isinstance(c.func, ast.Attribute) and c.func.attr == "split"]
    ok = False
    det = "no split of COND_DEPS"
    if len(splits) == 1 and len(splits[0].args) == 1 and norm(splits[0].args[0]) == "DEPS_ENV_PATH_SEPARATOR":
        sp = splits[0]
        s_txt = norm(sp.func.value)
        src = A.xtext(sp.func.value, gd)
        src_ok = src == "os.environ[DEPS_ENV_VARIABLE_NAME]"
        # (a) a dominating `return []` under empty(<the string>)
        from_guard = False
        spn = g.node_of(_stmt_of(sp))
        gs = A.path_guards(g, g.entry, spn, gd)
        if gs and all(("empty(%s)" % s_txt, False) in c or ("eq('',%s)" % s_txt, False) in c or ("t(%s)" % s_txt, True) in c for c in gs):
            # and the empty branch returns []
            rets = [n for n in g.nodes if n.kind == "stmt" and isinstance(n.ast, ast.Return) and norm(n.ast.value) in ("[]", "list()")]
            for r in rets:
                gr = A.path_guards(g, g.entry, r, gd)
                if gr and all(("empty(%s)" % s_txt, True) in c or ("eq('',%s)" % s_txt, True) in c or ("t(%s)" % s_txt, False) in c for c in gr):
                    from_guard = True
        # (b) filtered split
        par = sp._parent
        filtered = isinstance(par, ast.Call) and norm(par.func) == "filter" and norm(par.args[0]) in ("None", "bool", "len")
        if isinstance(par, ast.comprehension) and par.ifs:
            filtered = True
        ok = src_ok and (from_guard or filtered)
        det = "source `%s`, empty-string guard=%s, filtered=%s — ''.split(':') is [''] so the empty list would come back as [Path('.')]" % (src, from_guard, filtered)
        # path mapping in order
        rets = [n for n in g.nodes if n.kind == "stmt" and isinstance(n.ast, ast.Return) and sp in list(ast.walk(n.ast))]
        from ..analysis import canon
        import copy as _copy
        want_map = norm(canon(ast.parse("[pathlib.Path(p) for p in %s]" % norm(sp), mode="eval").body))
        got_map = norm(canon(_copy.deepcopy(rets[0].ast.value))) if len(rets) == 1 else ""
        # list(<genexp>) and [<genexp>] are the same list
        ok_map = got_map in (want_map, "list(%s)" % want_map) and isinstance(rets[0].ast.value, (ast.ListComp, ast.Call))
        if not filtered:
            rep.check(ok_map, "LIB1", "paths in listed order", gd.node, "", "get_deps_paths does not map the split parts to paths in order")
    rep.check(ok, "LIB1", "get_deps_paths empty", gd.node, "writer maps the empty list to '' and the reader maps '' back to []", det, key="LIB1|get_deps_paths empty")
    go = A.fn("lib.path.get_output_path")
    r = [x for x in walk_local(go.node) if isinstance(x, ast.Return)]
    rep.check(len(r) == 1 and A.xtext(r[0].value, go) == "pathlib.Path(os.environ[OUTPUT_ENV_VARIABLE_NAME])", "LIB2", "get_output_path = COND_OUT", go.node, "", "get_output_path returns `%s`" % (norm(r[0].value) if r else "?"))
    io = A.fn("lib.path.in_output_dir")
    g = A.cfg(io, "plain")
    rets = [n for n in g.nodes if n.kind == "stmt" and isinstance(n.ast, ast.Return) and norm(n.ast.value) == "get_output_path() / %s" % io.params[0]]
    ok = len(rets) == 1 and A.path_guards(g, g.entry, rets[0], io) == [frozenset({("in(OUTPUT_ENV_VARIABLE_NAME,os.environ)", True)})]
    rep.check(ok, "LIB2", "in_output_dir = COND_OUT / p", io.node, "", "in_output_dir no longer returns get_output_path() / file_path when COND_OUT is set")
    rep.expect_min("LIB2", 5)


def _stmt_of(node):
    n = node
    while not isinstance(n, ast.stmt):
        n = n._parent
    return n
