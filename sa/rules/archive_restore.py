"""Archive / restore rules: RS1–RS4, AR1, AR2, NAME1, W1(traverse)."""
from __future__ import annotations

import ast
from typing import List, Optional

from ..analysis import Analysis, fmt_conj
from ..cfg import branch_of, is_back, is_exc
from ..model import AnalysisError, norm, walk_local
from .worklist import check_w1, find_worklists


def skip(l):
    return is_exc(l) or is_back(l)


def _stmt_of(node):
    n = node
    while not isinstance(n, ast.stmt):
        n = n._parent
    return n


def _anc(n):
    n = getattr(n, "_parent", None)
    while n is not None:
        yield n
        n = getattr(n, "_parent", None)


def _is_project_index(A, fi, e) -> bool:
    if isinstance(e, ast.Attribute) and e.attr == "version_index":
        bt = A.res.type_of(e.value, fi)
        return bt is not None and bt[0] == "conductor.context.Context"
    return False


class RestoreFacts:
    def __init__(self, A: Analysis):
        self.fi = A.fn("cli.restore.main")
        self.g = A.cfg(self.fi, "sync")
        g, fi = self.g, self.fi
        self.copy = [n for n in g.nodes if n.kind == "stmt" and any(
            _is_project_index(A, fi, A.kw(c, "dest") or (c.args[0] if c.args else None)) for c in A.calls_in(n.ast, "VersionIndex.copy_entries_to"))]
        self.commit = [n for n in g.nodes if n.kind == "stmt" and any(_is_project_index(A, fi, c.func.value) for c in A.calls_in(n.ast, "VersionIndex.commit_changes"))]
        self.rollback = [n for n in g.nodes if n.kind == "stmt" and any(_is_project_index(A, fi, c.func.value) for c in A.calls_in(n.ast, "VersionIndex.rollback_changes"))]
        self.copytree = [n for n in g.nodes if n.kind == "stmt" and any(isinstance(c, ast.Call) and norm(c.func) == "shutil.copytree" for c in walk_local(n.ast))]
        self.loops = [l for l in walk_local(fi.node) if isinstance(l, ast.For) and any(
            isinstance(c, ast.Call) and norm(c.func) == "shutil.copytree" for c in walk_local(l))]


def rule_rs1(A: Analysis, rep, F: Optional[RestoreFacts] = None):
    F = F or RestoreFacts(A)
    g, fi = F.g, F.fi
    if len(F.copy) != 1 or len(F.commit) != 1 or len(F.loops) != 1 or not F.rollback:
        rep.bad("RS1", "restore structure", fi.node, "expected one project-index load, one commit, one copy loop and a rollback (found %d/%d/%d/%d)" % (
            len(F.copy), len(F.commit), len(F.loops), len(F.rollback)))
        return F
    cp, cm, loop = F.copy[0], F.commit[0], F.loops[0]
    hdr = [n for n in g.nodes if n.kind == "for" and n.ast is loop][0]
    # every index write is inside a try with a catch-all handler that rolls back and re-raises
    ok = False
    for anc in _anc(cp.ast):
        if isinstance(anc, ast.Try) and id(cp.ast) in {id(x) for b in anc.body for x in ast.walk(b)}:
            for h in anc.handlers:
                if h.type is None or norm(h.type) == "BaseException":
                    hn = [n for n in g.nodes if n.kind == "except" and n.ast is h][0]
                    first = h.body[0] if h.body else None
                    rb_first = first is not None and any(n.ast is first for n in F.rollback)
                    reraises = not g.reachable(hn, g.exit, skip_labels=None, removed=[]) or all(
                        isinstance(x.ast, ast.Raise) for x in g.nodes if x.kind == "stmt" and x.ast in h.body and isinstance(x.ast, ast.Raise))
                    falls_through = g.exit in g.reach([hn], skip_labels=is_exc)
                    ok = rb_first and any(isinstance(x, ast.Raise) and x.exc is None for x in h.body) and not falls_through
    rep.check(ok, "RS3", "catch-all handler rolls back first and re-raises", cp.ast,
              "a bare `except:` around the whole body calls rollback_changes() before anything else and re-raises",
              "the index load is not protected by a catch-all handler that rolls back first and re-raises")
    # all exceptional exits after the index write pass the rollback
    rep.check(g.all_paths_pass(cp, g.raise_exit, F.rollback + [cm], skip_labels=None), "RS1", "every failing exit rolls back", cp.ast,
              "every path from the index load to an exceptional exit passes rollback_changes()", "an exceptional exit after the index load skips the rollback")
    # commit only after the copy loop is exhausted
    wo = g.reach([g.entry], removed_edges=[(hdr, "F")])
    rep.check(cm not in wo and g.all_paths_pass(g.entry, cm, [cp], skip_labels=None), "RS1", "commit after all copies", cm.ast,
              "the project-index commit is reachable only after the copy loop has finished", "commit_changes() can run before every directory was copied and verified")
    rep.check(g.all_paths_pass(cp, g.exit, [cm], skip_labels=None), "RS4", "success ⇒ committed", fi.node, "every normal return commits the loaded rows",
              "restore can report success without committing the index")
    # nothing reachable from copy_entries_to / bulk_load commits
    reach = A.cg.reachable(["conductor.execution.version_index.VersionIndex.copy_entries_to", "conductor.execution.version_index.VersionIndex.bulk_load"])
    bad = [f for f in reach if f.endswith("commit_changes") or f == "sqlite3.Connection.commit"]
    raw = []
    for f in reach:
        fi2 = A.prog.functions.get(f)
        if fi2 is not None:
            raw += [c for c in walk_local(fi2.node) if isinstance(c, ast.Call) and isinstance(c.func, ast.Attribute) and c.func.attr == "commit"]
            for wn in walk_local(fi2.node):
                if isinstance(wn, ast.With):
                    for it in wn.items:
                        bt = A.res.type_of(it.context_expr, fi2)
                        if bt is not None and bt[0] == "sqlite3.Connection":
                            raw.append(it.context_expr)  # `with conn:` commits on exit
    rep.check(not bad and not raw, "RS1", "loading does not commit", None, "nothing reachable from copy_entries_to/bulk_load commits",
              "the index load commits by itself (%s) — rows become durable before the directories exist" % (bad or [norm(r) for r in raw]))
    # loop: iterates all archive versions; verifies source, copies, verifies destination
    it = A.xtext(loop.iter, fi)
    src_idx = None
    for c in A.calls_in(cp.ast, "VersionIndex.copy_entries_to"):
        src_idx = norm(c.func.value)
        full = (A.kw(c, "tasks") is not None and norm(A.kw(c, "tasks")) == "None" and A.kw(c, "latest_only") is not None and norm(A.kw(c, "latest_only")) == "False")
        rep.check(full, "RS4", "whole archive index is loaded", c, "tasks=None, latest_only=False", "restore loads only part of the archive index")
    rep.check(norm(loop.iter) == "%s.get_all_versions()" % src_idx and not any(isinstance(x, (ast.Break, ast.Continue)) for x in walk_local(loop)), "RS4", "every loaded row gets its directory", loop,
              "the copy loop iterates the same archive index, without skipping", "the copy loop does not iterate every version of the archive index (`%s`)" % norm(loop.iter))
    ct = F.copytree[0]
    call = [c for c in walk_local(ct.ast) if isinstance(c, ast.Call) and norm(c.func) == "shutil.copytree"][0]
    src, dst = norm(call.args[0]), norm(call.args[1])
    body_entry = [x for (x, l) in hdr.succ if l == "T"][0]
    gs = A.path_guards(g, body_entry, ct, fi)
    rep.check(bool(gs) and all(("t(%s.is_dir())" % src, True) in c for c in gs), "RS4", "source directory verified", ct.ast, "", "a missing archived directory is not detected before copying")
    # every row's directory is copied by *this* restore: no path through an iteration avoids the copy (a pre-existing
    # directory — e.g. the torso left by an interrupted restore — must make copytree fail, never be adopted as the version's data)
    rep.check(g.all_paths_pass(body_entry, hdr, [ct], skip_labels=is_exc), "RS4", "every row's directory is copied in this transaction", ct.ast,
              "each iteration reaches the next row only through copytree(src, dest)",
              "an iteration can reach the next row / the commit without copying the version's directory (an existing, possibly incomplete directory would be recorded as the version)")
    # after copytree: dest verified before the iteration ends
    after = [n for n in g.nodes if n.kind == "test" and norm(n.ast) in ("not %s.is_dir()" % dst, "%s.is_dir()" % dst)]
    ok = bool(after) and all(g.all_paths_pass(ct, hdr, after, skip_labels=is_exc) for _ in [0])
    rep.check(ok, "RS4", "destination verified", ct.ast, "", "the copied directory is not verified before the next row / the commit")
    # IntegrityError -> DuplicateTaskOutput
    hs = [h for h in walk_local(fi.node) if isinstance(h, ast.ExceptHandler) and h.type is not None and "IntegrityError" in norm(h.type)]
    ok = len(hs) == 1 and any(isinstance(x, ast.Raise) and x.exc is not None and "DuplicateTaskOutput" in norm(x.exc) for x in hs[0].body)
    rep.check(ok, "RS3", "duplicate version ⇒ DuplicateTaskOutput", fi.node, "", "an already recorded version is not reported as DuplicateTaskOutput")
    # finally removes only the staging directory
    fin = [t for t in walk_local(fi.node) if isinstance(t, ast.Try) and t.finalbody]
    ok = False
    if fin:
        calls = [c for s in fin[-1].finalbody for c in walk_local(s) if isinstance(c, ast.Call)]
        ok = all(norm(c.func) == "shutil.rmtree" and A.xtext(c.args[0], fi).endswith(".output_path / ARCHIVE_STAGING") for c in calls) and len(calls) == 1
    rep.check(ok, "RS3", "finally removes only the staging directory", fi.node, "", "the finally block does more than removing the staging directory")
    # archive validity checks
    raises = [n for n in g.nodes if n.kind == "stmt" and isinstance(n.ast, ast.Raise) and n.ast.exc is not None and "ArchiveFileInvalid" in norm(n.ast.exc)]
    rep.check(len(raises) >= 4, "RS4", "invalid archives are rejected", fi.node, "missing file / index / directory all raise ArchiveFileInvalid",
              "only %d ArchiveFileInvalid checks remain (file, index, source dir, destination dir expected)" % len(raises), deep=False)
    ea = A.fn("cli.restore.extract_archive")
    ok = tar_failure_checked(A, ea)
    rep.check(ok, "RS4", "tar failure is an error", ea.node, "", "a failing tar extraction is not reported")
    xo = tar_extra_options(A, ea, "xzf")
    rep.check(xo == [], "RS4", "tar extracts every member as stored", ea.node, "tar xzf <archive> -C <staging>, no other option",
              "the tar extraction is given %s: members can be left out or altered" % (xo if xo is not None else "a command line that is not a list display"))
    rep.expect_min("RS1", 3)
    rep.expect_min("RS4", 7)
    return F


def rule_rs2(A: Analysis, rep, F: Optional[RestoreFacts] = None):
    F = F or RestoreFacts(A)
    g, fi = F.g, F.fi
    for ct in F.copytree:
        call = [c for c in walk_local(ct.ast) if isinstance(c, ast.Call) and norm(c.func) == "shutil.copytree"][0]
        deo = A.kw(call, "dirs_exist_ok")
        rep.check(deo is None or (isinstance(deo, ast.Constant) and deo.value is False), "RS2", "copytree refuses an existing destination", call,
                  "no dirs_exist_ok=True", "copytree(dirs_exist_ok=%s) would write into an existing version directory" % (norm(deo) if deo is not None else ""))
        dst = norm(call.args[1])
        dv = A.single_def_value(fi, dst)
        # no delete of the destination in the loop
        loop = F.loops[0] if F.loops else None
        dels = []
        if loop is not None:
            for c in walk_local(loop):
                if isinstance(c, ast.Call) and (norm(c.func) in ("shutil.rmtree", "os.remove", "os.unlink", "shutil.move") or
                                                (isinstance(c.func, ast.Attribute) and c.func.attr in ("unlink", "rmdir", "rename", "replace"))):
                    dels.append(c)
        rep.check(not dels, "RS2", "no delete/replace before the copy", call, "", "the restore loop deletes or replaces something: %s" % [norm(d)[:50] for d in dels])
    rep.expect_min("RS2", 2)
    return F


def flatten_stars(e):
    """`["tar", *["czf", x], *names]` → `["tar", "czf", x, *names]`: a starred list/tuple display inside a display is spliced in."""
    if not isinstance(e, (ast.List, ast.Tuple)):
        return e
    out = []
    for x in e.elts:
        if isinstance(x, ast.Starred) and isinstance(x.value, (ast.List, ast.Tuple)) and x.value.elts:   # an empty display is a list filled later: kept starred
            inner = flatten_stars(x.value)
            out.extend(inner.elts)
        else:
            out.append(x)
    return ast.copy_location(type(e)(elts=out, ctx=ast.Load()), e)


def tar_extra_options(A: Analysis, fi, mode: str) -> Optional[List[str]]:
    """The elements of the tar command line that are neither the program, the mode word, `-C`, nor a `str(path)` /
    starred list of member names: every such element is an option that changes *which* members are packed or how they
    are stored (`--exclude`, `--newer`, `--transform`, `-h`, …).  None when the command line is not a list display."""
    pops = [c for c in walk_local(fi.node) if isinstance(c, ast.Call) and norm(c.func) in ("subprocess.Popen", "subprocess.run", "subprocess.check_call")]
    if len(pops) != 1 or not pops[0].args:
        return None
    argv = flatten_stars(A.expand(pops[0].args[0], fi))
    if not isinstance(argv, (ast.List, ast.Tuple)):
        return None
    extra = []
    for i, x in enumerate(argv.elts):
        t = norm(x)
        if i == 0 and t == "'tar'":
            continue
        if i == 1 and isinstance(x, ast.Constant) and isinstance(x.value, str) and sorted(x.value.lstrip("-")) == sorted(mode):
            continue
        if t == "'-C'":
            continue
        inner = x.value if isinstance(x, ast.Starred) else x
        lits = [c.value for c in ast.walk(inner) if isinstance(c, ast.Constant) and isinstance(c.value, str)]
        if any(l.startswith("-") for l in lits):
            extra.append(t)
            continue
        if isinstance(x, ast.Constant):
            extra.append(t)      # a bare literal word that is not the program / mode / -C
    return extra


def tar_failure_checked(A: Analysis, fi) -> bool:
    """After the tar child was waited for, a non-zero exit status leads to a raise on every path
    (`p.wait(); if p.returncode != 0: raise` / `rc = p.wait(); if rc: raise` / `if p.wait() != 0: raise`)."""
    g = A.cfg(fi, "plain")
    pops = [n for n in g.nodes if n.kind == "stmt" and isinstance(n.ast, ast.Assign) and isinstance(n.ast.value, ast.Call) and norm(n.ast.value.func) == "subprocess.Popen"
            and isinstance(n.ast.targets[0], ast.Name)]
    if len(pops) != 1:
        return False
    pv = pops[0].ast.targets[0].id
    waits = [n for n in g.nodes if n.kind in ("stmt", "test") and n.ast is not None and
             any(isinstance(c, ast.Call) and norm(c.func) == "%s.wait" % pv for c in ast.walk(n.ast))]
    if len(waits) != 1:
        return False
    w = waits[0]
    status = ["%s.returncode" % pv, "%s.wait()" % pv]
    if w.kind == "stmt" and isinstance(w.ast, ast.Assign) and isinstance(w.ast.targets[0], ast.Name):
        status.append(w.ast.targets[0].id)
    # … or a local that holds the status
    for n in g.nodes:
        if n.kind == "stmt" and isinstance(n.ast, (ast.Assign, ast.AnnAssign)) and n.ast.value is not None and norm(n.ast.value) in status[:2]:
            tg_ = n.ast.targets[0] if isinstance(n.ast, ast.Assign) else n.ast.target
            if isinstance(tg_, ast.Name) and tg_.id not in status:
                status.append(tg_.id)
    ok_edges = [e for st in status for a in ("eq(0,%s)" % st,) for e in A.edges_implying(g, fi, a, True)] + \
               [e for st in status for e in A.edges_implying(g, fi, "t(%s)" % st, False)]
    if not ok_edges:
        return False
    # every normal path from the wait to the function's normal exit takes a "status is zero" edge
    start = [w] if w.kind == "test" else [m for (m, l) in w.succ if not is_exc(l)]
    r = g.reach(start, skip_labels=is_exc, removed_edges=ok_edges)
    tested_after = all(g.reachable(w, t, skip_labels=is_exc) or t is w for (t, _l) in ok_edges)
    return g.exit not in r and tested_after and g.dominates(pops[0], w, skip_labels=is_exc)


def rule_name1(A: Analysis, rep):
    """Every producer/consumer of a version directory path uses the same helper."""
    sites = []
    for f in A.prog.scan_functions:
        if f.fq.startswith(("conductor.envs", "conductor.explorer")):
            continue
        for c in walk_local(f.node):
            if isinstance(c, ast.Call) and A.res.is_call_to(c, "conductor.filename.task_output_dir"):
                sites.append((f, c))
    by_fn = {}
    for f, c in sites:
        by_fn.setdefault(f.fq.replace("conductor.", ""), []).append(c)
    want_fns = {"cli.archive.create_archive", "cli.restore.main", "task_types.run.RunExperiment.get_output_path", "task_types.base.TaskType.__init__"}
    rep.check(set(by_fn) == want_fns, "NAME1", "users of task_output_dir", None, "%s" % sorted(want_fns),
              "task_output_dir is used in %s (confirmed: %s)" % (sorted(by_fn), sorted(want_fns)))
    # every path to a version directory is built as Path(<root>, task_id.path, task_output_dir(task_id, version))
    def version_paths(fq):
        """Component lists of the paths that name a version directory, however they are put together
        (`Path(a, b, c)`, `a / b / c`, through a local for the common tail)."""
        fi_ = A.fn(fq)
        STOP = ["task_id", "version", "staging_path", "ctx"]

        def comps(e, depth=0):
            if depth > 6:
                return [norm(e)]
            if isinstance(e, ast.Call) and norm(e.func) in ("pathlib.Path", "Path", "pathlib.PurePath") and e.args:
                return [c_ for a_ in e.args for c_ in comps(a_, depth + 1)]
            if isinstance(e, ast.BinOp) and isinstance(e.op, ast.Div):
                return comps(e.left, depth + 1) + comps(e.right, depth + 1)
            if isinstance(e, ast.Name) and e.id not in STOP:
                v_ = A.single_def_value(fi_, e.id)
                if v_ is not None and (isinstance(v_, ast.BinOp) or (isinstance(v_, ast.Call) and norm(v_.func) in ("pathlib.Path", "Path", "pathlib.PurePath"))):
                    return comps(v_, depth + 1)
            return [A.xtext(e, fi_, stop=STOP)]
        out = []
        for c in walk_local(fi_.node):
            if (isinstance(c, ast.Call) and norm(c.func) in ("pathlib.Path", "Path") and len(c.args) >= 2) or (isinstance(c, ast.BinOp) and isinstance(c.op, ast.Div)):
                par = getattr(c, "_parent", None)
                if isinstance(par, ast.BinOp) and isinstance(par.op, ast.Div):
                    continue   # only maximal `/` chains
                tx = comps(c)
                if any("task_output_dir(" in t for t in tx):
                    out.append((c, tx))
        # a path that is only the common tail of longer ones (`relative = Path(task.path, dirname)`) is not a path of its own
        full = [(c, tx) for (c, tx) in out if not any(tx != ty and len(ty) > len(tx) and ty[-len(tx):] == tx for (_d, ty) in out)]
        return full
    ap = version_paths("cli.archive.create_archive")
    rep.check(len(ap) == 1 and ap[0][1] == ["task_id.path", "f.task_output_dir(task_id, version)"], "NAME1", "archive member path", ap[0][0] if ap else None,
              "", "archive member paths are %s" % [t for _c, t in ap])
    rp = version_paths("cli.restore.main")
    want_r = sorted([["staging_path", "task_id.path", "f.task_output_dir(task_id, version)"], ["ctx.output_path", "task_id.path", "f.task_output_dir(task_id, version)"]])
    rep.check(sorted(t for _c, t in rp) == want_r, "NAME1", "restore paths (staging source and project destination)", rp[0][0] if rp else None, "", "restore builds %s" % sorted(t for _c, t in rp))
    ca = A.fn("cli.archive.create_archive")
    comp = [x for x in walk_local(ca.node) if isinstance(x, ast.ListComp)]
    ok = len(comp) == 1 and len(comp[0].generators) == 1 and norm(comp[0].generators[0].iter) == "%s.get_all_versions()" % ca.params[1] and not comp[0].generators[0].ifs
    if not comp:
        # explicit loop form: for ... in archive_index.get_all_versions(): <list>.append(...) unconditionally
        loops = [l for l in walk_local(ca.node) if isinstance(l, ast.For) and norm(l.iter) == "%s.get_all_versions()" % ca.params[1]]
        if len(loops) == 1 and not any(isinstance(x, (ast.If, ast.Break, ast.Continue, ast.Try)) for x in walk_local(loops[0])):
            apps = [x for x in loops[0].body if isinstance(x, ast.Expr) and isinstance(x.value, ast.Call) and isinstance(x.value.func, ast.Attribute) and x.value.func.attr == "append"]
            ok = len(apps) == 1
    rep.check(ok, "NAME1", "archive packs every row of the archive index", ca.node, "", "the tar member list is not built from every version in the archive index")
    pops = [c for c in walk_local(ca.node) if isinstance(c, ast.Call) and norm(c.func) == "subprocess.Popen"]
    ok = False
    argv = flatten_stars(A.expand(pops[0].args[0], ca)) if len(pops) == 1 and pops[0].args else None
    if isinstance(argv, ast.List):
        el = [norm(x) for x in argv.elts]
        ok = el[:2] == ["'tar'", "'czf'"] and "'-C'" in el and el[el.index("'-C'") + 1] == "str(%s.output_path)" % ca.params[0] and \
            "str(%s.relative_to(%s.output_path))" % (ca.params[3], ca.params[0]) in el and el[-1].startswith("*")
    rep.check(ok, "NAME1", "tar packs the index and the directories relative to cond-out", ca.node, "", "the tar command line changed")
    ok = tar_failure_checked(A, ca)
    rep.check(ok, "NAME1", "tar failure is an error", ca.node, "", "a failing tar is not reported")
    xo = tar_extra_options(A, ca, "czf")
    rep.check(xo == [], "NAME1", "tar packs every file of every listed directory", ca.node, "tar czf <archive> -C <cond-out> <index> <dirs…>, no other option",
              "tar is given %s: files inside the archived version directories can be left out or altered" % (xo if xo is not None else "a command line that is not a list display"))
    rep.expect_min("NAME1", 6)


def rule_ar5(A: Analysis, rep):
    """cond archive deletes the output file only if this invocation may have created it: the refusal to overwrite an
    existing file (OutputFileExists) is decided before — outside — the try block whose handler unlinks the output path.
    Otherwise a refused (or otherwise failed) archive removes the file that was already there: an earlier archive, or a
    file inside a task output."""
    fi = A.fn("cli.archive.main")
    tries = [t for t in walk_local(fi.node) if isinstance(t, ast.Try) and any(
        isinstance(c, ast.Call) and isinstance(c.func, ast.Attribute) and c.func.attr == "unlink" and "output" in norm(c.func.value) and "index" not in norm(c.func.value)
        for h in t.handlers for b in h.body for c in ast.walk(b))]
    raisers = {f.fq for f in A.prog.scan_functions if any(isinstance(r, ast.Raise) and r.exc is not None and "OutputFileExists" in norm(r.exc) for r in walk_local(f.node))}
    if len(tries) != 1 or not raisers:
        raise AnalysisError("AR5: anchors not found (try with unlink handler=%d, functions raising OutputFileExists=%d)" % (len(tries), len(raisers)))
    t = tries[0]
    body_nodes = [x for b in t.body for x in ast.walk(b)]
    inside = set()
    if any(isinstance(r, ast.Raise) and r.exc is not None and "OutputFileExists" in norm(r.exc) for r in body_nodes):
        inside.add(fi.fq)
    reach = A.cg.reachable_from_nodes(list(t.body), fi)
    inside |= (reach & raisers)
    rep.check(not inside, "AR5", "an existing output file is refused before the clean-up handler is armed", t,
              "OutputFileExists is raised outside the try whose handler unlinks the output path",
              "%s can raise OutputFileExists inside the try block whose handler unlinks the output path: the file that already existed is deleted" % sorted(x.replace("conductor.", "") for x in inside))
    # and the refusal still exists on the way to the try
    before = A.cg.reachable([fi.fq]) & raisers
    rep.check(bool(before), "AR5", "overwriting an existing file is refused", fi.node, "", "cond archive no longer refuses to overwrite an existing file", deep=False)


def rule_ar1(A: Analysis, rep):
    fi = A.fn("cli.archive.main")
    g = A.cfg(fi, "plain")
    cps = [n for n in g.nodes if n.kind == "stmt" and A.calls_in(n.ast, "VersionIndex.copy_entries_to")]
    cms = [n for n in g.nodes if n.kind == "stmt" and A.calls_in(n.ast, "VersionIndex.commit_changes")]
    cas = [n for n in g.nodes if n.kind == "stmt" and A.calls_in(n.ast, "conductor.cli.archive.create_archive")]
    if not (len(cps) == 1 and len(cms) == 1 and len(cas) == 1):
        rep.bad("AR1", "archive order", fi.node, "expected one copy_entries_to, one commit_changes and one create_archive (found %d/%d/%d)" % (len(cps), len(cms), len(cas)))
        return
    cp, cm, ca = cps[0], cms[0], cas[0]
    c = A.calls_in(cp.ast, "VersionIndex.copy_entries_to")[0]
    dest = A.kw(c, "dest")
    idx = norm(dest) if dest is not None else "?"
    ok = _is_project_index(A, fi, c.func.value) and norm(A.calls_in(cm.ast, "VersionIndex.commit_changes")[0].func.value) == idx
    cac = A.calls_in(ca.ast, "conductor.cli.archive.create_archive")[0]
    ok = ok and len(cac.args) >= 2 and norm(cac.args[1]) == idx
    rep.check(ok, "AR1", "same archive index throughout", fi.node, "rows go from the project index into the archive index that is committed and packed",
              "copy/commit/pack do not use the same archive index object")
    rep.check(g.all_paths_pass(g.entry, ca, [cm], skip_labels=skip) and g.all_paths_pass(g.entry, cm, [cp], skip_labels=skip), "AR1", "copy ≺ commit ≺ tar", fi.node,
              "the archive index is committed before tar packs it", "tar can pack an archive index whose rows were not committed")
    tasks, latest = A.kw(c, "tasks"), A.kw(c, "latest_only")
    tx = A.expand(tasks, fi) if tasks is not None else None
    ok = latest is not None and norm(latest) == "args.latest" and isinstance(tx, ast.Call) and norm(tx.func) == "compute_tasks_to_archive" and \
        len(tx.args) == 2 and norm(tx.args[1]) == "args.task_identifier"
    rep.check(ok, "AR1", "selection flags reach the copy", c, "tasks = closure of the named task (or None), latest_only = --latest",
              "copy_entries_to(tasks=%s, latest_only=%s)" % (norm(tasks) if tasks is not None else "?", norm(latest) if latest is not None else "?"))
    # AR3: the archive index starts EMPTY: create_or_load() *loads* an existing file, so a file left behind by a
    # killed `cond archive` must be removed before it is (re)created
    col = [n for n in g.nodes if n.kind == "stmt" and isinstance(n.ast, ast.Assign) and norm(n.ast.targets[0]) == idx and
           any(isinstance(x, ast.Call) and A.res.is_call_to(x, "VersionIndex.create_or_load") for x in walk_local(n.ast))]
    ok3 = False
    det3 = "archive index is not created by VersionIndex.create_or_load(<path>)"
    if len(col) == 1:
        call_ = [x for x in walk_local(col[0].ast) if isinstance(x, ast.Call) and A.res.is_call_to(x, "VersionIndex.create_or_load")][0]
        pth = norm(call_.args[0]) if call_.args else "?"
        def _is_del(x):
            if not isinstance(x, ast.Call):
                return False
            if isinstance(x.func, ast.Attribute) and x.func.attr == "unlink" and norm(x.func.value) == pth:
                return True
            return norm(x.func) in ("os.remove", "os.unlink") and x.args and norm(x.args[0]) in (pth, "str(%s)" % pth)
        unl = [n for n in g.nodes if n.kind in ("stmt", "with") and n.ast is not None and any(_is_del(x) for x in walk_local(n.ast))]
        # "the file does not exist" edges of an existence test on the same path count as well
        absent = [e for a in ("t(%s.exists())" % pth, "t(%s.is_file())" % pth, "t(os.path.exists(%s))" % pth) for e in A.edges_implying(g, fi, a, False)]
        unl = [u for u in unl if not g.reachable(col[0], u, skip_labels=skip)]
        r = g.reach([g.entry], removed=unl, skip_labels=skip, removed_edges=absent)
        ok3 = bool(unl) and col[0] not in r
        det3 = ("`%s` is loaded by create_or_load() without having been removed first: rows left in a stale archive index (a killed `cond archive`) "
                "would be archived too" % pth)
    rep.check(ok3, "AR3", "the archive index starts empty", fi.node, "the index file is unlinked before create_or_load()", det3)
    # zero rows -> error
    cnt = norm(_stmt_of(c).targets[0]) if isinstance(_stmt_of(c), ast.Assign) else None
    ok = cnt is not None and any(isinstance(i, ast.If) and norm(i.test) == "%s == 0" % cnt and any(isinstance(x, ast.Raise) for x in i.body) for i in walk_local(fi.node))
    rep.check(ok, "AR1", "nothing to archive ⇒ error", fi.node, "", "an empty selection is not reported")
    # archive index path differs from the project index
    a, b = A.prog.fold_fq("conductor.config.ARCHIVE_VERSION_INDEX"), A.prog.fold_fq("conductor.config.VERSION_INDEX_NAME")
    rep.check(isinstance(a, str) and isinstance(b, str) and a != b, "AR2", "archive index ≠ project index file", None, "", "ARCHIVE_VERSION_INDEX == VERSION_INDEX_NAME (%r)" % (a,), deep=False)
    # destructive calls in archive.main touch only the archive index file and the output archive
    from .fs import fs_mutations
    for (fq, kind, call) in fs_mutations(A):
        if fq != fi.fq:
            continue
        tgt = A.xtext(call.func.value, fi) if kind.startswith("Path.") else norm(call)
        ok = "ARCHIVE_VERSION_INDEX" in tgt or "handle_output_path(" in tgt
        rep.check(ok, "AR2", "archive deletes only its own files", call, "", "`%s` in cond archive touches `%s`" % (kind, tgt[:80]))
    # compute_tasks_to_archive: archivable tasks of the closure
    ct = A.fn("cli.archive.compute_tasks_to_archive")
    tr = [c for c in walk_local(ct.node) if isinstance(c, ast.Call) and A.res.is_call_to(c, "TaskType.traverse")]
    ok = False
    if len(tr) == 1 and len(tr[0].args) >= 2 and isinstance(tr[0].args[1], ast.Name):
        vis = ct.nested.get(tr[0].args[1].id)
        # the list that is returned (besides the early `return None` for "no task named")
        rnames = {norm(r.value) for r in walk_local(ct.node) if isinstance(r, ast.Return) and r.value is not None and norm(r.value) != "None"}
        if vis is not None and len(rnames) == 1:
            res = rnames.pop()
            t = vis.params[0]
            gv = A.cfg(vis, "plain")
            apps = [n for n in gv.nodes if n.kind == "stmt" and isinstance(n.ast, ast.Expr) and isinstance(n.ast.value, ast.Call) and
                    isinstance(n.ast.value.func, ast.Attribute) and norm(n.ast.value.func.value) == res and n.ast.value.func.attr in ("append", "add")]
            init = A.single_def_value(ct, res)
            ok = len(apps) == 1 and norm(apps[0].ast.value.args[0]) == "%s.identifier" % t and \
                A.path_guards(gv, gv.entry, apps[0], vis) == [frozenset({("t(%s.archivable)" % t, True)})] and init is not None and norm(init) in ("[]", "list()")
            # the traversal starts at the named task
            recv = A.xtext(tr[0].func.value, ct, stop=[n_.id for n_ in ast.walk(ct.node) if isinstance(n_, ast.Name) and isinstance(n_.ctx, ast.Store) and "from_str" in norm(getattr(n_, "_parent", n_))])
            ltc = [c for c in walk_local(ct.node) if isinstance(c, ast.Call) and A.res.is_call_to(c, "TaskIndex.load_transitive_closure")]
            ok = ok and len(ltc) == 1 and ltc[0].args and recv.endswith(".task_index.get_task(%s)" % norm(ltc[0].args[0]))
    # second spelling: every visited task is collected (`traverse(ctx, L.append)`) and the archivable ones are selected
    # afterwards (`[t.identifier for t in L if t.archivable]`)
    if not ok and len(tr) == 1 and len(tr[0].args) >= 2 and isinstance(tr[0].args[1], ast.Attribute) and tr[0].args[1].attr == "append" and isinstance(tr[0].args[1].value, ast.Name):
        lst = tr[0].args[1].value.id
        rv_ = [r.value for r in walk_local(ct.node) if isinstance(r, ast.Return) and r.value is not None and norm(r.value) != "None"]
        init = A.single_def_value(ct, lst)
        if len(rv_) == 1 and isinstance(rv_[0], ast.ListComp) and len(rv_[0].generators) == 1 and init is not None and norm(init) in ("[]", "list()"):
            gen = rv_[0].generators[0]
            t = norm(gen.target)
            only_app = [c for c in walk_local(ct.node) if isinstance(c, ast.Attribute) and isinstance(c.value, ast.Name) and c.value.id == lst]
            ok = norm(gen.iter) == lst and norm(rv_[0].elt) == "%s.identifier" % t and [norm(i) for i in gen.ifs] == ["%s.archivable" % t] and len(only_app) == 1
            recv = A.xtext(tr[0].func.value, ct, stop=[n_.id for n_ in ast.walk(ct.node) if isinstance(n_, ast.Name) and isinstance(n_.ctx, ast.Store) and "from_str" in norm(getattr(n_, "_parent", n_))])
            ltc = [c for c in walk_local(ct.node) if isinstance(c, ast.Call) and A.res.is_call_to(c, "TaskIndex.load_transitive_closure")]
            ok = ok and len(ltc) == 1 and ltc[0].args and recv.endswith(".task_index.get_task(%s)" % norm(ltc[0].args[0]))
    ok = ok and any(isinstance(c, ast.Call) and A.res.is_call_to(c, "TaskIndex.load_transitive_closure") for c in walk_local(ct.node))
    rep.check(ok, "AR1", "named task ⇒ archivable tasks of its closure", ct.node, "", "compute_tasks_to_archive no longer collects exactly the archivable tasks of the closure")
    ov = sorted(f.cls.name for f in A.prog.overriders("conductor.task_types.base.TaskType", "archivable"))
    rep.check(ov == ["RunExperiment", "TaskType"], "AR1", "only experiments are archivable", None, "", "archivable is defined by %s" % ov, deep=False)
    rep.expect_min("AR1", 6)


def rule_w1_traverse(A: Analysis, rep):
    fi = A.fn("task_types.base.TaskType.traverse")
    wls = find_worklists(A, fi)
    if len(wls) != 1:
        raise AnalysisError("traverse: worklist loop not found")
    w = wls[0]
    memos = w.memos()
    if len(memos) != 1:
        rep.bad("W1", "TaskType.traverse", w.loop, "expected one visited-memo, found %s" % memos, key="W1|TaskType.traverse")
        return
    visitor = fi.params[2]

    def effect(n):
        if n.kind != "stmt":
            return False
        for c in walk_local(n.ast):
            if isinstance(c, ast.Call) and isinstance(c.func, ast.Name) and c.func.id == visitor:
                return True
        return False
    check_w1(A, rep, "W1", "TaskType.traverse", w, memos[0], effect)
    # successors pushed: all of task.deps of the visited task
    srcs = w.push_sources()
    memo = memos[0]
    ok = len(srcs) == 1 and srcs[0][1].endswith(".deps") and all(f in ("%s not in %s" % (srcs[0][0], memo), "not in(%s,%s)" % (srcs[0][0], memo)) for f in srcs[0][2])
    rep.check(ok, "W1", "traverse follows every dependency", w.loop, "", "traverse does not push every dependency of the visited task (only already-visited ones may be skipped): %s" % srcs)
    init = A.single_def_value(fi, w.stack)
    rep.check(init is not None and norm(init) == "[self.identifier]", "W1", "traverse starts at the task itself", fi.node, "", "traverse's stack is initialised with `%s`" % (norm(init) if init is not None else "?"), deep=False)
