"""Filesystem rules: DEL1 (destructive inventory), RT6 (fresh directory),
GC1–GC4 (gc), CWD1–CWD4 (cwd independence)."""
from __future__ import annotations

import ast
from typing import Dict, List, Optional, Set, Tuple

from ..analysis import Analysis, fmt_conj
from ..cfg import branch_of, is_back, is_exc
from ..model import AnalysisError, NOFOLD, norm, walk_local

CORE_EXCLUDE = ("conductor.envs", "conductor.explorer", "conductor.cli.explorer")

_MUT_FUNCS = {"shutil.rmtree", "shutil.copytree", "shutil.copy2", "shutil.copy", "shutil.copyfile", "shutil.move",
              "os.remove", "os.unlink", "os.rmdir", "os.rename", "os.replace", "os.symlink", "os.makedirs", "os.mkdir", "os.removedirs",
              "os.truncate", "os.link"}
_MUT_METHODS = {"unlink", "rmdir", "rename", "replace", "symlink_to", "mkdir", "touch", "write_text", "write_bytes", "hardlink_to", "link_to"}


def skip(l):
    return is_exc(l) or is_back(l)


def _stmt_of(node):
    n = node
    while not isinstance(n, ast.stmt):
        n = n._parent
    return n


def fs_mutations(A: Analysis) -> List[Tuple[str, str, ast.Call]]:
    """(function fq, kind, call) for every filesystem-mutating call site of the core package."""
    out = []
    for f in A.prog.scan_functions:
        if f.fq.startswith(CORE_EXCLUDE):
            continue
        for c in walk_local(f.node):
            if not isinstance(c, ast.Call):
                continue
            fx = norm(c.func)
            if fx in _MUT_FUNCS:
                out.append((f.fq, fx, c))
            elif isinstance(c.func, ast.Attribute) and c.func.attr in _MUT_METHODS:
                bt = A.res.type_of(c.func.value, f)
                if bt is None or bt[0] == "pathlib.Path":
                    out.append((f.fq, "Path." + c.func.attr, c))
            elif fx == "open":
                mode = c.args[1] if len(c.args) > 1 else A.kw(c, "mode")
                if mode is not None and isinstance(mode, ast.Constant) and isinstance(mode.value, str) and set(mode.value) & set("wax+"):
                    out.append((f.fq, "open(%s)" % mode.value, c))
                elif mode is not None and not isinstance(mode, ast.Constant):
                    out.append((f.fq, "open(?)", c))
    return out


# frozen inventory: (function, kind) -> (count, path class / reason)
DEL1_TABLE: Dict[Tuple[str, str], Tuple[int, str]] = {
    ("conductor.cli.clean.main", "shutil.rmtree"): (1, "whole cond-out: `cond clean` (the documented exception)"),
    ("conductor.cli.gc.main", "shutil.rmtree"): (1, "entries of to_delete only (GC1)"),
    ("conductor.cli.restore.main", "shutil.rmtree"): (1, "the staging directory cond-out/archive-tmp"),
    ("conductor.cli.restore.main", "shutil.copytree"): (1, "new version directory; refuses an existing destination (RS2)"),
    ("conductor.cli.restore.main", "Path.mkdir"): (2, "staging dir; parent of a restored version dir"),
    ("conductor.cli.archive.main", "Path.unlink"): (3, "archive index file (twice) and the output archive on failure"),
    ("conductor.context.Context._ensure_output_dir_exists", "Path.mkdir"): (1, "cond-out itself"),
    ("conductor.execution.version_index.VersionIndex.create_or_load", "Path.mkdir"): (1, "parent of the index file"),
    ("conductor.execution.version_index.VersionIndex._run_v1_to_v2_migration", "shutil.copy2"): (1, "backup copy of the index"),
    ("conductor.execution.ops.run_task_executable.RunTaskExecutable.start_execution", "Path.mkdir"): (1, "the op's own output directory (RT6)"),
    ("conductor.execution.ops.combine_outputs.CombineOutputs.start_execution", "Path.mkdir"): (1, "the combine task's own directory"),
    ("conductor.execution.ops.combine_outputs.CombineOutputs.start_execution", "Path.unlink"): (1, "an existing symlink entry only (CB1)"),
    ("conductor.execution.ops.combine_outputs.CombineOutputs.start_execution", "Path.symlink_to"): (1, "entry inside the combine directory"),
    ("conductor.utils.output_handler.OutputHandler.popen_arg", "open(wb)"): (1, "stdout.log/stderr.log of the running op"),
    ("conductor.utils.tee.TeeProcessor._tee_pipe_run", "open(wb)"): (1, "stdout.log/stderr.log of the running op"),
    ("conductor.utils.run_arguments.RunArguments.serialize_json", "open(w)"): (1, "args.json of the finishing op"),
    ("conductor.utils.run_options.RunOptions.serialize_json", "open(w)"): (1, "options.json of the finishing op"),
    ("conductor.execution.ops.transfer_repo.TransferRepo.start_execution", "Path.mkdir"): (1, "never instantiated (remote envs)"),
    ("conductor.execution.ops.transfer_repo.TransferRepo.start_execution", "Path.unlink"): (1, "never instantiated (remote envs); a bundle file"),
}


def rule_del1(A: Analysis, rep):
    got: Dict[Tuple[str, str], List[ast.Call]] = {}
    for (fq, kind, c) in fs_mutations(A):
        got.setdefault((fq, kind), []).append(c)
    for key, calls in sorted(got.items()):
        want = DEL1_TABLE.get(key)
        if want is None:
            for c in calls:
                rep.bad("DEL1", "new filesystem-mutating site %s in %s" % (key[1], key[0].replace("conductor.", "")), c,
                        "`%s` is not in the confirmed inventory of destructive/creating calls" % norm(c)[:100], key="DEL1|%s|%s" % key)
        else:
            rep.check(len(calls) <= want[0], "DEL1", "%s in %s" % (key[1], key[0].replace("conductor.", "")), calls[0],
                      "%d site(s): %s" % (len(calls), want[1]), "%d site(s) where %d were confirmed (%s)" % (len(calls), want[0], want[1]), deep=False)
    rep.expect_min("DEL1", 14)


# --------------------------------------------------------------------------- RT6
def rule_rt6(A: Analysis, rep):
    fi = A.fn("execution.ops.run_task_executable.RunTaskExecutable.start_execution")
    mk = [c for c in walk_local(fi.node) if isinstance(c, ast.Call) and isinstance(c.func, ast.Attribute) and c.func.attr == "mkdir"
          and norm(c.func.value) == "self._output_path"]
    if len(mk) != 1:
        rep.bad("RT6", "fresh directory", fi.node, "expected exactly one mkdir of the op's output directory, found %d" % len(mk), key="RT6|fresh directory")
        return
    c = mk[0]
    eo = A.kw(c, "exist_ok")
    ok = False
    det = ""
    if eo is None or (isinstance(eo, ast.Constant) and eo.value is False):
        ok, det = True, "exist_ok is absent/False"
    elif isinstance(eo, ast.Constant) and eo.value is True:
        # accepted only with a dominating existence test that raises for versioned ops
        det = "mkdir(exist_ok=True) for every op: a recorded version could start in a directory left by an earlier failed execution"
    else:
        d = A.dnf(eo, True, fi, inline=True)
        ok = d == [frozenset({("none(self._version_to_record)", True)})] or d == [frozenset({("t(self._record_output)", False)})]
        det = "exist_ok is `%s`" % norm(eo)
    rep.check(ok, "RT6", "fresh directory", c, "a versioned op must create its output directory itself (%s)" % det, det, key="RT6|fresh directory")
    # mkdir precedes the spawn (RT5)
    g = A.cfg(fi, "plain")
    sp = [n for n in g.nodes if n.kind == "stmt" and A.calls_in(n.ast, "subprocess.Popen")]
    mkn = g.node_of(_stmt_of(c))
    rep.check(bool(sp) and all(g.all_paths_pass(g.entry, s, [mkn], skip_labels=skip) for s in sp), "RT5", "mkdir dominates spawn", c,
              "COND_OUT exists when the command starts", "the process can be spawned before its output directory exists")
    # FileExistsError is an OSError -> TaskFailed (RT7) — the failure is reported, not silently reused
    # version_to_record field comes from the constructor keyword
    init = A.fn("execution.ops.run_task_executable.RunTaskExecutable.__init__")
    st = [s for s in walk_local(init.node) if isinstance(s, ast.Assign) and norm(s.targets[0]) == "self._version_to_record"]
    rep.check(len(st) == 1 and norm(st[0].value) == "version_to_record", "RT6", "version field", init.node, "", "_version_to_record is not the constructor argument", deep=False)
    # the generator skips directories that already exist (so a fresh run succeeds)
    cnv = A.fn("task_types.run.RunExperiment.create_new_version")   # its private helper, if any, is inlined
    loops = [l for l in walk_local(cnv.node) if isinstance(l, ast.While) and A.calls_in(l, "VersionIndex.generate_new_output_version")]
    ok = False
    det = "no retry loop around generate_new_output_version"
    if len(loops) == 1:
        l = loops[0]
        cont = None
        table_ok = None
        if isinstance(l.test, ast.Constant) and l.test.value is True:
            # `while True`: classify every way an iteration ends (break = leave, continue / end of body = repeat) by its
            # path condition, and compare the table with "repeat iff the directory exists"
            gl = A.cfg(cnv, "plain")
            hd = [n for n in gl.nodes if n.kind == "test" and getattr(n, "info", None) is l]
            inside = {id(x) for x in ast.walk(l)}
            if hd:
                be_ = [m for (m, lb) in hd[0].succ if branch_of(lb) == "T" or lb == "T"]
                pairs_ = []
                for n in gl.nodes:
                    if n.ast is None or id(n.ast) not in inside:
                        continue
                    if n.kind == "stmt" and isinstance(n.ast, ast.Break):
                        pairs_ += [(c, "leave") for c in A.path_guards(gl, be_[0], n, cnv, xstop=[])]
                    elif n.kind == "stmt" and any(m is hd[0] and is_back(lb) for m, lb in n.succ):
                        pairs_ += [(c, "repeat") for c in A.path_guards(gl, be_[0], n, cnv, xstop=[])]
                    elif n.kind == "test" and any(m is hd[0] and is_back(lb) for m, lb in n.succ):
                        for (m, lb) in n.succ:
                            if m is hd[0] and is_back(lb):
                                for c in A.path_guards(gl, be_[0], n, cnv, xstop=[]):
                                    for d in A.dnf(n.ast, "T" in lb, cnv, xstop=[]):
                                        pairs_.append((c | d, "repeat"))
                atoms = {a for c, _o in pairs_ for a, _p in c}
                pvs = {a[5:-1] for a in atoms if a.startswith("none(")}
                if len(pvs) == 1 and be_:
                    pv = pvs.pop()
                    from .selection import truth_table
                    mism, _n = truth_table(pairs_, {"none(%s)" % pv: "none", "t(%s.exists())" % pv: "exists"},
                                           lambda a: "repeat" if (not a["none"] and a["exists"]) else "leave",
                                           consistent=lambda a: not (a["none"] and a["exists"]))
                    table_ok = mism is None and pv.replace(" ", "") == "self.get_output_path(%s)" % cnv.params[1]
                    det = "the retry loop: %s" % (mism or "repeats exactly while the directory exists")
        elif isinstance(l.test, ast.Name):
            flag = l.test.id
            ins = [d for d in A.defs(cnv, flag) if isinstance(d, ast.Assign) and id(d) in {id(x) for x in ast.walk(l)}]
            outs = [d for d in A.defs(cnv, flag) if isinstance(d, ast.Assign) and id(d) not in {id(x) for x in ast.walk(l)}]
            if len(ins) == 1 and len(outs) == 1 and norm(outs[0].value) == "True" and not any(isinstance(b, (ast.Break, ast.Continue)) for b in walk_local(l)):
                cont = A.dnf(ins[0].value, True, cnv, inline=False, xstop=[flag])
        if table_ok is not None:
            ok = table_ok
        elif cont is not None:
            # the loop repeats exactly while the new version's directory exists
            atoms = {a for c in cont for a, _p in c}
            paths = {a[5:-1] for a in atoms if a.startswith("none(")}
            okp = len(paths) == 1
            if okp:
                pv = paths.pop()
                okp = cont == [frozenset({("none(%s)" % pv, False), ("t(%s.exists())" % pv, True)})] and pv.replace(" ", "") in ("self.get_output_path(%s)" % cnv.params[1], "output_path")
                if pv == "output_path":
                    sv = A.single_def_value(cnv, "output_path")
                    okp = okp and sv is not None and norm(sv) == "self.get_output_path(%s)" % cnv.params[1]
            ok = okp
            det = "the retry loop continues under [%s]" % " | ".join(fmt_conj(c) for c in cont)
    rep.check(ok, "RT6", "new versions skip existing directories", cnv.node, "a new version is generated again exactly while its output directory already exists",
              "create_new_version no longer skips versions whose output directory already exists (a same-second re-run would fail or reuse it): " + det)


# --------------------------------------------------------------------------- GC
def rule_gc(A: Analysis, rep):
    fi = A.fn("cli.gc.main")
    g = A.cfg(fi, "plain")
    m = fi.module
    # roles
    from .worklist import find_worklists
    wls = find_worklists(A, fi)
    if len(wls) != 1:
        raise AnalysisError("gc: expected one directory-walk loop")
    w = wls[0]
    curr = w.pop_targets[0]
    walks = [l for l in walk_local(w.loop) if isinstance(l, ast.For) and norm(l.iter) == "%s.iterdir()" % curr]
    if len(walks) != 1:
        rep.bad("GC1", "walk", w.loop, "no `for inner in curr.iterdir()` loop")
        return
    wl = walks[0]
    inner = norm(wl.target)
    hdr = [n for n in g.nodes if n.kind == "for" and n.ast is wl][0]
    body_entry = [x for (x, l) in hdr.succ if l == "T"][0]
    # regexes by role
    from .regexes import compiled_regexes, uses, check_language
    regs = compiled_regexes(A, m)
    exp_name = reg_name = None
    for name in regs:
        for (fn, meth, c) in uses(A, m, name):
            tgt = _stmt_of(c)
            if isinstance(tgt, ast.Assign) and any(isinstance(x, ast.Call) and norm(x.func) == "%s.group" % norm(tgt.targets[0]) for x in walk_local(fi.node)):
                exp_name = name
            else:
                reg_name = name
    if exp_name is None or reg_name is None:
        raise AnalysisError("gc: could not identify the experiment / regular directory patterns")
    for name, ref in ((exp_name, "EXPERIMENT_DIR"), (reg_name, "REGULAR_DIR")):
        for (fn, meth, c) in uses(A, m, name):
            ok_arg = len(c.args) == 1 and norm(c.args[0]) == "%s.name" % inner
            check_language(A, rep, "RX1", "%s (%s.%s)" % (ref, name, meth), regs[name][0], meth, ref, c)
            rep.check(ok_arg, "RX1", "%s applied to the entry's name" % name, c, "", "pattern applied to `%s`" % (norm(c.args[0]) if c.args else "?"), deep=False)
    mvar = None
    for st in walk_local(wl):
        if isinstance(st, ast.Assign) and isinstance(st.value, ast.Call) and norm(st.value.func) == "%s.match" % exp_name:
            mvar = norm(st.targets[0])
    # GC1: to_delete appends
    apps = [n for n in g.nodes if n.kind == "stmt" and isinstance(n.ast, ast.Expr) and isinstance(n.ast.value, ast.Call)
            and isinstance(n.ast.value.func, ast.Attribute) and n.ast.value.func.attr == "append" and norm(n.ast.value.args[0]) == inner
            and norm(n.ast.value.func.value) != w.stack]
    if len(apps) != 1:
        rep.bad("GC1", "deletion candidates", wl, "expected one `to_delete.append(inner)`, found %d" % len(apps))
        return
    ap = apps[0]
    to_delete = norm(ap.ast.value.func.value)
    gs = A.path_guards(g, body_entry, ap, fi)
    av = None
    need_ok = False
    def member_key(atom):
        """(key tuple, set name) of a `KEY in SET` atom whose key is a pair, written inline or held in a local."""
        if not atom.startswith("in("):
            return None
        try:
            call = ast.parse("IN" + atom[2:], mode="eval").body
        except SyntaxError:
            return None
        if not (isinstance(call, ast.Call) and len(call.args) == 2 and isinstance(call.args[1], ast.Name)):
            return None
        key = call.args[0]
        if isinstance(key, ast.Name):
            key = A.single_def_value(fi, key.id)
        if isinstance(key, ast.Tuple) and len(key.elts) == 2:
            return key, call.args[1].id
        return None
    for c in gs:
        ins = [a for a, p in c if not p and member_key(a) is not None]
        if ins:
            av = ins[0]
    need_ok = bool(gs) and all(("none(%s)" % mvar, False) in c and any(not p and member_key(a) is not None for a, p in c) for c in gs)
    rep.check(need_ok, "GC1", "delete only unrecorded experiment directories", ap.ast,
              "a directory is a deletion candidate only if the experiment pattern matched and (identifier, timestamp) is not recorded",
              "to_delete.append reachable under [%s]" % " | ".join(fmt_conj(c) for c in gs))
    # the membership test is against the full set of recorded versions
    ok_set = False
    det = "membership test not found"
    if av:
        tup, setname = member_key(av)
        sv = A.single_def_value(fi, setname)
        lst = None
        ctxv = [n_ for n_ in {x.id for x in ast.walk(fi.node) if isinstance(x, ast.Name)}
                if A.single_def_value(fi, n_) is not None and norm(A.single_def_value(fi, n_)) == "Context.from_cwd()"]
        stop = set(ctxv) | {mvar}
        ctxn = ctxv[0] if ctxv else "ctx"
        set_iter = set_elt = set_tgt = None
        if isinstance(sv, ast.SetComp) and len(sv.generators) == 1 and not sv.generators[0].ifs:
            set_iter, set_elt, set_tgt = sv.generators[0].iter, sv.elt, sv.generators[0].target
        elif sv is not None and norm(sv) in ("set()", "set([])"):
            # the loop form: `S = set(); for T in IT: S.add(E)` with the add unconditional in every iteration
            adds = [n for n in g.nodes if n.kind == "stmt" and isinstance(n.ast, ast.Expr) and isinstance(n.ast.value, ast.Call)
                    and norm(n.ast.value.func) == "%s.add" % setname and len(n.ast.value.args) == 1]
            muts = [x for x in walk_local(fi.node) if isinstance(x, ast.Call) and isinstance(x.func, ast.Attribute) and norm(x.func.value) == setname
                    and x.func.attr in ("add", "update", "discard", "remove", "pop", "clear", "difference_update", "intersection_update")]
            if len(adds) == 1 and len(muts) == 1 and isinstance(getattr(adds[0].ast, "_parent", None), ast.For):
                lp_ = adds[0].ast._parent
                h_ = [n for n in g.nodes if n.kind == "for" and n.ast is lp_]
                b_ = [x for (x, l_) in h_[0].succ if l_ == "T"] if h_ else []
                back_ = [n for n in g.nodes if any(m is h_[0] and is_back(l_) for m, l_ in n.succ)] if h_ else []
                if b_ and not lp_.orelse and all(g.all_paths_pass(b_[0], e_, adds, skip_labels=is_exc) for e_ in back_) \
                        and not any(isinstance(x, (ast.Break, ast.Return)) for x in walk_local(lp_)) \
                        and g.all_paths_pass(g.entry, ap, h_, skip_labels=is_exc) and id(lp_) not in {id(x) for x in ast.walk(w.loop)}:
                    set_iter, set_elt, set_tgt = lp_.iter, adds[0].ast.value.args[0], lp_.target
        if set_iter is not None:
            lst = A.xtext(set_iter, fi, stop=stop)
            tg_names = [norm(x) for x in set_tgt.elts] if isinstance(set_tgt, ast.Tuple) and len(set_tgt.elts) == 2 else None
            elt_ok = tg_names is not None and norm(set_elt) == "(%s, %s.timestamp)" % (tg_names[0], tg_names[1])
            ok_set = lst.endswith(".version_index.get_all_versions()") and elt_ok
        idv = A.single_def_value(fi, tup.elts[0].id) if isinstance(tup.elts[0], ast.Name) else tup.elts[0]
        tsv = A.single_def_value(fi, tup.elts[1].id) if isinstance(tup.elts[1], ast.Name) else tup.elts[1]
        outp = "%s.output_path" % ctxn
        ok_id = idv is not None and A.xtext(idv, fi, stop=stop).replace(A.xtext(ast.parse(outp, mode="eval").body, fi, stop=stop), outp) == \
            "TaskIdentifier(%s.parent.relative_to(%s.output_path), %s.group('name'))" % (inner, ctxn, mvar)
        ok_ts = tsv is not None and A.xtext(tsv, fi, stop=stop) == "int(%s.group('timestamp'))" % mvar
        ok_set = ok_set and ok_id and ok_ts
        det = "set=%s identifier=%s timestamp=%s" % (lst, A.xtext(idv, fi, stop=stop) if idv is not None else None, norm(tsv) if tsv is not None else None)
    rep.check(ok_set, "GC1", "recorded set = all versions; identifier rebuilt from the directory", ap.ast, "", det)
    # destructive calls take their argument from to_delete
    muts = [(k, c) for (fq, k, c) in fs_mutations(A) if fq == fi.fq]
    for (k, c) in muts:
        arg = c.args[0] if c.args else None
        ok = False
        for anc in _anc(c):
            if isinstance(anc, ast.For) and arg is not None and norm(anc.target) == norm(arg) and norm(anc.iter) == to_delete:
                ok = True
        rep.check(ok, "GC1", "only candidates are removed", c, "", "`%s` removes something that does not come from the candidate list" % norm(c)[:80])
        # GC4 not under dry_run
        n = g.node_of(_stmt_of(c))
        gs2 = A.path_guards(g, g.entry, n, fi)
        rep.check(bool(gs2) and all(("t(args.dry_run)", False) in cj for cj in gs2), "GC4", "dry-run deletes nothing", c,
                  "every destructive call is on the `not args.dry_run` side", "a destructive call is reachable with --dry-run: [%s]" % " | ".join(fmt_conj(cj) for cj in gs2))
    rep.check(len(muts) >= 1, "GC1", "gc still deletes", fi.node, "", "gc no longer deletes anything (unrecorded outputs are never removed)", deep=False)
    # every candidate is acted upon: between collecting a candidate and the next (re)creation of the list, control passes
    # the loops that print / delete the candidates (a list emptied per directory but consumed after the walk loses all
    # candidates except those of the last directory)
    inits = [n for n in g.nodes if n.kind == "stmt" and isinstance(n.ast, (ast.Assign, ast.AnnAssign)) and n.ast.value is not None
             and norm(n.ast.targets[0] if isinstance(n.ast, ast.Assign) else n.ast.target) == to_delete and norm(n.ast.value) in ("[]", "list()")]
    cons = [n for n in g.nodes if n.kind == "for" and norm(n.ast.iter) == to_delete]
    succ_ap = [m for (m, lb) in ap.succ if not is_exc(lb)]
    okc = bool(inits) and bool(cons) and all(g.all_paths_pass(m, i_, cons, skip_labels=is_exc) for m in succ_ap for i_ in inits) and \
        all(g.all_paths_pass(m, g.exit, cons, skip_labels=is_exc) for m in succ_ap)
    rep.check(okc, "GC1", "every candidate collected is printed or deleted", ap.ast, "no path from an append to the list's re-creation (or to the end) avoids the consuming loops",
              "`%s` can be re-created (or the command can end) after a candidate was appended without the candidates being printed/deleted" % to_delete)
    # dry-run listing iterates the same list
    prints = [c for c in walk_local(fi.node) if isinstance(c, ast.Call) and norm(c.func) == "print" and c.args and isinstance(c.args[0], ast.Constant) and "Would delete" in str(c.args[0].value)]
    okp = False
    for c in prints:
        for anc in _anc(c):
            if isinstance(anc, ast.For) and norm(anc.iter) == to_delete:
                n = g.node_of(_stmt_of(c))
                gs3 = A.path_guards(g, g.entry, n, fi)
                okp = bool(gs3) and all(("t(args.dry_run)", True) in cj for cj in gs3)
    rep.check(okp, "GC4", "dry-run lists the candidates", fi.node, "--dry-run prints every entry of the same candidate list", "--dry-run does not list exactly the candidate list")
    # GC2: push only when both patterns fail
    for (pn, call) in w.pushes():
        if id(pn.ast) not in {id(x) for x in ast.walk(wl)}:
            continue
        gs4 = A.path_guards(g, body_entry, pn, fi)
        reg_atom = "none(%s.match(%s.name))" % (reg_name, inner)
        ok = bool(gs4) and all(("none(%s)" % mvar, True) in cj and (reg_atom, True) in cj for cj in gs4) and norm(call.args[0]) == inner
        rep.check(ok, "GC2", "never descends into a task directory", pn.ast, "a directory is explored only if it matches neither pattern",
                  "a directory is pushed for exploration under [%s]" % " | ".join(fmt_conj(cj) for cj in gs4))
    # GC3: no-follow walk
    gs5 = []
    first = [n for n in g.nodes if n.kind == "stmt" and isinstance(n.ast, ast.Assign) and mvar is not None and norm(n.ast.targets[0]) == mvar]
    if first:
        gs5 = A.path_guards(g, body_entry, first[0], fi)
    ok3 = bool(gs5) and all(("t(%s.is_symlink())" % inner, False) in cj and ("t(%s.is_dir())" % inner, True) in cj for cj in gs5)
    rep.check(ok3, "GC3", "no-follow walk", wl, "entries are considered only if they are real directories (symlinks excluded)",
              "the walk considers `%s` under [%s] — `is_dir()` follows symlinks, so a link out of cond-out would be explored and deleted from" % (
                  inner, " | ".join(fmt_conj(cj) for cj in gs5)), key="GC3|no-follow walk")
    # root of the walk is cond-out
    init = A.single_def_value(fi, w.stack)
    rep.check(init is not None and A.xtext(init, fi).replace("Context.from_cwd()", "ctx") == "[ctx.output_path]", "GC1", "walk rooted at cond-out", fi.node, "",
              "the walk does not start at ctx.output_path")
    rep.expect_min("GC1", 4)
    rep.expect_min("GC4", 2)


def _anc(n):
    n = getattr(n, "_parent", None)
    while n is not None:
        yield n
        n = getattr(n, "_parent", None)


# --------------------------------------------------------------------------- CWD
CWD1_TABLE = {
    ("conductor.context.Context.from_cwd", "pathlib.Path.cwd"): "project-root discovery",
    ("conductor.cli.gc.main", "pathlib.Path.cwd"): "display only",
    ("conductor.cli.archive.main", "pathlib.Path.cwd"): "display only",
}


def cwd_reads(A: Analysis):
    out = []
    for f in A.prog.scan_functions:
        if f.fq.startswith(CORE_EXCLUDE):
            continue
        for c in walk_local(f.node):
            if isinstance(c, ast.Call) and norm(c.func) in ("pathlib.Path.cwd", "os.getcwd", "os.chdir", "Path.cwd", "os.getcwdb", "os.fchdir"):
                out.append((f, norm(c.func), c))
            elif isinstance(c, ast.Call) and isinstance(c.func, ast.Attribute) and c.func.attr in ("absolute", "resolve") and \
                    isinstance(c.func.value, ast.Call) and norm(c.func.value.func) in ("pathlib.Path", "Path") and not c.func.value.args:
                out.append((f, "Path().%s" % c.func.attr, c))
    return out


def rule_cwd(A: Analysis, rep):
    reads = cwd_reads(A)
    for (f, kind, c) in reads:
        key = (f.fq, kind)
        rep.check(key in CWD1_TABLE, "CWD1", "%s in %s" % (kind, f.fq.replace("conductor.", "")), c, CWD1_TABLE.get(key, ""),
                  "the working directory is read at a site outside the confirmed inventory", deep=False)
    rep.expect_min("CWD1", 3)
    # CWD2 root discovery
    fc = A.fn("context.Context.from_cwd")
    loops = [l for l in walk_local(fc.node) if isinstance(l, ast.For)]
    ok = False
    ok_err = False
    if len(loops) == 1:
        l = loops[0]
        g = A.cfg(fc, "plain")
        it = A.xtext(l.iter, fc)
        ok_iter = it in ("itertools.chain([pathlib.Path.cwd()], pathlib.Path.cwd().parents)", "[pathlib.Path.cwd(), *pathlib.Path.cwd().parents]")
        p = norm(l.target)
        hdr = [n for n in g.nodes if n.kind == "for" and n.ast is l][0]
        tests = [n for n in g.nodes if n.kind == "test" and n.ast is not None and id(n.ast) in {id(x) for x in ast.walk(l)} and
                 A.xtext(n.ast, fc) == "(%s / CONFIG_FILE_NAME).is_file()" % p]
        ok_body = False
        if len(tests) == 1:
            t_ = tests[0]
            t_succ = [m for (m, lb) in t_.succ if branch_of(lb) == "T"]
            f_succ = [m for (m, lb) in t_.succ if branch_of(lb) == "F"]
            # a hit leaves the loop at once; a miss goes on to the next candidate and nowhere else
            hit_leaves = not any(any(m is hdr and is_back(lb) for (m, lb) in n.succ) for n in g.reach(t_succ, skip_labels=is_exc))
            miss = g.reach(f_succ, removed=[hdr], skip_labels=is_exc)
            miss_continues = g.exit not in miss and not any(n.kind == "stmt" and isinstance(n.ast, (ast.Return, ast.Raise, ast.Break)) for n in miss)
            # every value returned is the Context of that first hit
            rets = [n for n in g.nodes if n.kind == "stmt" and isinstance(n.ast, ast.Return) and n.ast.value is not None]
            rv = [cv for r_ in rets for cv in A.rvalues(fc, r_.ast.value, r_, g, depth=3)]
            hit_atom = A.atom(t_.ast, fc)[0]
            ret_ok = bool(rv) and all(v == "cls(%s)" % p and (hit_atom, True) in c for c, v in rv)
            ok_body = hit_leaves and miss_continues and ret_ok
            # exhausting the candidates ends in MissingProjectRoot (the only feasible continuation: see ret_ok)
            ex_succ = [m for (m, lb) in hdr.succ if branch_of(lb) == "F" or lb == "F"]
            after = g.reach(ex_succ, skip_labels=is_exc)
            ok_err = any(n.kind == "stmt" and isinstance(n.ast, ast.Raise) and "MissingProjectRoot" in norm(n.ast) for n in after)
        ok = ok_iter and ok_body
    rep.check(ok, "CWD2", "nearest ancestor with cond_config.toml", fc.node, "iterates [cwd, *cwd.parents] in order and returns at the first directory holding the config file",
              "project-root discovery no longer returns the nearest ancestor containing the config file")
    v = A.prog.fold_fq("conductor.config.CONFIG_FILE_NAME")
    rep.check(v == "cond_config.toml", "CWD2", "config file name", None, "", "CONFIG_FILE_NAME is %r" % (v,), deep=False)
    rep.check(ok_err, "CWD2", "no root ⇒ error", fc.node, "", "from_cwd does not raise MissingProjectRoot when no ancestor qualifies", deep=False)
    # every CLI command obtains its context via from_cwd
    for cmd in ("run", "archive", "restore", "gc", "clean"):
        f = A.fn("cli.%s.main" % cmd)
        cs = [c for c in walk_local(f.node) if isinstance(c, ast.Call) and norm(c.func) == "Context.from_cwd"]
        rep.check(len(cs) == 1, "CWD2", "cond %s locates the root via from_cwd" % cmd, f.node, "", "cond %s does not use Context.from_cwd()" % cmd, deep=False)
    wf = A.fn("lib.path.where")
    rep.check(any(isinstance(c, ast.Call) and norm(c.func) == "Context.from_cwd" for c in walk_local(wf.node)), "CWD2", "cond where locates the root via from_cwd", wf.node, "", "where() does not use Context.from_cwd()", deep=False)
    # CWD3 display-only and total
    for (f, kind, c) in reads:
        if CWD1_TABLE.get((f.fq, kind)) != "display only":
            continue
        st = _stmt_of(c)
        names = [norm(t) for t in st.targets] if isinstance(st, ast.Assign) and st.value is c else []
        uses_ = []
        if names:
            # uses of the variable, followed into project helpers that receive it as an argument
            work, seen_w = [(f, names[0])], set()
            while work:
                wf_, nm = work.pop()
                if (wf_.fq, nm) in seen_w:
                    continue
                seen_w.add((wf_.fq, nm))
                for fn in [wf_] + list(wf_.nested.values()):
                    for n in walk_local(fn.node):
                        if isinstance(n, ast.Name) and n.id == nm and isinstance(n.ctx, ast.Load):
                            pc = getattr(n, "_parent", None)
                            if isinstance(pc, ast.keyword):
                                pc = getattr(pc, "_parent", None)
                            passed = False
                            if isinstance(pc, ast.Call) and (n in pc.args or any(k.value is n for k in pc.keywords)):
                                for cal in A.res.callees(pc):
                                    cf = A.prog.functions.get(cal)
                                    if cf is None:
                                        continue
                                    for pn, av in A.bind_args(pc, cf).items():
                                        if av is n:
                                            work.append((cf, pn))
                                            passed = True
                            if not passed:
                                uses_.append(n)
        else:
            uses_ = [c]
        for u in uses_:
            par = u._parent if u is not c else c._parent
            call = par
            while call is not None and not isinstance(call, ast.Call):
                call = getattr(call, "_parent", None)
            is_rel = isinstance(call, ast.Call) and isinstance(call.func, ast.Attribute) and call.func.attr == "relative_to"
            is_relpath = isinstance(call, ast.Call) and norm(call.func) == "os.path.relpath"
            total = is_relpath
            if is_rel:
                for anc in _anc(call):
                    if isinstance(anc, ast.Try) and any(h.type is not None and "ValueError" in norm(h.type) for h in anc.handlers) and \
                            id(call) in {id(x) for b in anc.body for x in ast.walk(b)}:
                        total = True
            rep.check((is_rel or is_relpath) and total, "CWD3", "cwd used only for a total relative rendering in %s" % f.fq.rsplit(".", 2)[-2], u,
                      "relative_to(cwd) guarded by `except ValueError` / os.path.relpath",
                      "`%s` — relative_to(cwd) raises ValueError when the path is not below the current directory (command fails from a sub-directory)" % norm(call if call is not None else u)[:90],
                      key="CWD3|gc display paths" if "gc" in f.fq else None)
    rep.expect_min("CWD3", 2)
    # CWD4 rooted effects: filesystem effects and subprocess cwd= in CLI-reachable code
    roots = ["conductor.cli.%s.main" % c for c in ("run", "archive", "restore", "gc", "clean", "where")]
    reach = A.cg.reachable(roots)
    n_checked = 0
    for (fq, kind, c) in fs_mutations(A):
        if fq not in reach and not fq.startswith("conductor.cli"):
            continue
        f = A.prog.functions[fq]
        target = c.func.value if kind.startswith("Path.") else (c.args[0] if c.args else None)
        if kind == "shutil.copytree" and len(c.args) > 1:
            target = c.args[1]
        if kind.startswith("open(") and c.args:
            target = c.args[0]
        if target is None:
            continue
        cls = path_class(A, f, target)
        n_checked += 1
        if cls in ("REL", "CWD"):
            rep.bad("CWD4", "rooted effect %s in %s" % (kind, fq.replace("conductor.", "")), c, "path `%s` is %s-relative, not rooted at the project" % (norm(target), cls))
        elif cls == "?":
            rep.unknown("CWD4", "origin of %s in %s" % (kind, fq.replace("conductor.", "")), c, "path `%s` could not be traced" % norm(target))
        else:
            rep.ok("CWD4", "rooted effect %s in %s" % (kind, fq.replace("conductor.", "")), c, "path class %s" % cls)
    # CWD5: the COND file handed to the loader is an absolute path under the project root (relative include()s are
    # resolved against its directory, so a relative COND path would make them depend on the working directory)
    n5 = 0
    for (f5, c5) in A.all_calls_to("TaskLoader.parse_cond_file"):
        n5 += 1
        a5 = c5.args[0] if c5.args else None
        cls5 = path_class(A, f5, a5) if a5 is not None else "?"
        rooted = cls5 in ("ROOT",) or (a5 is not None and ("self._project_root" in A.xtext(a5, f5) or "project_root" in A.xtext(a5, f5)))
        rep.check(rooted, "CWD5", "COND file path handed to the loader is rooted (%s)" % f5.fq.rsplit(".", 1)[1], c5, "path class %s" % cls5,
                  "parse_cond_file(%s): the path is not built from the project root — `include(\"x.cond\")` would be looked up relative to the current directory" % (norm(a5) if a5 is not None else "?"))
    rep.check(n5 >= 2, "CWD5", "loader call sites found", None, "", "only %d parse_cond_file call site(s)" % n5, deep=False)
    # filesystem *queries* on a relative path are answered relative to the working directory as well
    QUERIES = ("exists", "is_dir", "is_file", "is_symlink", "iterdir", "stat", "lstat", "glob", "rglob", "read_text", "read_bytes")
    n_q = 0
    for f in A.prog.scan_functions:
        if f.fq not in reach and not f.fq.startswith("conductor.cli") and not f.fq.startswith("conductor.lib.path"):
            continue
        for c in walk_local(f.node):
            target = None
            if isinstance(c, ast.Call) and isinstance(c.func, ast.Attribute) and c.func.attr in QUERIES and not c.args:
                target = c.func.value
            elif isinstance(c, ast.Call) and norm(c.func) in ("os.path.exists", "os.path.isdir", "os.path.isfile", "os.listdir", "os.stat") and c.args:
                target = c.args[0]
            if target is None:
                continue
            n_q += 1
            cls = path_class(A, f, target)
            if cls in ("REL", "CWD"):
                rep.bad("CWD4", "rooted query %s in %s" % (norm(c.func).rsplit(".", 1)[-1], f.fq.replace("conductor.", "")), c,
                        "`%s` is %s-relative: the answer depends on the directory the command was started from" % (norm(target), cls))
    rep.check(n_q >= 10, "CWD4", "filesystem queries inspected", None, "%d query call sites classified" % n_q, "only %d filesystem query sites found" % n_q, deep=False)
    # subprocess cwd=
    for f in A.prog.scan_functions:
        if f.fq not in reach:
            continue
        for c in walk_local(f.node):
            if isinstance(c, ast.Call) and norm(c.func) in ("subprocess.run", "subprocess.Popen"):
                cw = A.kw(c, "cwd")
                if cw is None:
                    if f.fq.startswith("conductor.utils.git"):
                        rep.bad("CWD4", "git without cwd", c, "a git command runs in the caller's working directory")
                    continue
                cls = path_class(A, f, cw)
                n_checked += 1
                rep.check(cls in ("ROOT", "FIELD"), "CWD4", "subprocess cwd in %s" % f.fq.replace("conductor.", ""), c, "cwd class %s" % cls,
                          "subprocess cwd `%s` is not rooted at the project (%s)" % (norm(cw), cls))
    rep.expect_min("CWD4", 10)
    # CWD6: the tar helpers receive user-supplied paths (-o <file>, <archive file>) that are relative to the invocation
    # directory: they must run there (re-rooting is tar's `-C`), so no cwd= for them
    n_tar = 0
    for fq_ in ("cli.archive.create_archive", "cli.restore.extract_archive"):
        f_ = A.fn(fq_)
        for c in walk_local(f_.node):
            if isinstance(c, ast.Call) and norm(c.func) in ("subprocess.Popen", "subprocess.run", "subprocess.check_call"):
                n_tar += 1
                rep.check(A.kw(c, "cwd") is None, "CWD6", "tar runs in the invocation directory (%s)" % fq_, c, "no cwd=, members re-rooted with -C",
                          "tar is started with cwd=%s: a relative -o/archive path given by the user is resolved against that directory instead of the invocation directory" % (
                              norm(A.kw(c, "cwd")) if A.kw(c, "cwd") is not None else "?"))
    if n_tar < 2:
        raise AnalysisError("CWD6: tar call sites not found")
    # get_working_path / project_root fields
    gw = A.fn("task_types.base.TaskType.get_working_path")
    r = [x for x in walk_local(gw.node) if isinstance(x, ast.Return)]
    from ..analysis import pathparts
    rep.check(len(r) == 1 and pathparts(A.expand(r[0].value, gw, stop=[gw.params[1]])) == ["%s.project_root" % gw.params[1], "self._identifier.path"], "CWD4", "task cwd = root / identifier.path", gw.node,
              "", "get_working_path is `%s`" % (norm(r[0].value) if r else "?"))
    ci = A.fn("context.Context.__init__")
    st = {norm(s.targets[0]): norm(s.value) for s in walk_local(ci.node) if isinstance(s, ast.Assign) and isinstance(s.targets[0], ast.Attribute)}
    rep.check(st.get("self._output_path") == "project_root / OUTPUT_DIR" and st.get("self._project_root") == "project_root" and st.get("self._git") == "Git(self._project_root)"
              and st.get("self._task_index") == "TaskIndex(self._project_root)", "CWD4", "context paths derive from the root", ci.node, "",
              "Context.__init__ derives its paths as %s" % {k: v for k, v in st.items() if k in ("self._output_path", "self._project_root", "self._git", "self._task_index")})


def path_class(A: Analysis, fi, e: ast.expr, depth=0) -> str:
    """ROOT (derived from ctx.project_root / ctx.output_path / a path field),
    USER (a CLI argument), REL (bare relative literal), CWD, FIELD (self._x path
    field set from constructor arguments), '?'."""
    if depth > 8:
        return "?"
    if isinstance(e, ast.Name):
        if e.id in fi.params:
            ann = fi.param_annotation(e.id)
            return "PARAM"
        vals = [d for d in A.defs(fi, e.id)]
        classes = set()
        for d in vals:
            if isinstance(d, (ast.Assign, ast.AnnAssign)) and d.value is not None:
                if isinstance(d, ast.Assign) and isinstance(d.targets[0], ast.Tuple):
                    classes.add("?")
                else:
                    classes.add(path_class(A, fi, d.value, depth + 1))
            elif isinstance(d, (ast.For, ast.comprehension)):
                classes.add(path_class(A, fi, d.iter, depth + 1))
            else:
                classes.add("?")
        if not classes and fi.parent is not None:
            return path_class(A, fi.parent, e, depth + 1)
        classes.discard("NONE")
        if len(classes) == 1:
            return classes.pop()
        if classes <= {"ROOT", "FIELD", "PARAM"} and classes:
            return "ROOT"
        if "CWD" in classes or "REL" in classes:
            return "CWD" if "CWD" in classes else "REL"
        if classes <= {"ROOT", "USER", "FIELD", "PARAM"} and classes:
            return "USER"
        return "?"
    if isinstance(e, ast.Constant):
        if e.value is None:
            return "NONE"
        if isinstance(e.value, str):
            return "ROOT" if e.value.startswith("/") else "REL"
        return "?"
    if isinstance(e, ast.Attribute):
        tx = norm(e)
        if tx.endswith(".project_root") or tx.endswith(".output_path") or tx in ("self._project_root", "self._output_path"):
            bt = A.res.type_of(e.value, fi)
            return "ROOT" if bt is None or bt[0] != "argparse.Namespace" else "USER"
        if tx.startswith("args."):
            return "USER"
        if tx.startswith("self._"):
            return "FIELD"
        if e.attr in ("parent", "name"):
            return path_class(A, fi, e.value, depth + 1)
        return "?"
    if isinstance(e, ast.BinOp) and isinstance(e.op, ast.Div):
        return path_class(A, fi, e.left, depth + 1)
    if isinstance(e, ast.Call):
        fx = norm(e.func)
        if fx in ("pathlib.Path.cwd", "os.getcwd"):
            return "CWD"
        if fx in ("pathlib.Path", "Path"):
            if not e.args:
                return "CWD"
            return path_class(A, fi, e.args[0], depth + 1)
        if fx == "str" and e.args:
            return path_class(A, fi, e.args[0], depth + 1)
        if isinstance(e.func, ast.Attribute) and e.func.attr in ("with_name", "joinpath", "with_suffix", "resolve", "iterdir", "pop"):
            return path_class(A, fi, e.func.value, depth + 1)
        if isinstance(e.func, ast.Attribute) and e.func.attr == "relative_to":
            return "REL"     # a path made relative to something: resolved against the working directory when used
        if fx == "os.path.relpath":
            return "REL"
        for c in A.res.callees(e):
            f2 = A.prog.functions.get(c)
            if f2 is not None:
                rets = [r for r in walk_local(f2.node) if isinstance(r, ast.Return) and r.value is not None]
                cl = {path_class(A, f2, r.value, depth + 1) for r in rets}
                cl.discard("NONE")
                if cl and cl <= {"ROOT", "FIELD"}:
                    return "ROOT"
                if cl == {"PARAM"} or cl == {"PARAM", "ROOT"}:
                    # a function of its arguments: classify the arguments
                    ac = {path_class(A, fi, a, depth + 1) for a in e.args}
                    ac.discard("NONE")
                    if ac and ac <= {"ROOT", "FIELD"}:
                        return "ROOT"
                    if "USER" in ac and ac <= {"ROOT", "FIELD", "USER"}:
                        return "USER"
        return "?"
    if isinstance(e, (ast.List, ast.Tuple)) and e.elts:
        cl = {path_class(A, fi, x, depth + 1) for x in e.elts}
        return cl.pop() if len(cl) == 1 else "?"
    return "?"
