"""C15 — COND definitions: well-formed accepted, malformed rejected cleanly."""
from . import conddefs as CD, executor as E, graphs as G, regexes as RX
from ..model import AnalysisError

META = {
    "explanation": "Containment of every exec of user code by handlers that convert SyntaxError / any Exception into a ConductorError with file "
                   "context while passing Conductor's own errors through (EXC1); every explicit raise reachable from task loading is a "
                   "ConductorError (EXC2); schema tables equal the documented parameters, defaults and the constructors' signatures (SCH1); "
                   "validator decision structure, name check, unique names, primitive args/options (VAL1); include() checks and scope (INC1); "
                   "name grammar (RX1); --check never executes (RUN1); errors become ERROR + non-zero exit (CLI1).",
    "rules": ["EXC1", "SCP1", "EXC2", "EXC3", "SCH1", "VAL1", "INC1", "INC2", "RX1", "RUN1", "CLI1", "GRP1", "GRP2", "GRP3", "GRP4", "GRP5", "GRP6"],
    "assumptions": ["completeness of rejection over arbitrary Python values is the input space of exec — not decided", "SystemExit raised by a COND file is out of scope"],
    "trusted": ["ast parser", "call graph incl. the idiom table for COND constructors"],
}


def run(A, rep, tier):
    CD.rule_exc1(A, rep)
    CD.rule_exc2(A, rep)
    CD.rule_exc3(A, rep)
    CD.rule_sch1(A, rep)
    CD.rule_val1(A, rep)
    CD.rule_inc1(A, rep)
    CD.rule_inc2(A, rep)
    # run_experiment_group hands the instance's values to run_experiment as they are (no coercion that would turn an
    # ill-typed value into a well-typed one before the validator sees it)
    from . import group as GRPM
    GRPM.rule_grp(A, rep)
    m = A.prog.module("task_identifier")
    regs = RX.compiled_regexes(A, m)
    done = False
    for name, (pat, call) in regs.items():
        for (fn, method, c) in RX.uses(A, m, name):
            if fn == "is_name_valid":
                RX.check_language(A, rep, "RX1", "NAME grammar (%s.%s)" % (name, method), pat, method, "NAME", c)
                done = True
    if not done:
        rep.bad("RX1", "NAME grammar", m.tree, "is_name_valid no longer applies a compiled pattern")
    G.rule_run1(A, rep)
    E.rule_cli1(A, rep)
    from . import combine as CB
    CB.rule_cb3(A, rep)
