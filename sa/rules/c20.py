"""C20 — Task identifiers: one grammar, canonical form, distinct output locations."""
import ast

from ..model import AnalysisError, NOFOLD, norm, walk_local
from ..regex_auto import accepted_chars
from . import regexes as RX

META = {
    "explanation": "Exact language equality (regex automata incl. the calling method and `$` vs `\\Z`) of the three identifier "
                   "patterns with the documented grammar (RX1); alphabet facts that make name.task[.version] uniquely decodable "
                   "(RX2); print/parse tables (RT-P); resolution of ':name' against the listing COND file's directory (REL1); "
                   "__eq__/__hash__ agreement (HASH1); combine() rejects dependencies whose names coincide, because its entries are "
                   "named by task name alone (CB3). cond gc parses output-directory names with exactly the grammar they are created with (RX1 on gc's patterns, GC1/GC2). cond restore refuses a destination directory that already exists, so an archived version never shares a directory with a local one (RS2).",
    "rules": ["RX1", "RX2", "RT-P", "REL1", "HASH1", "CB3", "GC1", "GC2", "RX1(gc)", "RS2", "CLI-ID", "VI2"],
    "assumptions": ["re._parser's AST is the engine's semantics (cross-checked on the witnesses in the engine self-check)"],
    "trusted": ["ast parser", "re._parser", "constant folder"],
    "technique": "static analysis: regex AST → symbolic-alphabet DFA language equivalence, plus AST agreement rules",
}

ROLE = {"is_name_valid": "NAME", "from_str": "IDENT", "from_relative_str": "REL"}


def fmt_c(c):
    return " & ".join(("" if p else "!") + a for a, p in sorted(c)) or "true"


def run(A, rep, tier):
    m = A.prog.module("task_identifier")
    regs = RX.compiled_regexes(A, m)
    seen_roles = set()
    name_pat = None
    for name, (pat, call) in sorted(regs.items()):
        us = RX.uses(A, m, name)
        if not us:
            rep.unknown("RX1", name, call, "compiled pattern is never used")
            continue
        for (fn, method, c) in us:
            role = ROLE.get(fn)
            if role is None:
                rep.bad("RX1", "%s in %s" % (name, fn), c, "identifier pattern used in an unexpected function")
                continue
            seen_roles.add(role)
            if role == "NAME":
                name_pat = pat
            RX.check_language(A, rep, "RX1", "%s grammar (%s.%s)" % (role, name, method), pat, method, role, c)
    for role in ("NAME", "IDENT", "REL"):
        if role not in seen_roles:
            rep.bad("RX1", "%s grammar" % role, m.tree, "no compiled pattern is applied in %s" % [k for k, v in ROLE.items() if v == role][0])
    rep.expect_min("RX1", 3)
    # the boolean / raise built on the match result
    TI = "task_identifier.TaskIdentifier."
    f = A.fn(TI + "is_name_valid")
    r = [x for x in walk_local(f.node) if isinstance(x, ast.Return)]
    ok = len(r) == 1 and isinstance(r[0].value, ast.Compare) and isinstance(r[0].value.ops[0], ast.IsNot) and norm(r[0].value.comparators[0]) == "None" \
        and norm(r[0].value.left).endswith("(%s)" % f.params[0])
    rep.check(ok, "RX1", "is_name_valid = match is not None", f.node, "", "is_name_valid does not return `<pattern>.match(candidate) is not None`")
    from .selection import truth_table
    for fn in ("from_str", "from_relative_str"):
        f = A.fn(TI + fn)
        g = A.cfg(f, "plain")
        cand = f.params[1]
        pairs = []
        for n in g.nodes:
            if n.kind == "stmt" and isinstance(n.ast, ast.Raise):
                okr = n.ast.exc is not None and "InvalidTaskIdentifier" in norm(n.ast.exc)
                for c in A.path_guards(g, g.entry, n, f):
                    pairs.append((c, "raise" if okr else "raise-other"))
            elif n.kind == "stmt" and isinstance(n.ast, ast.Return):
                for c in A.path_guards(g, g.entry, n, f):
                    pairs.append((frozenset(a for a in c if a[0] in ("none(match)", "t(require_prefix)", "t(%s.startswith('//'))" % cand)), "return"))
        var_of = {"none(match)": "nomatch", "t(require_prefix)": "req", "t(%s.startswith('//'))" % cand: "pref"}
        if fn == "from_str":
            ref = lambda a: "raise" if (a["nomatch"] or (a["req"] and not a["pref"])) else "return"
        else:
            ref = lambda a: "raise" if a["nomatch"] else "return"
            var_of = {"none(match)": "nomatch"}
        mism, n_asg = truth_table(pairs, var_of, ref)
        rep.check(mism is None, "RX1", "%s rejects exactly the non-matches%s" % (fn, " and missing // prefixes" if fn == "from_str" else ""), f.node,
                  "InvalidTaskIdentifier iff the pattern did not match%s (%d assignments)" % (" or require_prefix ∧ no leading //" if fn == "from_str" else "", n_asg), mism or "")
        mv = A.single_def_value(f, "match")
        rep.check(mv is not None and isinstance(mv, ast.Call) and len(mv.args) == 1 and norm(mv.args[0]) == cand, "RX1", "%s matches its argument" % fn, f.node, "", "the pattern is not applied to the candidate string", deep=False)

    # RX2 alphabet facts
    if name_pat is None:
        raise AnalysisError("no NAME pattern found")
    alpha = accepted_chars(name_pat)
    badc = sorted(c for c in (".", "/", ":", "\n", " ") if c in alpha)
    rep.check(not badc, "RX2", "separators not in the name alphabet", m.tree, "'.', '/', ':', newline and space cannot occur in a name",
              "the name alphabet contains separator character(s) %r — two identifiers/versions could share an output directory" % badc)
    suffix = A.prog.fold_fq("conductor.config.TASK_OUTPUT_DIR_SUFFIX")
    rep.check(isinstance(suffix, str) and suffix[:1] not in alpha and suffix != "", "RX2", "suffix starts outside the alphabet", None,
              "TASK_OUTPUT_DIR_SUFFIX=%r" % (suffix,), "TASK_OUTPUT_DIR_SUFFIX %r does not start with a character outside the name alphabet" % (suffix,))
    tod = A.fn("filename.task_output_dir")
    from ..analysis import strparts
    g = A.cfg(tod, "plain")
    p0, p1 = tod.params[0], tod.params[1]
    rets = [n for n in g.nodes if n.kind == "stmt" and isinstance(n.ast, ast.Return)]
    forms = {}
    for n in rets:
        parts = strparts(A.expand(n.ast.value, tod))
        if parts is not None:
            # format()/f-strings apply str() to every field: `x` and `str(x)` are the same part
            parts = [p_[4:-1] if p_.startswith("str(") and p_.endswith(")") else p_ for p_ in parts]
        gs = A.path_guards(g, g.entry, n, tod)
        forms[tuple(parts) if parts is not None else ("?",)] = sorted(sorted(c) for c in gs)
    want = {("%s.name" % p0, "TASK_OUTPUT_DIR_SUFFIX"): [[("none(%s)" % p1, True)]],
            ("%s.name" % p0, "TASK_OUTPUT_DIR_SUFFIX", "'.'", p1): [[("none(%s)" % p1, False)]]}
    rep.check(forms == want, "RX2", "directory name = name + suffix [+ '.' + version]", tod.node, "the version suffix is '.' + str(version), added iff a version is given",
              "task_output_dir builds %s" % forms)
    vs = A.fn("execution.version_index.Version.__str__")
    r = [x for x in walk_local(vs.node) if isinstance(x, ast.Return)]
    rep.check(len(r) == 1 and norm(r[0].value) == "str(self._timestamp)", "RX2", "str(version) is the timestamp", vs.node, "", "Version.__str__ is not str(timestamp)")
    # output path = ctx.output_path / identifier.path / task_output_dir(identifier)
    bi = A.fn("task_types.base.TaskType.__init__")
    st = [s for s in walk_local(bi.node) if isinstance(s, ast.Assign) and norm(s.targets[0]) == "self._output_path_suffix"]
    # the task's identifier: the property, its field, or the constructor parameter the field is (unconditionally, earlier) set from
    id_names = {"self.identifier", "self._identifier"}
    if len(st) == 1:
        for s_ in bi.node.body:
            if s_ is st[0]:
                break
            if isinstance(s_, ast.Assign) and norm(s_.targets[0]) == "self._identifier" and isinstance(s_.value, ast.Name) and s_.value.id in bi.params \
                    and len(A.defs(bi, s_.value.id)) == 0:
                id_names.add(s_.value.id)

    class _Id(ast.NodeTransformer):
        def visit_Attribute(self, n):
            if norm(n) in id_names:
                return ast.Name(id="ID", ctx=ast.Load())
            return self.generic_visit(n)

        def visit_Name(self, n):
            return ast.Name(id="ID", ctx=ast.Load()) if n.id in id_names else n
    import copy as _copy
    from ..analysis import pathparts as _pp
    loc_text = norm(_Id().visit(_copy.deepcopy(st[0].value))) if len(st) == 1 else "?"
    rep.check(len(st) == 1 and st[0] in bi.node.body and _pp(_Id().visit(_copy.deepcopy(A.expand(st[0].value, bi, stop=bi.params)))) == ["ID.path", "f.task_output_dir(ID)"], "RX2", "location = path / dirname", bi.node,
              "", "the output location is not identifier.path / task_output_dir(identifier)")
    go = A.fn("task_types.base.TaskType.get_output_path")
    r = [x for x in walk_local(go.node) if isinstance(x, ast.Return)]
    rep.check(len(r) == 1 and norm(r[0].value) == "%s.output_path / self._output_path_suffix" % go.params[1], "RX2", "rooted under cond-out", go.node,
              "", "get_output_path is not ctx.output_path / suffix")

    # RT-P print/parse
    rp = A.fn(TI + "__repr__")
    r = [x for x in walk_local(rp.node) if isinstance(x, ast.Return)]
    from ..analysis import strparts as _sp
    pf = _sp(A.expand(r[0].value, rp)) if len(r) == 1 else None
    pf = [p_[4:-1] if p_.startswith("str(") and p_.endswith(")") else p_ for p_ in pf] if pf is not None else None
    rep.check(pf == ["'//'", "'/'.join(self._path.parts)", "':'", "self._name"], "RT-P", "print form", rp.node,
              "repr = '//' + '/'.join(path.parts) + ':' + name", "__repr__ is `%s`" % (norm(r[0].value) if r else "?"))
    fs = A.fn(TI + "from_str")
    r = [x for x in walk_local(fs.node) if isinstance(x, ast.Return)]
    ok = len(r) == 1 and isinstance(r[0].value, ast.Call) and norm(r[0].value.func) == "cls"
    det = "from_str does not return cls(path=…, name=match.group('name'))"
    if ok:
        kw = A.kwmap(r[0].value)
        okn = "name" in kw and A.xtext(kw["name"], fs, stop=["match"]).replace("match['name']", "match.group('name')") == "match.group('name')"
        pv = A.rvalues(fs, kw.get("path", ast.Constant(None)), r[0], keep=lambda a: a.startswith("none(") and a != "none(match)", depth=2, calls=True)
        pv = [(c, v.replace("match['path']", "match.group('path')")) for c, v in pv]
        pv = [(frozenset((a.replace("match['path']", "match.group('path')"), p_) for a, p_ in c), v) for c, v in pv]
        pv = [(c, v.replace("match.group('path')", "path_str")) for c, v in pv]
        pv = [(frozenset((a.replace("match.group('path')", "path_str"), p_) for a, p_ in c), v) for c, v in pv]
        # the segments are strings (from str.split): "non-empty" and "truthy" are the same filter
        pv = [(c, v.replace("path_str.split('/') if _v0))", "path_str.split('/') if len(_v0) > 0))")) for c, v in pv]
        alt = {(frozenset({("none(path_str)", True)}), "pathlib.Path()"),
               (frozenset({("none(path_str)", False)}), "pathlib.Path(*(_v0 for _v0 in path_str.split('/') if len(_v0) > 0))")}
        ps = A.single_def_value(fs, "path_str")
        ok = okn and set(pv) == alt and (ps is None or norm(ps).replace("match['path']", "match.group('path')") == "match.group('path')")
        det = "from_str builds the path as %s" % [(fmt_c(c), v) for c, v in pv]
    rep.check(ok, "RT-P", "parse form", fs.node, "parse splits the path group on '/' dropping only empty segments", det)
    # REL1
    mt = A.fn("parsing.task_index.TaskIndex._materialize_raw_task")
    ident = mt.params[1]
    ifs = [i for i in walk_local(mt.node) if isinstance(i, ast.If) and "is_relative_candidate" in norm(i.test)]
    ok = False
    det = "no is_relative_candidate branch"
    if len(ifs) == 1:
        i = ifs[0]
        dep = norm(i.test.args[0]) if isinstance(i.test, ast.Call) and i.test.args else "?"
        b = [norm(s.value) for s in i.body if isinstance(s, ast.Assign)]
        o = [norm(s.value) for s in i.orelse if isinstance(s, ast.Assign)]
        ok = b == ["TaskIdentifier.from_relative_str(%s, %s.path)" % (dep, ident)] and o == ["TaskIdentifier.from_str(%s)" % dep]
        det = "relative branch %s / absolute branch %s" % (b, o)
    elif not ifs:
        # the same choice written as a conditional expression
        ies = [i for i in walk_local(mt.node) if isinstance(i, ast.IfExp) and "is_relative_candidate" in norm(i.test)]
        if len(ies) == 1 and isinstance(ies[0].test, ast.Call) and ies[0].test.args:
            dep = norm(ies[0].test.args[0])
            b, o = [norm(ies[0].body)], [norm(ies[0].orelse)]
            ok = b == ["TaskIdentifier.from_relative_str(%s, %s.path)" % (dep, ident)] and o == ["TaskIdentifier.from_str(%s)" % dep]
            det = "relative branch %s / absolute branch %s" % (b, o)
    rep.check(ok, "REL1", "':name' resolves against the listing file's directory", mt.node, "", det)
    rc = A.fn(TI + "is_relative_candidate")
    r = [x for x in walk_local(rc.node) if isinstance(x, ast.Return)]
    rep.check(len(r) == 1 and norm(r[0].value) == "%s.startswith(':')" % rc.params[0], "REL1", "relative iff starts with ':'", rc.node, "", "is_relative_candidate changed")
    fr = A.fn(TI + "from_relative_str")
    r = [x for x in walk_local(fr.node) if isinstance(x, ast.Return)]
    rep.check(len(r) == 1 and norm(r[0].value).replace("match['name']", "match.group('name')") == "cls(%s, match.group('name'))" % fr.params[2], "REL1", "relative keeps the given directory", fr.node,
              "", "from_relative_str does not build (given dir, matched name)")
    # HASH1
    eq = A.fn(TI + "__eq__")
    r = [x for x in walk_local(eq.node) if isinstance(x, ast.Return)]
    d = A.dnf(r[0].value, True, eq) if len(r) == 1 else []
    o = eq.params[1]
    # the getters return the private fields (checked below), so `x.path` and `x._path` are the same value
    dn = [frozenset((a.replace("._path", ".path").replace("._name", ".name"), p_) for a, p_ in c) for c in d]
    rep.check(dn == [frozenset({("eq(%s.path,self.path)" % o, True), ("eq(%s.name,self.name)" % o, True)})], "HASH1", "eq on (path, name)", eq.node,
              "", "__eq__ is %s" % d)
    hs = A.fn(TI + "__hash__")
    r = [x for x in walk_local(hs.node) if isinstance(x, ast.Return)]
    rep.check(len(r) == 1 and norm(r[0].value) in ("hash(self.__repr__())", "hash(repr(self))", "hash((self._path, self._name))", "hash((self.path, self.name))"),
              "HASH1", "hash on (path, name)", hs.node, "", "__hash__ is not a function of (path, name)")
    for prop, field in (("path", "_path"), ("name", "_name")):
        pf = A.fn(TI + prop)
        r = [x for x in walk_local(pf.node) if isinstance(x, ast.Return)]
        rep.check(len(r) == 1 and norm(r[0].value) == "self." + field, "HASH1", "property %s" % prop, pf.node, "", "%s getter changed" % prop, deep=False)
    # distinct locations inside a combine directory: entries are named by the dependency's *name* only, so two
    # dependencies with the same name (from different directories) must be rejected
    from . import combine as CB
    CB.rule_cb3(A, rep)
    # gc maps directory names back to identifiers: its two patterns must describe exactly the names Conductor creates
    from . import fs as FSM
    FSM.rule_gc(A, rep)
    # restore must not merge an archived version into a directory that already exists (a different version's files)
    from . import archive_restore as AR
    AR.rule_rs2(A, rep)
    rule_cli_id(A, rep)
    # identifiers read back from a version index (possibly a foreign one, in an archive) are parsed by from_str too
    from . import vindex as VX
    VX.rule_vi2(A, rep)


def rule_cli_id(A, rep):
    """Every command that takes a task identifier hands the string to `TaskIdentifier.from_str` — the one grammar — unless
    the argument is absent, and "absent" means `is None` (argparse's value for a missing optional positional), never
    falsiness: the empty string is not a valid identifier and must be rejected like any other invalid string."""
    raw = []            # (function, text of the expression holding the raw string)
    for f in A.prog.scan_functions:
        if not f.fq.startswith("conductor.cli."):
            continue
        if any(isinstance(x, ast.Attribute) and norm(x) == "args.task_identifier" for x in walk_local(f.node)):
            raw.append((f, "args.task_identifier"))
    # one step through calls: a parameter that receives the raw string
    for (f, txt) in list(raw):
        for c in walk_local(f.node):
            if isinstance(c, ast.Call) and any(norm(a) == txt for a in list(c.args) + [k.value for k in c.keywords]):
                for cal in A.res.callees(c):
                    g_ = A.prog.functions.get(cal)
                    if g_ is None or g_.fq.startswith("conductor.task_identifier."):
                        continue        # the parser itself is where the string is taken apart
                    for p_, a in A.bind_args(c, g_).items():
                        if norm(a) == txt:
                            raw.append((g_, p_))
    n_tests = n_parse = 0
    for (f, txt) in raw:
        g = A.cfg(f, "plain")
        for n in g.nodes:
            if n.kind == "test" and n.ast is not None and any(norm(x) == txt for x in ast.walk(n.ast)):
                for pol in (True,):
                    for conj in A.dnf(n.ast, pol, f, inline=False):
                        for a, _p in conj:
                            if a in ("none(%s)" % txt, "t(%s)" % txt, "empty(%s)" % txt) or a.startswith(("eq(%s," % txt, "in(%s," % txt)) or a.endswith(",%s)" % txt):
                                n_tests += 1
                                rep.check(a == "none(%s)" % txt, "CLI-ID", "absent identifier = None (%s in %s)" % (txt, f.fq.replace("conductor.", "")), n.ast,
                                          "", "`%s` is tested as `%s`: the empty string (and nothing else the grammar rejects) is treated as "
                                          "\"no identifier given\" instead of being rejected" % (txt, a))
        for c in A.calls_in(f.node, "TaskIdentifier.from_str"):
            if c.args and norm(c.args[0]) == txt:
                n_parse += 1
                rep.ok("CLI-ID", "%s parsed by from_str in %s" % (txt, f.fq.replace("conductor.", "")), c, "", deep=False)
    if n_parse < 3 or n_tests < 1:
        raise AnalysisError("CLI-ID: anchors not found (%d from_str sites on the raw argument, %d tests)" % (n_parse, n_tests))

