"""C20 — Task identifiers: one grammar, canonical form, distinct output locations."""
import ast

from ..model import AnalysisError, NOFOLD, norm, walk_local
from ..regex_auto import accepted_chars
from . import regexes as RX

META = {
    "explanation": "Exact language equality (regex automata incl. the calling method and `$` vs `\\Z`) of the three identifier "
                   "patterns with the documented grammar (RX1); alphabet facts that make name.task[.version] uniquely decodable "
                   "(RX2); print/parse tables (RT-P); resolution of ':name' against the listing COND file's directory (REL1); "
                   "__eq__/__hash__ agreement (HASH1).",
    "rules": ["RX1", "RX2", "RT-P", "REL1", "HASH1"],
    "assumptions": ["re._parser's AST is the engine's semantics (cross-checked on the witnesses in the engine self-check)"],
    "trusted": ["ast parser", "re._parser", "constant folder"],
    "technique": "static analysis: regex AST → symbolic-alphabet DFA language equivalence, plus AST agreement rules",
}

ROLE = {"is_name_valid": "NAME", "from_str": "IDENT", "from_relative_str": "REL"}


def run(A, rep, tier):
    m = A.prog.module("task_identifier")
    regs = RX.compiled_regexes(A, m)
    seen_roles = set()
    name_pat = None
    for name, (pat, call) in sorted(regs.items()):
        us = RX.uses(A, m, name)
        if not us:
            rep.unknown("RX1", name, call, "compiled pattern is never used")
            continue
        for (fn, method, c) in us:
            role = ROLE.get(fn)
            if role is None:
                rep.bad("RX1", "%s in %s" % (name, fn), c, "identifier pattern used in an unexpected function")
                continue
            seen_roles.add(role)
            if role == "NAME":
                name_pat = pat
            RX.check_language(A, rep, "RX1", "%s grammar (%s.%s)" % (role, name, method), pat, method, role, c)
    for role in ("NAME", "IDENT", "REL"):
        if role not in seen_roles:
            rep.bad("RX1", "%s grammar" % role, m.tree, "no compiled pattern is applied in %s" % [k for k, v in ROLE.items() if v == role][0])
    rep.expect_min("RX1", 3)
    # the boolean / raise built on the match result
    TI = "task_identifier.TaskIdentifier."
    f = A.fn(TI + "is_name_valid")
    r = [x for x in walk_local(f.node) if isinstance(x, ast.Return)]
    ok = len(r) == 1 and isinstance(r[0].value, ast.Compare) and isinstance(r[0].value.ops[0], ast.IsNot) and norm(r[0].value.comparators[0]) == "None" \
        and norm(r[0].value.left).endswith("(%s)" % f.params[0])
    rep.check(ok, "RX1", "is_name_valid = match is not None", f.node, "", "is_name_valid does not return `<pattern>.match(candidate) is not None`")
    for fn in ("from_str", "from_relative_str"):
        f = A.fn(TI + fn)
        g = A.cfg(f, "plain")
        ifs = [n for n in g.nodes if n.kind == "test" and norm(n.ast) == "match is None"]
        ok = False
        if ifs:
            t_succ = [x for (x, l) in ifs[0].succ if l == "T"]
            ok = all(isinstance(x.ast, ast.Raise) and "InvalidTaskIdentifier" in norm(x.ast) for x in t_succ) and bool(t_succ)
            ok = ok and g.all_paths_pass(g.entry, g.exit, ifs)
        rep.check(ok, "RX1", "%s rejects non-matches" % fn, f.node, "a failed match raises InvalidTaskIdentifier before anything is returned",
                  "%s can return an identifier although the pattern did not match" % fn)
    f = A.fn(TI + "from_str")
    pref = [i for i in walk_local(f.node) if isinstance(i, ast.If) and "require_prefix" in norm(i.test)]
    ok = len(pref) == 1 and A.dnf(pref[0].test, True, f) == [frozenset({("t(require_prefix)", True), ("t(candidate.startswith('//'))", False)})] \
        and any(isinstance(x, ast.Raise) for x in pref[0].body)
    rep.check(ok, "RX1", "require_prefix enforced", f.node, "", "from_str no longer rejects identifiers without // when require_prefix is set")

    # RX2 alphabet facts
    if name_pat is None:
        raise AnalysisError("no NAME pattern found")
    alpha = accepted_chars(name_pat)
    badc = sorted(c for c in (".", "/", ":", "\n", " ") if c in alpha)
    rep.check(not badc, "RX2", "separators not in the name alphabet", m.tree, "'.', '/', ':', newline and space cannot occur in a name",
              "the name alphabet contains separator character(s) %r — two identifiers/versions could share an output directory" % badc)
    suffix = A.prog.fold_fq("conductor.config.TASK_OUTPUT_DIR_SUFFIX")
    rep.check(isinstance(suffix, str) and suffix[:1] not in alpha and suffix != "", "RX2", "suffix starts outside the alphabet", None,
              "TASK_OUTPUT_DIR_SUFFIX=%r" % (suffix,), "TASK_OUTPUT_DIR_SUFFIX %r does not start with a character outside the name alphabet" % (suffix,))
    tod = A.fn("filename.task_output_dir")
    from ..analysis import strparts
    g = A.cfg(tod, "plain")
    p0, p1 = tod.params[0], tod.params[1]
    rets = [n for n in g.nodes if n.kind == "stmt" and isinstance(n.ast, ast.Return)]
    forms = {}
    for n in rets:
        parts = strparts(A.expand(n.ast.value, tod))
        gs = A.path_guards(g, g.entry, n, tod)
        forms[tuple(parts) if parts is not None else ("?",)] = sorted(sorted(c) for c in gs)
    want = {("%s.name" % p0, "TASK_OUTPUT_DIR_SUFFIX"): [[("none(%s)" % p1, True)]],
            ("%s.name" % p0, "TASK_OUTPUT_DIR_SUFFIX", "'.'", "str(%s)" % p1): [[("none(%s)" % p1, False)]]}
    rep.check(forms == want, "RX2", "directory name = name + suffix [+ '.' + version]", tod.node, "the version suffix is '.' + str(version), added iff a version is given",
              "task_output_dir builds %s" % forms)
    vs = A.fn("execution.version_index.Version.__str__")
    r = [x for x in walk_local(vs.node) if isinstance(x, ast.Return)]
    rep.check(len(r) == 1 and norm(r[0].value) == "str(self._timestamp)", "RX2", "str(version) is the timestamp", vs.node, "", "Version.__str__ is not str(timestamp)")
    # output path = ctx.output_path / identifier.path / task_output_dir(identifier)
    bi = A.fn("task_types.base.TaskType.__init__")
    st = [s for s in walk_local(bi.node) if isinstance(s, ast.Assign) and norm(s.targets[0]) == "self._output_path_suffix"]
    rep.check(len(st) == 1 and norm(st[0].value) == "pathlib.Path(self.identifier.path, f.task_output_dir(self.identifier))", "RX2", "location = path / dirname", bi.node,
              "", "the output location is not identifier.path / task_output_dir(identifier)")
    go = A.fn("task_types.base.TaskType.get_output_path")
    r = [x for x in walk_local(go.node) if isinstance(x, ast.Return)]
    rep.check(len(r) == 1 and norm(r[0].value) == "%s.output_path / self._output_path_suffix" % go.params[1], "RX2", "rooted under cond-out", go.node,
              "", "get_output_path is not ctx.output_path / suffix")

    # RT-P print/parse
    rp = A.fn(TI + "__repr__")
    r = [x for x in walk_local(rp.node) if isinstance(x, ast.Return)]
    rep.check(len(r) == 1 and norm(r[0].value) == "''.join(['//', '/'.join(self._path.parts), ':', self._name])", "RT-P", "print form", rp.node,
              "repr = '//' + '/'.join(path.parts) + ':' + name", "__repr__ is `%s`" % (norm(r[0].value) if r else "?"))
    fs = A.fn(TI + "from_str")
    r = [x for x in walk_local(fs.node) if isinstance(x, ast.Return)]
    ok = len(r) == 1 and norm(r[0].value) == "cls(path=path, name=match.group('name'))"
    pv = [norm(d.value) for d in A.defs(fs, "path") if isinstance(d, ast.Assign)]
    ok = ok and sorted(pv) == sorted(["pathlib.Path()", "pathlib.Path(*filter(lambda s: len(s) > 0, path_str.split('/')))"])
    ps = A.single_def_value(fs, "path_str")
    ok = ok and ps is not None and norm(ps) == "match.group('path')"
    rep.check(ok, "RT-P", "parse form", fs.node, "parse splits the path group on '/' dropping only empty segments",
              "from_str builds the identifier differently: path from %s" % pv)
    # REL1
    mt = A.fn("parsing.task_index.TaskIndex._materialize_raw_task")
    ident = mt.params[1]
    ifs = [i for i in walk_local(mt.node) if isinstance(i, ast.If) and "is_relative_candidate" in norm(i.test)]
    ok = False
    det = "no is_relative_candidate branch"
    if len(ifs) == 1:
        i = ifs[0]
        dep = norm(i.test.args[0]) if isinstance(i.test, ast.Call) and i.test.args else "?"
        b = [norm(s.value) for s in i.body if isinstance(s, ast.Assign)]
        o = [norm(s.value) for s in i.orelse if isinstance(s, ast.Assign)]
        ok = b == ["TaskIdentifier.from_relative_str(%s, %s.path)" % (dep, ident)] and o == ["TaskIdentifier.from_str(%s)" % dep]
        det = "relative branch %s / absolute branch %s" % (b, o)
    rep.check(ok, "REL1", "':name' resolves against the listing file's directory", mt.node, "", det)
    rc = A.fn(TI + "is_relative_candidate")
    r = [x for x in walk_local(rc.node) if isinstance(x, ast.Return)]
    rep.check(len(r) == 1 and norm(r[0].value) == "%s.startswith(':')" % rc.params[0], "REL1", "relative iff starts with ':'", rc.node, "", "is_relative_candidate changed")
    fr = A.fn(TI + "from_relative_str")
    r = [x for x in walk_local(fr.node) if isinstance(x, ast.Return)]
    rep.check(len(r) == 1 and norm(r[0].value) == "cls(path=%s, name=match.group('name'))" % fr.params[2], "REL1", "relative keeps the given directory", fr.node,
              "", "from_relative_str does not build (given dir, matched name)")
    # HASH1
    eq = A.fn(TI + "__eq__")
    r = [x for x in walk_local(eq.node) if isinstance(x, ast.Return)]
    d = A.dnf(r[0].value, True, eq) if len(r) == 1 else []
    o = eq.params[1]
    rep.check(d == [frozenset({("eq(%s.path,self.path)" % o, True), ("eq(%s.name,self.name)" % o, True)})], "HASH1", "eq on (path, name)", eq.node,
              "", "__eq__ is %s" % d)
    hs = A.fn(TI + "__hash__")
    r = [x for x in walk_local(hs.node) if isinstance(x, ast.Return)]
    rep.check(len(r) == 1 and norm(r[0].value) in ("hash(self.__repr__())", "hash(repr(self))", "hash((self._path, self._name))", "hash((self.path, self.name))"),
              "HASH1", "hash on (path, name)", hs.node, "", "__hash__ is not a function of (path, name)")
    for prop, field in (("path", "_path"), ("name", "_name")):
        pf = A.fn(TI + prop)
        r = [x for x in walk_local(pf.node) if isinstance(x, ast.Return)]
        rep.check(len(r) == 1 and norm(r[0].value) == "self." + field, "HASH1", "property %s" % prop, pf.node, "", "%s getter changed" % prop, deep=False)
