"""C01 — Dependencies finish successfully before a task starts."""
from . import executor as E, planner as P, runtask as R

META = {
    "explanation": "Static conformance of the planner's lowering (PL1–PL5: every dependency's op is linked in both "
                   "directions before an op is registered; a task is lowered once) and of the executor's gating "
                   "(EX1–EX5: enqueue only at waiting_on==0 after the decrement, start only under exe_deps_succeeded(), "
                   "SUCCEEDED only after finish_execution returned) on every path of the CFGs. Decides the structural "
                   "necessary conditions listed in DESIGN §4.C01, not the run-time ordering itself. The exit status a dependency is given is that of its own reaped pid, from the single reaper (RT10, SG8, INF1).",
    "rules": ["PL1", "PL2", "PL3", "PL10", "W1(planner)", "PL5", "EX1", "EX2", "EX3", "EX4", "EX5", "EX6", "SGc", "RT1", "RT10", "SG8", "INF1", "PL7"],
    "assumptions": ["CPython statement semantics", "an op leaves the in-flight set only when its own pid was reaped (C09)",
                    "hand argument of DESIGN §4.C01 that the rules imply the ordering by induction on the op graph"],
    "trusted": ["ast parser", "own call resolver (unresolved calls counted in coverage.analysed)"],
}


def run(A, rep, tier):
    F = P.rules_planner_links(A, rep)
    P.rule_w1_planner(A, rep, F)
    X = E.ExecFacts(A)
    E.rule_ex1(A, rep, X)
    E.rule_ex2(A, rep, X)
    E.rule_ex3(A, rep, X)
    E.rule_ex4(A, rep, X)
    E.rule_ex5(A, rep, X)
    E.rule_ex6(A, rep, X, stop_rules=False)
    # 'exited with status 0': a signalled child must never be recorded as 0, and a non-zero code must fail the op
    R.rule_sgc(A, rep)
    R.rule_rt1(A, rep)
    # "has exited with status 0" is only as good as the status attribution: one reaper, and a status is given to the
    # process whose pid was reaped (a dependency must never be handed another child's — or a made-up — status 0)
    from . import reaping as RP
    RP.rule_rt10(A, rep)
    RP.rule_sg8(A, rep)
    RP.rule_inf1(A, rep)
    # only RunExperiment decides caching: another task type answering "cached" for itself (from its members' answers) is
    # pruned from the plan together with the edges that ordered its dependents after those members
    P.rule_pl7_overriders(A, rep)
