"""Source-to-source preprocessing: calls to *unknown private helpers* are inlined.

"Extract method/function" is the most common behaviour-preserving refactoring;
the rules of this repository are intraprocedural over anchor functions that were
confirmed by reading.  A function that is not in the frozen inventory of the
functions known to the rules (`known_functions.txt`) and that is called from the
same module with a receiver/argument shape we can bind syntactically is inlined
back into its caller(s) before any analysis, so that the caller is analysed as
if the helper had never been extracted.  The helper itself stays in the module
(marked `_inlined`) and is skipped by the package-wide inventories, because its
statements are now counted at the call site.

Only helpers in "tail-return form" are inlined (every `return` ends the
function in an if/else/with tail position); anything else is left alone and
analysed as a call, exactly as before.  Nothing here can raise an alarm by
itself."""
from __future__ import annotations

import ast
import copy
import pathlib
from typing import Dict, List, Optional, Set, Tuple

KNOWN_FILE = pathlib.Path(__file__).with_name("known_functions.txt")


def load_known() -> Optional[Set[str]]:
    if not KNOWN_FILE.exists():
        return None
    return {l.strip() for l in KNOWN_FILE.read_text().splitlines() if l.strip() and not l.startswith("#")}


class NotInlinable(Exception):
    pass


def _has(node: ast.AST, types) -> bool:
    for n in ast.walk(node):
        if isinstance(n, types):
            return True
    return False


def _contains_return(st: ast.stmt) -> bool:
    for n in _walk_no_defs(st):
        if isinstance(n, ast.Return):
            return True
    return False


def _walk_no_defs(node):
    stack = [node]
    first = True
    while stack:
        n = stack.pop()
        yield n
        if not first and isinstance(n, (ast.FunctionDef, ast.AsyncFunctionDef, ast.ClassDef, ast.Lambda)):
            continue
        first = False
        stack.extend(ast.iter_child_nodes(n))


def _conv(stmts: List[ast.stmt], repl) -> Tuple[List[ast.stmt], bool]:
    """Rewrite `return E` statements in tail position with repl(E); returns
    (new statements, terminated?).  Raises NotInlinable for other shapes."""
    out: List[ast.stmt] = []
    for i, st in enumerate(stmts):
        if isinstance(st, ast.Return):
            out.extend(repl(st))
            return out, True
        if isinstance(st, ast.If) and _contains_return(st):
            b, bt = _conv(st.body, repl)
            o, ot = _conv(st.orelse, repl)
            rest = stmts[i + 1:]
            if bt and ot:
                out.append(ast.If(test=st.test, body=b or [ast.Pass()], orelse=o))
                return out, True
            r, rt = _conv(rest, repl)
            if bt:
                out.append(ast.If(test=st.test, body=b or [ast.Pass()], orelse=o + r))
            else:
                out.append(ast.If(test=st.test, body=(b + r) or [ast.Pass()], orelse=o or []))
            return out, rt
        if isinstance(st, ast.With) and _contains_return(st) and i == len(stmts) - 1:
            b, bt = _conv(st.body, repl)
            out.append(ast.With(items=st.items, body=b or [ast.Pass()]))
            return out, bt
        if isinstance(st, ast.Try) and _contains_return(st) and i == len(stmts) - 1 and not any(_contains_return(x) for x in st.finalbody):
            b, bt = _conv(st.body, repl)
            hs = []
            allt = bt
            for h in st.handlers:
                hb, ht = _conv(h.body, repl)
                hs.append(ast.ExceptHandler(type=h.type, name=h.name, body=hb or [ast.Pass()]))
                allt = allt and ht
            o, ot = _conv(st.orelse, repl) if st.orelse else ([], True)
            out.append(ast.Try(body=b or [ast.Pass()], handlers=hs, orelse=o, finalbody=st.finalbody))
            return out, allt and (ot or not st.orelse)
        if isinstance(st, ast.Raise):
            out.append(st)
            return out, True
        if isinstance(st, ast.Try) and _contains_return(st) and not st.finalbody and not any(_contains_return(x) for x in st.body) \
                and not any(_contains_return(x) for x in st.orelse) and st.handlers:
            # `try: B except …: <terminates>` followed by REST  ≡  `try: B except …: … else: REST`
            hs = []
            all_term = True
            for h in st.handlers:
                hb, ht = _conv(h.body, repl)
                hs.append(ast.ExceptHandler(type=h.type, name=h.name, body=hb or [ast.Pass()]))
                all_term = all_term and ht
            if all_term:
                r, rt = _conv(stmts[i + 1:], repl)
                out.append(ast.Try(body=st.body, handlers=hs, orelse=list(st.orelse) + r, finalbody=[]))
                return out, rt
        if _contains_return(st):
            raise NotInlinable("return inside %s" % type(st).__name__)
        out.append(st)
    return out, False


def _returns_at_loop_depth(loop) -> bool:
    """True iff every `return` inside `loop` sits at loop depth 1 (not in a nested loop / def)."""
    def walk(stmts, depth_ok):
        for st in stmts:
            if isinstance(st, ast.Return):
                if not depth_ok:
                    return False
            elif isinstance(st, (ast.While, ast.For)):
                if _contains_return(st):
                    return False
            elif isinstance(st, (ast.FunctionDef, ast.AsyncFunctionDef, ast.ClassDef)):
                continue
            else:
                for field in ("body", "orelse", "finalbody"):
                    blk = getattr(st, field, None)
                    if isinstance(blk, list) and blk and isinstance(blk[0], ast.stmt):
                        if not walk(blk, depth_ok):
                            return False
                for h in getattr(st, "handlers", []) or []:
                    if not walk(h.body, depth_ok):
                        return False
        return True
    return walk(loop.body, True)


def _has_break_at_depth1(loop, kinds=(ast.Break,)) -> bool:
    def walk(stmts):
        for st in stmts:
            if isinstance(st, kinds):
                return True
            if isinstance(st, (ast.While, ast.For, ast.FunctionDef, ast.AsyncFunctionDef, ast.ClassDef)):
                continue
            for field in ("body", "orelse", "finalbody"):
                blk = getattr(st, field, None)
                if isinstance(blk, list) and blk and isinstance(blk[0], ast.stmt) and walk(blk):
                    return True
            for h in getattr(st, "handlers", []) or []:
                if walk(h.body):
                    return True
        return False
    return walk(loop.body)


class _RetToBreak(ast.NodeTransformer):
    def __init__(self, repl):
        self.repl = repl

    def visit_Return(self, n):
        return self.repl(n) + [ast.Break()]

    def visit_While(self, n):
        return n

    def visit_For(self, n):
        return n

    def visit_FunctionDef(self, n):
        return n

    def visit_Lambda(self, n):
        return n


def _conv_loop_tail(stmts: List[ast.stmt], repl, mode) -> List[ast.stmt]:
    """Helpers of the form `<straight-line statements>; <loop>` whose returns are all directly inside the final
    loop: `return E` becomes `<use E>; break`.  Sound because nothing follows the loop in the helper."""
    # search-loop form: `<loop with returns>; return C` — the loop gets an `else` clause that produces C
    if len(stmts) >= 2 and isinstance(stmts[-1], ast.Return) and isinstance(stmts[-2], (ast.While, ast.For)):
        loop = stmts[-2]
        if loop.orelse or any(_contains_return(st) for st in stmts[:-2]) or not _returns_at_loop_depth(loop) or _has_break_at_depth1(loop):
            raise NotInlinable("not search-loop form")
        tr = _RetToBreak(repl)
        new_body = []
        for st in loop.body:
            r = tr.visit(st)
            new_body.extend(r if isinstance(r, list) else [r])
        orelse = repl(stmts[-1]) or []
        if isinstance(loop, ast.While):
            new_loop = ast.While(test=loop.test, body=new_body, orelse=orelse)
        else:
            new_loop = ast.For(target=loop.target, iter=loop.iter, body=new_body, orelse=orelse, type_comment=None)
        return list(stmts[:-2]) + [new_loop]
    if not stmts or not isinstance(stmts[-1], (ast.While, ast.For)):
        raise NotInlinable("not loop-tail form")
    loop = stmts[-1]
    if loop.orelse or any(_contains_return(st) for st in stmts[:-1]) or not _returns_at_loop_depth(loop):
        raise NotInlinable("returns outside the final loop")
    if mode != "drop":
        # a value is produced: the loop must be left only through `return`
        forever = isinstance(loop, ast.While) and isinstance(loop.test, ast.Constant) and loop.test.value is True
        if not forever or _has_break_at_depth1(loop):
            raise NotInlinable("loop can end without returning")
    tr = _RetToBreak(repl)
    new_body = []
    for st in loop.body:
        r = tr.visit(st)
        new_body.extend(r if isinstance(r, list) else [r])
    if isinstance(loop, ast.While):
        new_loop = ast.While(test=loop.test, body=new_body, orelse=[])
    else:
        new_loop = ast.For(target=loop.target, iter=loop.iter, body=new_body, orelse=[], type_comment=None)
    return list(stmts[:-1]) + [new_loop]


class _Subst(ast.NodeTransformer):
    def __init__(self, mapping: Dict[str, ast.expr], rename: Dict[str, str]):
        self.mapping = mapping
        self.rename = rename

    def visit_Name(self, n: ast.Name):
        if isinstance(n.ctx, ast.Load) and n.id in self.mapping:
            return copy.deepcopy(self.mapping[n.id])
        if n.id in self.rename:
            return ast.copy_location(ast.Name(id=self.rename[n.id], ctx=n.ctx), n)
        return n

    def visit_FunctionDef(self, n):
        return n  # nested defs keep their own scope (rare in helpers)

    def visit_Lambda(self, n):
        # lambda parameters shadow
        shadow = {a.arg for a in n.args.args}
        inner = _Subst({k: v for k, v in self.mapping.items() if k not in shadow}, {k: v for k, v in self.rename.items() if k not in shadow})
        n.body = inner.visit(n.body)
        return n


def _names_read_by_enclosing_handlers(caller: ast.FunctionDef, call: ast.Call) -> Set[str]:
    out: Set[str] = set()
    for t in _walk_no_defs(caller):
        if isinstance(t, ast.Try) and any(c is call for b in t.body for c in ast.walk(b)):
            for part in list(t.handlers) + list(t.finalbody):
                for n in ast.walk(part):
                    if isinstance(n, ast.Name) and isinstance(n.ctx, ast.Load):
                        out.add(n.id)
    return out


def _assigned(fn: ast.FunctionDef) -> Set[str]:
    out = set()
    for n in _walk_no_defs(fn):
        if isinstance(n, ast.Name) and isinstance(n.ctx, (ast.Store, ast.Del)):
            out.add(n.id)
        elif isinstance(n, ast.ExceptHandler) and n.name:
            out.add(n.name)
    return out


def _names(fn: ast.FunctionDef) -> Set[str]:
    out = {a.arg for a in fn.args.args + fn.args.kwonlyargs + fn.args.posonlyargs}
    for n in _walk_no_defs(fn):
        if isinstance(n, ast.Name):
            out.add(n.id)
    return out


def _simple(e: ast.expr) -> bool:
    if isinstance(e, (ast.Name, ast.Constant)):
        return True
    if isinstance(e, ast.Attribute):
        return _simple(e.value)
    if isinstance(e, ast.Subscript):
        return _simple(e.value) and _simple(e.slice)
    if isinstance(e, ast.Slice):
        return all(x is None or _simple(x) for x in (e.lower, e.upper, e.step))
    return False


def _pure_value(e: ast.expr) -> bool:
    """Built from constants, names and attributes by string formatting / concatenation only (no effects, no order to keep)."""
    if isinstance(e, (ast.Constant, ast.Name)):
        return True
    if isinstance(e, ast.Attribute):
        return _pure_value(e.value)
    if isinstance(e, ast.BinOp):
        return _pure_value(e.left) and _pure_value(e.right)
    if isinstance(e, ast.JoinedStr):
        return all(_pure_value(v) for v in e.values)
    if isinstance(e, ast.FormattedValue):
        return _pure_value(e.value)
    if isinstance(e, (ast.Tuple, ast.List)):
        return all(_pure_value(v) for v in e.elts)
    if isinstance(e, ast.Call) and isinstance(e.func, ast.Name) and e.func.id in ("str", "repr") and len(e.args) == 1 and not e.keywords:
        return _pure_value(e.args[0])
    if isinstance(e, ast.Call) and isinstance(e.func, ast.Attribute) and e.func.attr in ("format", "join") and isinstance(e.func.value, ast.Constant) \
            and isinstance(e.func.value.value, str):
        return all(_pure_value(a) for a in e.args) and all(k.arg is not None and _pure_value(k.value) for k in e.keywords)
    return False


def _body_wo_doc(fn: ast.FunctionDef) -> List[ast.stmt]:
    b = list(fn.body)
    if b and isinstance(b[0], ast.Expr) and isinstance(b[0].value, ast.Constant) and isinstance(b[0].value.value, str):
        b = b[1:]
    return b


class Inliner:
    def __init__(self, module_name: str, tree: ast.Module, known: Set[str], foreign: Optional[Dict[str, tuple]] = None):
        self.mod = module_name
        self.tree = tree
        self.known = known
        # unknown helpers defined in *other* modules/classes, by their (package-wide unique) simple name:
        # name -> (fq, FunctionDef, is_method, module name)
        self.foreign = foreign or {}
        self.module_names: Set[str] = set(dir(__import__("builtins")))
        for st in ast.walk(tree):
            if isinstance(st, (ast.Import, ast.ImportFrom)):
                for a in st.names:
                    self.module_names.add((a.asname or a.name).split(".")[0])
        for st in tree.body:
            if isinstance(st, (ast.FunctionDef, ast.ClassDef)):
                self.module_names.add(st.name)
            elif isinstance(st, (ast.Assign, ast.AnnAssign)):
                for n in ast.walk(st):
                    if isinstance(n, ast.Name) and isinstance(n.ctx, ast.Store):
                        self.module_names.add(n.id)
        self.inlined: Set[str] = set()   # fq names of helpers that were inlined somewhere
        self.count = 0
        self._k = 0
        # index of definitions
        self.top: Dict[str, ast.FunctionDef] = {}
        self.classes: Dict[str, ast.ClassDef] = {}
        for st in tree.body:
            if isinstance(st, ast.FunctionDef):
                self.top[st.name] = st
            elif isinstance(st, ast.ClassDef):
                self.classes[st.name] = st

    def unknown(self, fq: str) -> bool:
        return fq not in self.known

    def run(self):
        for _round in range(3):
            before = self.count
            for st in self.tree.body:
                if isinstance(st, ast.FunctionDef):
                    self._process(st, self.mod + "." + st.name, None)
                elif isinstance(st, ast.ClassDef):
                    for m in st.body:
                        if isinstance(m, ast.FunctionDef):
                            self._process(m, "%s.%s.%s" % (self.mod, st.name, m.name), st)
            # module-level statements: calls to single-expression helpers (a constant built through a small function)
            dummy = ast.FunctionDef(name="<module>", args=ast.arguments(posonlyargs=[], args=[], kwonlyargs=[], kw_defaults=[], defaults=[]),
                                    body=[], decorator_list=[], returns=None, type_comment=None)
            for st in self.tree.body:
                if isinstance(st, (ast.Assign, ast.AnnAssign)) and st.value is not None:
                    self._expr_calls(st, dummy, self.mod, None)
            if self.count == before:
                break

    # -- callee lookup
    def _callee(self, call: ast.Call, cls: Optional[ast.ClassDef], caller: ast.FunctionDef, caller_fq: str):
        f = call.func
        if isinstance(f, ast.Name):
            for st in _walk_no_defs(caller):
                pass
            # nested helper of the caller
            for st in caller.body:
                if isinstance(st, ast.FunctionDef) and st.name == f.id and self.unknown(caller_fq + "." + f.id):
                    return st, caller_fq + "." + f.id, None
            if f.id in self.top and self.unknown(self.mod + "." + f.id):
                return self.top[f.id], self.mod + "." + f.id, None
            return None
        if isinstance(f, ast.Attribute) and isinstance(f.value, ast.Name) and cls is not None:
            recv = f.value.id
            if recv in ("self", "cls") or recv == cls.name:
                for m in cls.body:
                    if isinstance(m, ast.FunctionDef) and m.name == f.attr:
                        fq = "%s.%s.%s" % (self.mod, cls.name, m.name)
                        if self.unknown(fq):
                            return m, fq, f.value
        # a helper that lives in another class / module, identified by its package-wide unique name
        if isinstance(f, ast.Attribute) and f.attr in self.foreign and _simple(f.value):
            fq, fn, is_method, mod = self.foreign[f.attr]
            if is_method and fn is not caller and self._portable(fn, mod):
                return fn, fq, f.value
        if isinstance(f, ast.Name) and f.id in self.foreign and f.id in self.module_names:
            fq, fn, is_method, mod = self.foreign[f.id]
            if not is_method and mod != self.mod and self._portable(fn, mod):
                return fn, fq, None
        return None

    def _portable(self, fn: ast.FunctionDef, mod: str) -> bool:
        """A body can be moved into this module iff its free names mean the same here (builtins or names
        this module binds as well)."""
        if mod == self.mod:
            return True
        local = _assigned(fn) | {a.arg for a in fn.args.posonlyargs + fn.args.args + fn.args.kwonlyargs}
        for n in _walk_no_defs(fn):
            if isinstance(n, ast.Name) and isinstance(n.ctx, ast.Load) and n.id not in local and n.id not in self.module_names:
                return False
        return True

    def _inlinable(self, fn: ast.FunctionDef) -> bool:
        decos = {ast.unparse(d) for d in fn.decorator_list}
        if decos - {"staticmethod", "classmethod"}:
            return False
        if fn.args.vararg or fn.args.kwarg:
            return False
        if _has(fn, (ast.Yield, ast.YieldFrom, ast.Await, ast.Global, ast.Nonlocal)):
            return False
        return True

    def _bind(self, fn: ast.FunctionDef, call: ast.Call, recv: Optional[ast.expr], caller: ast.FunctionDef):
        decos = {ast.unparse(d) for d in fn.decorator_list}
        params = [a.arg for a in fn.args.posonlyargs + fn.args.args]
        kwonly = [a.arg for a in fn.args.kwonlyargs]
        defaults: Dict[str, ast.expr] = {}
        pos = fn.args.posonlyargs + fn.args.args
        for a, d in zip(pos[len(pos) - len(fn.args.defaults):], fn.args.defaults):
            defaults[a.arg] = d
        for a, d in zip(fn.args.kwonlyargs, fn.args.kw_defaults):
            if d is not None:
                defaults[a.arg] = d
        mapping: Dict[str, ast.expr] = {}
        if recv is not None and "staticmethod" not in decos and params:
            mapping[params[0]] = recv
            params = params[1:]
        if any(isinstance(a, ast.Starred) for a in call.args) or any(k.arg is None for k in call.keywords):
            raise NotInlinable("star args")
        if len(call.args) > len(params):
            raise NotInlinable("arity")
        for p_, a in zip(params, call.args):
            mapping[p_] = a
        for k in call.keywords:
            if k.arg not in params + kwonly:
                raise NotInlinable("unknown keyword")
            mapping[k.arg] = k.value
        for p_ in params + kwonly:
            if p_ not in mapping:
                if p_ in defaults:
                    mapping[p_] = defaults[p_]
                else:
                    raise NotInlinable("missing argument")
        return mapping

    def _expand(self, fn: ast.FunctionDef, call: ast.Call, recv, caller: ast.FunctionDef, mode) -> List[ast.stmt]:
        mapping = self._bind(fn, call, recv, caller)
        assigned = _assigned(fn)
        caller_names = _names(caller)
        rename: Dict[str, str] = {}
        pre: List[ast.stmt] = []
        subst: Dict[str, ast.expr] = {}
        self._k += 1
        for p_, a in mapping.items():
            if p_ in assigned or not _simple(a):
                # bind through a local (evaluated once, in order)
                nm = p_ if p_ not in caller_names else "%s__h%d" % (p_, self._k)
                pre.append(ast.Assign(targets=[ast.Name(id=nm, ctx=ast.Store())], value=copy.deepcopy(a)))
                if nm != p_:
                    rename[p_] = nm
            else:
                subst[p_] = a
        target_names = set()
        if isinstance(mode, tuple):
            for n in ast.walk(mode[1]):
                if isinstance(n, ast.Name):
                    target_names.add(n.id)
        # Soundness for exceptional exits: in the real program the assignment `t = helper()` does not happen when the
        # helper is left by an exception, so a handler / finally of the caller that reads `t` must not see a value the
        # helper bound half-way.  If such a handler encloses the call, the helper's locals never alias the target.
        if target_names & _names_read_by_enclosing_handlers(caller, call):
            target_names = set()
        for loc in assigned:
            if loc in mapping:
                continue
            if loc in caller_names and loc not in target_names:
                rename[loc] = "%s__h%d" % (loc, self._k)
        body = copy.deepcopy(_body_wo_doc(fn))

        def repl(ret: ast.Return) -> List[ast.stmt]:
            if mode == "keep":
                return [ret]
            if mode == "drop":
                if ret.value is not None and _has(ret.value, ast.Call):
                    return [ast.Expr(value=ret.value)]
                return []
            tgt = copy.deepcopy(mode[1])
            val = ret.value if ret.value is not None else ast.Constant(value=None)
            if ast.dump(tgt).replace("Store()", "Load()") == ast.dump(val):
                return []  # `x = x`
            # `x = y` where y is a callee local that the caller never uses: avoid the alias by renaming
            return [ast.Assign(targets=[tgt], value=val)]
        if mode == "keep":
            # `return helper(...)`: the helper's own returns are the caller's returns, whatever its shape
            new = body
            last = new[-1] if new else None
            if not isinstance(last, (ast.Return, ast.Raise)):
                new = new + [ast.Return(value=None)]
        else:
            try:
                new, _term = _conv(body, repl)
            except NotInlinable:
                new = _conv_loop_tail(body, repl, mode)
        tr = _Subst(subst, rename)
        new = [tr.visit(s) for s in new]
        out = pre + new
        for s in out:
            ast.copy_location(s, call) if not hasattr(s, "lineno") else None
            ast.fix_missing_locations(s)
        return out or [ast.copy_location(ast.Pass(), call)]

    def _single_expr(self, fn: ast.FunctionDef) -> Optional[ast.expr]:
        b = _body_wo_doc(fn)
        if len(b) == 1 and isinstance(b[0], ast.Return) and b[0].value is not None:
            return b[0].value
        return None

    def _process(self, fn: ast.FunctionDef, fq: str, cls: Optional[ast.ClassDef]):
        # nested functions first
        for st in fn.body:
            if isinstance(st, ast.FunctionDef):
                self._process(st, fq + "." + st.name, cls)
        self._inline_new_properties(fn, cls)
        self._block(fn.body, fn, fq, cls)

    def _inline_new_properties(self, fn: ast.FunctionDef, cls: Optional[ast.ClassDef]):
        """`self.<p>` where <p> is a @property of this class that the reference tree does not have and whose body is a
        single `return <expr>`: the expression is read in place (a property somebody introduced to name a condition)."""
        props: Dict[str, ast.expr] = {}
        for m in (cls.body if cls is not None else []):
            if isinstance(m, ast.FunctionDef) and m is not fn and [ast.unparse(d) for d in m.decorator_list] == ["property"] \
                    and self.unknown("%s.%s.%s" % (self.mod, cls.name, m.name)) and len(m.args.args) == 1:
                e = self._single_expr(m)
                if e is not None and m.args.args[0].arg == "self":
                    props[m.name] = e
        # new properties of *other* classes, identified by a package-wide unique name (as for foreign helpers)
        fprops: Dict[str, Tuple[ast.expr, str]] = {}
        for nm_, (fq_, fdef_, _is_m, _mod) in self.foreign.items():
            if [ast.unparse(d) for d in fdef_.decorator_list] == ["property"] and len(fdef_.args.args) == 1 and fdef_ is not fn:
                e_ = self._single_expr(fdef_)
                if e_ is not None and (cls is None or fdef_ not in cls.body):
                    fprops[nm_] = (e_, fdef_.args.args[0].arg)
        if not props and not fprops:
            return
        inl = self

        class T(ast.NodeTransformer):
            def visit_Attribute(self, n):
                self.generic_visit(n)
                if isinstance(n.ctx, ast.Load) and isinstance(n.value, ast.Name) and n.value.id == "self" and n.attr in props:
                    inl.count += 1
                    inl.inlined.add("%s.%s.%s" % (inl.mod, cls.name, n.attr))
                    return ast.copy_location(copy.deepcopy(props[n.attr]), n)
                if isinstance(n.ctx, ast.Load) and n.attr in fprops and _simple(n.value) and not (isinstance(n.value, ast.Name) and n.value.id == "self"):
                    body_, selfname_ = fprops[n.attr]
                    inl.count += 1
                    inl.inlined.add(inl.foreign[n.attr][0])
                    return ast.copy_location(_Subst({selfname_: n.value}, {}).visit(copy.deepcopy(body_)), n)
                return n

            def visit_FunctionDef(self, n):
                return n

            def visit_Lambda(self, n):
                return n
        fn.body = [T().visit(b) if not isinstance(b, ast.FunctionDef) else b for b in fn.body]

    def _block(self, stmts: List[ast.stmt], fn, fq, cls):
        i = 0
        while i < len(stmts):
            st = stmts[i]
            replaced = None
            call = None
            mode = None
            if isinstance(st, ast.Expr) and isinstance(st.value, ast.Call):
                call, mode = st.value, "drop"
            elif isinstance(st, ast.Assign) and len(st.targets) == 1 and isinstance(st.value, ast.Call):
                call, mode = st.value, ("assign", st.targets[0])
            elif isinstance(st, ast.AnnAssign) and st.value is not None and isinstance(st.value, ast.Call):
                call, mode = st.value, ("assign", st.target)
            elif isinstance(st, ast.Return) and isinstance(st.value, ast.Call):
                call, mode = st.value, "keep"
            if call is not None:
                hit = self._callee(call, cls, fn, fq)
                if hit is not None and hit[0] is not fn and self._inlinable(hit[0]):
                    callee, cfq, recv = hit
                    try:
                        replaced = self._expand(callee, call, recv, fn, mode)
                        self.inlined.add(cfq)
                        self.count += 1
                    except NotInlinable:
                        replaced = None
            if replaced is not None:
                stmts[i:i + 1] = replaced
                i += len(replaced)
                continue
            # `if TEST(helper(...)): BODY` where the helper returns only True/False: the test is folded into each return
            # point of the inlined helper (so no flag variable is introduced)
            if isinstance(st, ast.If):
                rep_ = self._expand_bool_helper_if(st, fn, fq, cls)
                if rep_ is not None:
                    stmts[i:i + 1] = rep_
                    continue
            # `for T in gen(...): BODY` over an unknown generator helper of the simple producer form
            if isinstance(st, ast.For) and not st.orelse and isinstance(st.iter, ast.Call):
                rep_ = self._expand_generator_loop(st, fn, fq, cls)
                if rep_ is not None:
                    stmts[i:i + 1] = rep_
                    continue
            # expression-position calls to single-expression helpers
            self._expr_calls(st, fn, fq, cls)
            # `for T in [E for a in A for b in B if c]: BODY` (no break in BODY) → the nested loops it abbreviates
            if isinstance(st, ast.For) and not st.orelse and isinstance(st.iter, (ast.ListComp, ast.GeneratorExp)) \
                    and not _has_break_at_depth1(st) and not any(g_.is_async for g_ in st.iter.generators):
                stmts[i:i + 1] = self._desugar_comp_loop(st, fn)
                continue
            # `for k in ("a", "b"): BODY` over a short literal of constants (no break/continue) → BODY once per constant
            if isinstance(st, ast.For) and not st.orelse and isinstance(st.target, ast.Name) and isinstance(st.iter, (ast.Tuple, ast.List)) \
                    and 0 < len(st.iter.elts) <= 6 and all(isinstance(e_, ast.Constant) for e_ in st.iter.elts) \
                    and not _has_break_at_depth1(st, (ast.Break, ast.Continue)) \
                    and not any(isinstance(n_, ast.Name) and n_.id == st.target.id and isinstance(n_.ctx, ast.Store) for b_ in st.body for n_ in ast.walk(b_)):
                out_: List[ast.stmt] = []
                for e_ in st.iter.elts:
                    tr_ = _Subst({st.target.id: e_}, {})
                    out_.extend(tr_.visit(copy.deepcopy(b_)) for b_ in st.body)
                for s_ in out_:
                    ast.fix_missing_locations(s_)
                stmts[i:i + 1] = out_
                self.count += 1
                continue
            # a call to a multi-statement helper that is evaluated first inside a simple statement is hoisted:
            #   return f(helper(x))   →   <helper body, result in t>; return f(t)
            slot_ = "exc" if isinstance(st, ast.Raise) else "test" if isinstance(st, ast.If) else "value"
            if isinstance(st, (ast.Return, ast.Assign, ast.AnnAssign, ast.Expr, ast.Raise, ast.If)) and getattr(st, slot_, None) is not None:
                hc = self._first_evaluated_helper_call(getattr(st, slot_), fn, fq, cls)
                if hc is not None:
                    call, (callee, cfq, recv) = hc
                    self._k += 1
                    tmp = "_ret__h%d" % self._k
                    try:
                        pre = self._expand(callee, call, recv, fn, ("assign", ast.Name(id=tmp, ctx=ast.Store())))
                    except NotInlinable:
                        pre = None
                    if pre is not None:
                        class R(ast.NodeTransformer):
                            def visit_Call(self_, c):
                                if c is call:
                                    return ast.copy_location(ast.Name(id=tmp, ctx=ast.Load()), c)
                                return self_.generic_visit(c)
                        setattr(st, slot_, R().visit(getattr(st, slot_)))
                        self.inlined.add(cfq)
                        self.count += 1
                        # `t = E; raise t` / `return t` with t used nowhere else is `raise E`: keep the expression in place
                        last_ = pre[-1] if pre else None
                        cur_ = getattr(st, slot_)
                        if isinstance(last_, ast.Assign) and len(last_.targets) == 1 and isinstance(last_.targets[0], ast.Name) and last_.targets[0].id == tmp \
                                and isinstance(cur_, ast.Name) and cur_.id == tmp and isinstance(st, (ast.Raise, ast.Return)) \
                                and sum(1 for s_ in pre for n_ in ast.walk(s_) if isinstance(n_, ast.Name) and n_.id == tmp) == 1:
                            setattr(st, slot_, last_.value)
                            pre = pre[:-1]
                        stmts[i:i] = pre
                        i += len(pre)
            for field in ("body", "orelse", "finalbody"):
                blk = getattr(st, field, None)
                if isinstance(blk, list) and blk and isinstance(blk[0], ast.stmt) and not isinstance(st, (ast.FunctionDef, ast.ClassDef)):
                    self._block(blk, fn, fq, cls)
            for h in getattr(st, "handlers", []) or []:
                self._block(h.body, fn, fq, cls)
            i += 1

    def _expand_bool_helper_if(self, ifst: ast.If, fn, fq, cls) -> Optional[List[ast.stmt]]:
        hc = self._first_evaluated_helper_call(ifst.test, fn, fq, cls)
        if hc is None:
            return None
        call, (callee, cfq, recv) = hc
        rets = [r for r in _walk_no_defs(callee) if isinstance(r, ast.Return)]
        if not rets or not all(isinstance(r.value, ast.Constant) and isinstance(r.value.value, bool) for r in rets):
            return None
        simple = (ast.Return, ast.Continue, ast.Break, ast.Pass)
        if not all(isinstance(x, simple) for x in ifst.body + ifst.orelse):
            return None     # the continuation is duplicated into the helper's return points: keep it trivial

        def fold(e, val):
            """Value of the test with the helper call replaced by the constant `val`: a bool or a residual expression."""
            if e is call:
                return val
            if isinstance(e, ast.UnaryOp) and isinstance(e.op, ast.Not):
                v = fold(e.operand, val)
                return (not v) if isinstance(v, bool) else ast.UnaryOp(op=ast.Not(), operand=v)
            if isinstance(e, ast.BoolOp):
                vals = [fold(x, val) for x in e.values]
                is_and = isinstance(e.op, ast.And)
                rest = []
                for v in vals:
                    if isinstance(v, bool):
                        if v != is_and:       # False in `and` / True in `or` decides
                            return v if not rest else (ast.BoolOp(op=e.op, values=rest + [ast.Constant(value=v)]))
                        continue
                    rest.append(v)
                if not rest:
                    return is_and
                return rest[0] if len(rest) == 1 else ast.BoolOp(op=e.op, values=rest)
            return copy.deepcopy(e)

        def cont(ret: ast.Return) -> List[ast.stmt]:
            v = fold(ifst.test, ret.value.value)
            if isinstance(v, bool):
                return [copy.deepcopy(x) for x in (ifst.body if v else ifst.orelse)]
            return [ast.If(test=v, body=[copy.deepcopy(x) for x in ifst.body], orelse=[copy.deepcopy(x) for x in ifst.orelse])]
        try:
            mapping = self._bind(callee, call, recv, fn)
        except NotInlinable:
            return None
        assigned = _assigned(callee)
        caller_names = _names(fn)
        self._k += 1
        pre: List[ast.stmt] = []
        subst: Dict[str, ast.expr] = {}
        rename: Dict[str, str] = {}
        for p_, a in mapping.items():
            if p_ in assigned or not _simple(a):
                nm = p_ if p_ not in caller_names else "%s__h%d" % (p_, self._k)
                pre.append(ast.Assign(targets=[ast.Name(id=nm, ctx=ast.Store())], value=copy.deepcopy(a)))
                if nm != p_:
                    rename[p_] = nm
            else:
                subst[p_] = a
        for loc in assigned:
            if loc not in mapping and loc in caller_names:
                rename[loc] = "%s__h%d" % (loc, self._k)
        body = copy.deepcopy(_body_wo_doc(callee))
        # the continuation is the caller's code: substitute the helper's names first, then splice it in
        tr = _Subst(subst, rename)
        body = [tr.visit(b) for b in body]
        marker = []

        def repl(ret: ast.Return) -> List[ast.stmt]:
            return cont(ret)
        # returns were deep-copied: evaluate `cont` on the copies (their values are still the constants)
        try:
            new, _term = _conv(body, repl)
        except NotInlinable:
            return None
        out = pre + new
        for s_ in out:
            ast.copy_location(s_, ifst)
            ast.fix_missing_locations(s_)
        self.inlined.add(cfq)
        self.count += 1
        return out

    def _desugar_comp_loop(self, loop: ast.For, fn) -> List[ast.stmt]:
        comp = loop.iter
        caller_names = _names(fn)
        self._k += 1
        same = isinstance(comp.elt, ast.Name) and isinstance(loop.target, ast.Name)
        rename: Dict[str, str] = {}
        for g_ in comp.generators:
            for n_ in ast.walk(g_.target):
                if isinstance(n_, ast.Name) and n_.id in caller_names:
                    if same and n_.id == comp.elt.id:
                        rename[n_.id] = loop.target.id
                    else:
                        rename[n_.id] = "%s__c%d" % (n_.id, self._k)
        if same and comp.elt.id not in rename:
            rename[comp.elt.id] = loop.target.id
        tr = _Subst({}, rename)
        elt = tr.visit(copy.deepcopy(comp.elt))
        body: List[ast.stmt] = list(loop.body)
        if not (same and isinstance(elt, ast.Name) and elt.id == loop.target.id):
            body = [ast.Assign(targets=[copy.deepcopy(loop.target)], value=elt)] + body
        for g_ in reversed(comp.generators):
            for cond in reversed(g_.ifs):
                body = [ast.If(test=tr.visit(copy.deepcopy(cond)), body=body, orelse=[])]
            it_ = copy.deepcopy(g_.iter) if g_ is comp.generators[0] else tr.visit(copy.deepcopy(g_.iter))   # the first iterable belongs to the enclosing scope
            body = [ast.For(target=tr.visit(copy.deepcopy(g_.target)), iter=it_, body=body, orelse=[], type_comment=None)]
        for s_ in body:
            ast.copy_location(s_, loop)
            ast.fix_missing_locations(s_)
        self.count += 1
        return body

    def _expand_generator_loop(self, loop: ast.For, fn, fq, cls) -> Optional[List[ast.stmt]]:
        """`for T in g(a): BODY` where g is `<pre>; while/for …: …; yield E` (the yield is the last statement of g's
        only loop, `return` only directly inside that loop, nothing after the loop) becomes g's loop with
        `yield E` replaced by `T = E; BODY` and `return` by `break`.  BODY's own break/continue keep their meaning
        because the yield is in tail position of the producer loop."""
        hit = self._callee(loop.iter, cls, fn, fq)
        if hit is None or hit[0] is fn:
            return None
        callee, cfq, recv = hit
        decos = {ast.unparse(d) for d in callee.decorator_list}
        if decos - {"staticmethod", "classmethod"} or callee.args.vararg or callee.args.kwarg:
            return None
        body = _body_wo_doc(callee)
        if not body or not isinstance(body[-1], (ast.While, ast.For)) or body[-1].orelse:
            return None
        gl = body[-1]
        if any(_has(s_, (ast.Yield, ast.YieldFrom, ast.Return)) for s_ in body[:-1]) or _has(callee, (ast.YieldFrom, ast.Await, ast.Global, ast.Nonlocal, ast.Try, ast.With)):
            return None
        last = gl.body[-1] if gl.body else None
        if not (isinstance(last, ast.Expr) and isinstance(last.value, ast.Yield) and last.value.value is not None):
            return None
        if any(_has(s_, ast.Yield) for s_ in gl.body[:-1]) or not _returns_at_loop_depth(gl):
            return None
        for r_ in _walk_no_defs(gl):
            if isinstance(r_, ast.Return) and r_.value is not None:
                return None
        try:
            mapping = self._bind(callee, loop.iter, recv, fn)
        except NotInlinable:
            return None
        assigned = _assigned(callee)
        caller_names = _names(fn)
        self._k += 1
        pre: List[ast.stmt] = []
        subst: Dict[str, ast.expr] = {}
        rename: Dict[str, str] = {}
        target_names = {n.id for n in ast.walk(loop.target) if isinstance(n, ast.Name)}
        for p_, a in mapping.items():
            if p_ in assigned or not _simple(a):
                nm = p_ if p_ not in caller_names else "%s__h%d" % (p_, self._k)
                pre.append(ast.Assign(targets=[ast.Name(id=nm, ctx=ast.Store())], value=copy.deepcopy(a)))
                if nm != p_:
                    rename[p_] = nm
            else:
                subst[p_] = a
        for loc in assigned:
            if loc not in mapping and loc in caller_names and loc not in target_names:
                rename[loc] = "%s__h%d" % (loc, self._k)
        gbody = copy.deepcopy(body)
        gl2 = gbody[-1]
        y = gl2.body[-1].value.value
        tgt = copy.deepcopy(loop.target)
        same = ast.dump(tgt).replace("Store()", "Load()") == ast.dump(y)
        consumer = ([] if same else [ast.Assign(targets=[tgt], value=y)]) + loop.body

        class R2B(_RetToBreak):
            pass
        tr = R2B(lambda r: [])
        new_body = []
        for s_ in gl2.body[:-1]:
            r = tr.visit(s_)
            new_body.extend(r if isinstance(r, list) else [r])
        tr2 = _Subst(subst, rename)
        new_body = [tr2.visit(s_) for s_ in new_body]
        head = [tr2.visit(s_) for s_ in gbody[:-1]]
        # the consumer body belongs to the caller: no renaming there, except the yielded expression
        if not same:
            consumer[0] = ast.Assign(targets=[tgt], value=tr2.visit(copy.deepcopy(y)))
        if isinstance(gl2, ast.While):
            new_loop = ast.While(test=tr2.visit(gl2.test), body=new_body + consumer, orelse=[])
        else:
            new_loop = ast.For(target=tr2.visit(gl2.target), iter=tr2.visit(gl2.iter), body=new_body + consumer, orelse=[], type_comment=None)
        out = pre + head + [new_loop]
        for s_ in out:
            ast.copy_location(s_, loop)
            ast.fix_missing_locations(s_)
        self.inlined.add(cfq)
        self.count += 1
        return out

    def _first_evaluated_helper_call(self, e: ast.expr, fn, fq, cls):
        """The call to an inlinable unknown helper that is evaluated before anything with an effect in `e`
        (left-to-right evaluation; only unconditional positions are visited)."""
        found = [None]
        blocked = [False]

        def pure(x) -> bool:
            return isinstance(x, (ast.Name, ast.Constant)) or (isinstance(x, ast.Attribute) and pure(x.value))

        def visit(x):
            if found[0] is not None or blocked[0]:
                return
            if pure(x):
                return
            if isinstance(x, ast.Call):
                visit(x.func)
                for a in x.args:
                    visit(a.value if isinstance(a, ast.Starred) else a)
                for k in x.keywords:
                    visit(k.value)
                if found[0] is not None or blocked[0]:
                    return
                hit = self._callee(x, cls, fn, fq)
                if hit is not None and hit[0] is not fn and self._inlinable(hit[0]) and self._single_expr(hit[0]) is None:
                    found[0] = (x, hit)
                else:
                    blocked[0] = True   # some other call runs first: do not reorder effects
                return
            if isinstance(x, (ast.Attribute,)):
                visit(x.value)
            elif isinstance(x, ast.Subscript):
                visit(x.value)
                visit(x.slice)
            elif isinstance(x, ast.BinOp):
                visit(x.left)
                visit(x.right)
            elif isinstance(x, ast.UnaryOp):
                visit(x.operand)
            elif isinstance(x, ast.BoolOp):
                visit(x.values[0])          # only the first operand is evaluated unconditionally
                if found[0] is None:
                    blocked[0] = True
            elif isinstance(x, ast.Compare):
                visit(x.left)
                if found[0] is None:
                    blocked[0] = True
            elif isinstance(x, (ast.Tuple, ast.List)):
                for el in x.elts:
                    visit(el)
            else:
                blocked[0] = True    # conditional / lazy / comprehension positions: leave alone
        visit(e)
        return found[0]

    def _expr_calls(self, st: ast.stmt, fn, fq, cls):
        inl = self

        class T(ast.NodeTransformer):
            def visit_Call(self, c: ast.Call):
                self.generic_visit(c)
                hit = inl._callee(c, cls, fn, fq)
                if hit is None or hit[0] is fn or not inl._inlinable(hit[0]):
                    return c
                callee, cfq, recv = hit
                e = inl._single_expr(callee)
                if e is None:
                    return c
                try:
                    mapping = inl._bind(callee, c, recv, fn)
                except NotInlinable:
                    return c
                # an argument is substituted as is when it is simple, or when it is a pure value (string building over
                # constants and names) and the helper's expression uses that parameter exactly once
                uses = {}
                for n_ in ast.walk(e):
                    if isinstance(n_, ast.Name) and n_.id in mapping:
                        uses[n_.id] = uses.get(n_.id, 0) + 1
                if not all(_simple(a) or (_pure_value(a) and uses.get(p_, 0) <= 1) for p_, a in mapping.items()):
                    return c
                inl.inlined.add(cfq)
                inl.count += 1
                return ast.copy_location(_Subst(mapping, {}).visit(copy.deepcopy(e)), c)

            def visit_FunctionDef(self, n):
                return n

            def visit_Lambda(self, n):
                return n
        # only the statement's own expressions (not nested blocks, handled by _block)
        for field, value in ast.iter_fields(st):
            if field in ("body", "orelse", "finalbody", "handlers"):
                continue
            if isinstance(value, ast.AST):
                setattr(st, field, T().visit(value))
            elif isinstance(value, list):
                setattr(st, field, [T().visit(v) if isinstance(v, ast.AST) else v for v in value])


def _library_attrs() -> Set[str]:
    """Method names of the library types used in the code base: a call `x.<name>(...)` with such a name may be a
    library call, so an unknown helper of the same name is never bound by name alone."""
    import collections
    import io
    import pathlib as _pl
    import sqlite3
    import subprocess
    import argparse
    out: Set[str] = set()
    for ty in (list, dict, set, frozenset, str, bytes, bytearray, tuple, int, float, object, type, BaseException, _pl.Path, _pl.PurePath, collections.deque,
               collections.OrderedDict, sqlite3.Connection, sqlite3.Cursor, subprocess.Popen, subprocess.CompletedProcess, io.BufferedReader, io.TextIOWrapper,
               io.BytesIO, argparse.ArgumentParser, argparse.Namespace):
        out |= set(dir(ty))
    return out


_LIBRARY_ATTRS = _library_attrs()


def collect_foreign(trees: Dict[str, ast.Module], known: Optional[Set[str]]) -> Dict[str, tuple]:
    """Unknown helpers by simple name, kept only when the name is unique in the whole package (known
    functions included), so that `x.name(...)` can be bound without type information."""
    if known is None:
        return {}
    known_simple = {k.rsplit(".", 1)[-1] for k in known}
    cand: Dict[str, List[tuple]] = {}
    for mod, tree in trees.items():
        for st in tree.body:
            if isinstance(st, ast.FunctionDef):
                fq = "%s.%s" % (mod, st.name)
                if fq not in known:
                    cand.setdefault(st.name, []).append((fq, st, False, mod))
            elif isinstance(st, ast.ClassDef):
                for m in st.body:
                    if isinstance(m, ast.FunctionDef):
                        fq = "%s.%s.%s" % (mod, st.name, m.name)
                        decos = {ast.unparse(d) for d in m.decorator_list}
                        if fq not in known:
                            cand.setdefault(m.name, []).append((fq, m, "staticmethod" not in decos and "classmethod" not in decos, mod))
    return {n: v[0] for n, v in cand.items() if len(v) == 1 and n not in known_simple and not n.startswith("__") and n not in _LIBRARY_ATTRS}


KNOWN_GLOBALS_FILE = pathlib.Path(__file__).with_name("known_globals.txt")
_known_globals: Optional[Set[str]] = None


def load_known_globals() -> Optional[Set[str]]:
    global _known_globals
    if _known_globals is None and KNOWN_GLOBALS_FILE.exists():
        _known_globals = {l.strip() for l in KNOWN_GLOBALS_FILE.read_text().splitlines() if l.strip() and not l.startswith("#")}
    return _known_globals


KNOWN_FIELDS_FILE = pathlib.Path(__file__).with_name("known_fields.txt")
_known_fields: Optional[Dict[str, Set[str]]] = None


def class_private_fields(cls: ast.ClassDef) -> Tuple[Set[str], Set[str]]:
    """(private fields stored through `self` in the class's methods, every private attribute name mentioned on `self`)."""
    stored: Set[str] = set()
    mentioned: Set[str] = set()
    for n in ast.walk(cls):
        if isinstance(n, ast.Attribute) and isinstance(n.value, ast.Name) and n.value.id == "self" and n.attr.startswith("_") and not n.attr.startswith("__"):
            mentioned.add(n.attr)
            if isinstance(n.ctx, ast.Store):
                stored.add(n.attr)
    return stored, mentioned


def init_values(cls: ast.ClassDef) -> Dict[str, str]:
    """private field -> text of the value `__init__` first assigns to it (top-level statements of __init__ only)."""
    out: Dict[str, str] = {}
    for m in cls.body:
        if isinstance(m, ast.FunctionDef) and m.name == "__init__":
            for st in m.body:
                tg, val = None, None
                if isinstance(st, ast.Assign) and len(st.targets) == 1:
                    tg, val = st.targets[0], st.value
                elif isinstance(st, ast.AnnAssign) and st.value is not None:
                    tg, val = st.target, st.value
                if isinstance(tg, ast.Attribute) and isinstance(tg.value, ast.Name) and tg.value.id == "self" and tg.attr not in out:
                    out[tg.attr] = ast.unparse(val)
    return out


def load_known_fields() -> Optional[Dict[str, Dict[str, str]]]:
    global _known_fields
    if _known_fields is None and KNOWN_FIELDS_FILE.exists():
        _known_fields = {}
        for l in KNOWN_FIELDS_FILE.read_text().splitlines():
            l = l.rstrip("\n")
            if l.strip() and not l.startswith("#"):
                name, _, init = l.partition("\t")
                c, f_ = name.strip().rsplit(".", 1)
                _known_fields.setdefault(c, {})[f_] = init.strip()
    return _known_fields


def restore_renamed_fields(module_name: str, tree: ast.Module) -> int:
    """"Rename a private attribute": when a top-level class no longer mentions exactly one private field of the reference
    tree and stores exactly one private field the reference tree does not have, the new name is an alpha-renaming of the
    old one and is renamed back (in `self.<name>` positions of that class).  Renaming a private attribute consistently
    to an unused name never changes behaviour, so this is sound whichever field the new one "really" is."""
    kf = load_known_fields()
    if kf is None:
        return 0
    n = 0
    for cls in tree.body:
        if not isinstance(cls, ast.ClassDef):
            continue
        ref = kf.get("%s.%s" % (module_name, cls.name))
        if not ref:
            continue
        stored, mentioned = class_private_fields(cls)
        missing = sorted(set(ref) - mentioned)
        new = sorted(stored - set(ref))
        if not missing or len(missing) != len(new):
            continue
        pairs = []
        if len(missing) == 1:
            pairs = [(missing[0], new[0])]
        else:
            # several at once: paired by the value __init__ gives them, when that is unambiguous on both sides
            cur_init = init_values(cls)
            for o_ in missing:
                cands = [n_ for n_ in new if cur_init.get(n_, "?") == ref[o_] and ref[o_] != ""]
                same_ref = [m_ for m_ in missing if ref[m_] == ref[o_]]
                if len(cands) == 1 and len(same_ref) == 1:
                    pairs.append((o_, cands[0]))
            if len(pairs) != len(missing):
                continue
        for old_name, new_name in pairs:
            # the name must not be used on other receivers in this module (a private attribute is the class's own)
            elsewhere = [x for x in ast.walk(tree) if isinstance(x, ast.Attribute) and x.attr == new_name
                         and not (isinstance(x.value, ast.Name) and x.value.id == "self")]
            if elsewhere:
                continue
            for x in ast.walk(cls):
                if isinstance(x, ast.Attribute) and x.attr == new_name and isinstance(x.value, ast.Name) and x.value.id == "self":
                    x.attr = old_name
                    n += 1
    return n


def _literal(e: ast.expr) -> bool:
    if isinstance(e, ast.Constant):
        return True
    if isinstance(e, (ast.Tuple, ast.List, ast.Set)):
        return all(_literal(x) or _dotted(x) for x in e.elts)
    return False


def _dotted(e: ast.expr) -> bool:
    return isinstance(e, ast.Name) or (isinstance(e, ast.Attribute) and _dotted(e.value))


def fold_new_constants(module_name: str, tree: ast.Module) -> int:
    """"Introduce a named constant": a module-level `NAME = <literal>` that the reference tree does not have is
    substituted into its uses inside the module (where no local shadows it)."""
    kg = load_known_globals()
    if kg is None:
        return 0
    consts: Dict[str, ast.expr] = {}
    counts: Dict[str, int] = {}
    for st in tree.body:
        tg, val = None, None
        if isinstance(st, ast.Assign) and len(st.targets) == 1 and isinstance(st.targets[0], ast.Name):
            tg, val = st.targets[0].id, st.value
        elif isinstance(st, ast.AnnAssign) and isinstance(st.target, ast.Name) and st.value is not None:
            tg, val = st.target.id, st.value
        if tg is not None:
            counts[tg] = counts.get(tg, 0) + 1
            if "%s.%s" % (module_name, tg) not in kg and (_literal(val) or (isinstance(val, ast.Attribute) and _dotted(val))):
                consts[tg] = val
    consts = {k: v for k, v in consts.items() if counts.get(k) == 1}
    if not consts:
        return 0
    n_sub = 0

    class T(ast.NodeTransformer):
        def __init__(self, shadow):
            self.shadow = shadow

        def visit_Name(self, n):
            nonlocal n_sub
            if isinstance(n.ctx, ast.Load) and n.id in consts and n.id not in self.shadow:
                n_sub += 1
                return ast.copy_location(copy.deepcopy(consts[n.id]), n)
            return n

        def _scope(self, fn):
            loc = _assigned(fn) | {a.arg for a in fn.args.posonlyargs + fn.args.args + fn.args.kwonlyargs}
            if any(isinstance(x, ast.Global) for x in _walk_no_defs(fn)):
                return fn
            inner = T(self.shadow | loc)
            fn.body = [inner.visit(b) for b in fn.body]
            return fn

        def visit_FunctionDef(self, fn):
            return self._scope(fn)

        def visit_AsyncFunctionDef(self, fn):
            return self._scope(fn)
    new_body = []
    for st in tree.body:
        if isinstance(st, (ast.Assign, ast.AnnAssign)) and any(isinstance(x, ast.Name) and x.id in consts and isinstance(x.ctx, ast.Store) for x in ast.walk(st)):
            new_body.append(st)
            continue
        new_body.append(T(set()).visit(st))
    tree.body = new_body
    return n_sub


def preprocess(module_name: str, tree: ast.Module, known: Optional[Set[str]], foreign: Optional[Dict[str, tuple]] = None) -> Tuple[Set[str], int]:
    if known is None:
        return set(), 0
    if fold_new_constants(module_name, tree):
        ast.fix_missing_locations(tree)
    # len("//") of a string literal (typically after a new named constant was folded in) is its length
    class _LenLit(ast.NodeTransformer):
        def visit_Call(self, c):
            self.generic_visit(c)
            if isinstance(c.func, ast.Name) and c.func.id == "len" and len(c.args) == 1 and not c.keywords \
                    and isinstance(c.args[0], ast.Constant) and isinstance(c.args[0].value, (str, bytes)):
                return ast.copy_location(ast.Constant(value=len(c.args[0].value)), c)
            return c
    _LenLit().visit(tree)
    restore_renamed_fields(module_name, tree)
    inl = Inliner(module_name, tree, known, foreign)
    inl.run()
    if inl.count:
        ast.fix_missing_locations(tree)
    return inl.inlined, inl.count
