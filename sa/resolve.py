"""Light-weight, annotation-driven type inference and call resolution over the
Program model.  The repository is thoroughly annotated, which makes this
sufficient; every call that cannot be resolved is counted and reported in the
evidence (never silently treated as resolved)."""
from __future__ import annotations

import ast
import builtins
from typing import Dict, List, Optional, Set, Tuple

from .model import AnalysisError, ClassInfo, FunctionInfo, Module, Program, walk_local

T = Tuple[str, tuple]  # (name, args)

_CONTAINER = {
    "List": "list", "list": "list", "Sequence": "list", "Iterable": "list", "Iterator": "list",
    "Deque": "deque", "deque": "deque", "collections.deque": "deque",
    "Set": "set", "set": "set", "FrozenSet": "set",
    "Dict": "dict", "dict": "dict", "Mapping": "dict",
    "Tuple": "tuple", "tuple": "tuple",
}


def t(name, *args) -> T:
    return (name, tuple(args))


class Resolver:
    def __init__(self, prog: Program):
        self.p = prog
        self._locals: Dict[str, Dict[str, T]] = {}
        self._attr_cache: Dict[Tuple[str, str], Optional[T]] = {}
        self._busy: Set = set()
        self._hits = 0
        self._locals_wip: Dict[str, Dict[str, T]] = {}
        self._attr_wip: Set = set()
        self._assigned: Dict[str, Set[str]] = {}
        self.unresolved: List[ast.Call] = []
        self._method_index: Dict[str, List[FunctionInfo]] = {}
        for fi in prog.functions.values():
            if fi.cls is not None:
                self._method_index.setdefault(fi.name, []).append(fi)
        self._call_cache: Dict[int, List[str]] = {}
        self._compute_all_locals()

    # ------------------------------------------------------------ annotation
    def ann_type(self, m: Module, ann: Optional[ast.expr], cls: Optional[ClassInfo] = None) -> Optional[T]:
        if ann is None:
            return None
        if isinstance(ann, ast.Constant) and isinstance(ann.value, str):
            try:
                return self.ann_type(m, ast.parse(ann.value, mode="eval").body, cls)
            except SyntaxError:
                return None
        if isinstance(ann, ast.Constant) and ann.value is None:
            return t("None")
        if isinstance(ann, ast.Subscript):
            head = ast.unparse(ann.value).split(".")[-1]
            sl = ann.slice
            elts = list(sl.elts) if isinstance(sl, ast.Tuple) else [sl]
            if head == "Optional":
                return self.ann_type(m, elts[0], cls)
            if head == "Union":
                for e in elts:
                    r = self.ann_type(m, e, cls)
                    if r is not None and r[0] != "None":
                        return r
                return None
            if head in ("Type", "type"):
                inner = self.ann_type(m, elts[0], cls)
                return t("class", inner[0]) if inner else None
            if head in _CONTAINER:
                args = tuple(self.ann_type(m, e, cls) for e in elts if not (isinstance(e, ast.Constant) and e.value is Ellipsis))
                return (_CONTAINER[head], args)
            if head in ("Callable", "IO"):
                return t(head)
            return self.ann_type(m, ann.value, cls)
        if isinstance(ann, (ast.Name, ast.Attribute)):
            s = ast.unparse(ann)
            if s in _CONTAINER:
                return t(_CONTAINER[s])
            fq = self.p.resolve_name_expr(m, ann, cls)
            if fq is None:
                if isinstance(ann, ast.Name) and cls is not None and ann.id in cls.nested_classes:
                    return t(cls.nested_classes[ann.id].fq)
                return t(s)
            return t(fq)
        if isinstance(ann, ast.BinOp) and isinstance(ann.op, ast.BitOr):
            for e in (ann.left, ann.right):
                r = self.ann_type(m, e, cls)
                if r is not None and r[0] != "None":
                    return r
        return None

    # ---------------------------------------------------------------- locals
    def local_types(self, fi: FunctionInfo) -> Dict[str, T]:
        """Pure lookup: all environments are computed by `_compute_all_locals`
        in a fixed number of global passes (deterministic, no re-entrancy)."""
        return self._locals.get(fi.fq, {})

    def _compute_all_locals(self, passes=3) -> None:
        funcs = list(self.p.functions.values())
        for _ in range(passes):
            self._attr_cache.clear()
            self._call_cache.clear()
            for fi in funcs:
                env: Dict[str, T] = {}
                self._locals[fi.fq] = env  # visible to itself while filling
                self._fill_locals(fi, env)
        self._attr_cache.clear()
        self._call_cache.clear()
        self.unresolved.clear()

    def assigned_names(self, fi: FunctionInfo) -> Set[str]:
        r = self._assigned.get(fi.fq)
        if r is None:
            r = set(fi.params)
            a = fi.node.args
            if a.vararg:
                r.add(a.vararg.arg)
            if a.kwarg:
                r.add(a.kwarg.arg)
            for node in walk_local(fi.node):
                if isinstance(node, ast.Name) and isinstance(node.ctx, (ast.Store, ast.Del)):
                    r.add(node.id)
                elif isinstance(node, ast.ExceptHandler) and node.name:
                    r.add(node.name)
            self._assigned[fi.fq] = r
        return r

    def _fill_locals(self, fi: FunctionInfo, env: Dict[str, T]) -> None:
        m = fi.module
        args = fi.node.args
        allargs = args.posonlyargs + args.args + args.kwonlyargs
        for i, a in enumerate(allargs):
            if i == 0 and fi.cls is not None and not fi.is_static and a.annotation is None:
                env[a.arg] = t("class", fi.cls.fq) if fi.is_classmethod else t(fi.cls.fq)
                continue
            ty = self.ann_type(m, a.annotation, fi.cls)
            if ty is not None:
                env[a.arg] = ty
        # two passes so that later assignments can use earlier ones
        for _ in range(2):
            for node in walk_local(fi.node):
                if isinstance(node, ast.AnnAssign) and isinstance(node.target, ast.Name):
                    ty = self.ann_type(m, node.annotation, fi.cls)
                    if ty is not None:
                        env[node.target.id] = ty
                elif isinstance(node, ast.Assign):
                    for tgt in node.targets:
                        self._bind(tgt, node.value, fi, env)
                elif isinstance(node, (ast.For, ast.comprehension)):
                    it = self.type_of(node.iter, fi)
                    self._bind_type(node.target, self._elem(it, node.iter, fi), env)
                elif isinstance(node, ast.With):
                    for item in node.items:
                        if item.optional_vars is not None:
                            ty = self.type_of(item.context_expr, fi)
                            if isinstance(item.context_expr, ast.Call) and ast.unparse(item.context_expr.func) == "open":
                                ty = t("IO")
                            self._bind_type(item.optional_vars, ty, env)
                elif isinstance(node, ast.ExceptHandler) and node.name and node.type is not None:
                    ty = self.ann_type(m, node.type if not isinstance(node.type, ast.Tuple) else node.type.elts[0], fi.cls)
                    if ty is not None:
                        env.setdefault(node.name, ty)
                elif isinstance(node, ast.NamedExpr) and isinstance(node.target, ast.Name):
                    ty = self.type_of(node.value, fi)
                    if ty is not None:
                        env.setdefault(node.target.id, ty)

    def _elem(self, it: Optional[T], iter_expr: ast.expr, fi) -> Optional[T]:
        if it is None:
            return None
        if it[0] in ("list", "set", "deque") and it[1]:
            return it[1][0]
        if it[0] == "dict" and it[1]:
            return it[1][0]
        if it[0] == "tuple" and it[1]:
            return it[1][0]
        if it[0] == "dict_items" and len(it[1]) == 2:
            return t("tuple", *it[1])
        if it[0] == "dict_values" and it[1]:
            return it[1][0]
        return None

    def _bind(self, tgt, value, fi, env):
        if isinstance(tgt, ast.Name):
            if tgt.id in env and env[tgt.id] is not None and env[tgt.id][0] != "None":
                return
            ty = self.type_of(value, fi)
            if ty is not None:
                env[tgt.id] = ty
        elif isinstance(tgt, (ast.Tuple, ast.List)):
            ty = self.type_of(value, fi)
            self._bind_type(tgt, ty, env)

    def _bind_type(self, tgt, ty: Optional[T], env):
        if ty is None:
            return
        if isinstance(tgt, ast.Name):
            if tgt.id not in env:
                env[tgt.id] = ty
        elif isinstance(tgt, (ast.Tuple, ast.List)) and ty[0] == "tuple" and len(ty[1]) == len(tgt.elts):
            for e, x in zip(tgt.elts, ty[1]):
                self._bind_type(e, x, env)

    def name_type(self, name: str, fi: Optional[FunctionInfo], m: Module) -> Optional[T]:
        f = fi
        while f is not None:
            if name in self.assigned_names(f):
                env = self.local_types(f)
                if name in env:
                    return env[name]
                return None
            if name in f.nested:
                return t("func", f.nested[name].fq)
            f = f.parent
        fq = self.p.resolve_global(m, name)
        if fq is not None:
            return self._fq_object_type(fq)
        if hasattr(builtins, name):
            return t("builtin", name)
        return None

    def _fq_object_type(self, fq: str) -> Optional[T]:
        if fq in self.p.classes:
            return t("class", fq)
        if fq in self.p.functions:
            return t("func", fq)
        if fq in self.p.modules:
            return t("module", fq)
        mod, _, name = fq.rpartition(".")
        if mod in self.p.modules:
            m = self.p.modules[mod]
            if name in m.assigns:
                # module-level variable
                for node in m.assign_nodes.get(name, []):
                    if isinstance(node, ast.AnnAssign):
                        return self.ann_type(m, node.annotation)
                return self.type_of(m.assigns[name][0], None, m)
            return None
        # external: module or member of an external module
        return t("ext", fq)

    # --------------------------------------------------------------- type_of
    def type_of(self, e: ast.expr, fi: Optional[FunctionInfo], m: Optional[Module] = None) -> Optional[T]:
        key = (id(e), fi.fq if fi else None)
        if key in self._busy:
            self._hits += 1
            return None
        self._busy.add(key)
        try:
            return self._type_of(e, fi, m or (fi.module if fi else e._module))  # type: ignore[attr-defined]
        finally:
            self._busy.discard(key)

    def _type_of(self, e, fi, m) -> Optional[T]:
        if isinstance(e, ast.Constant):
            if e.value is None:
                return t("None")
            return t(type(e.value).__name__)
        if isinstance(e, ast.Name):
            return self.name_type(e.id, fi, m)
        if isinstance(e, ast.Attribute):
            base = self.type_of(e.value, fi, m)
            return self.attr_type(base, e.attr)
        if isinstance(e, ast.Call):
            callee = self.type_of(e.func, fi, m)
            return self._call_result(callee, e, fi, m)
        if isinstance(e, ast.Subscript):
            base = self.type_of(e.value, fi, m)
            if base is None:
                return None
            if isinstance(e.slice, ast.Slice):
                return base
            if base == ("ext", ("os.environ",)):
                return t("str")
            if base[0] in ("list", "deque") and base[1]:
                return base[1][0]
            if base[0] == "dict" and len(base[1]) == 2:
                return base[1][1]
            if base[0] == "tuple" and base[1]:
                if isinstance(e.slice, ast.Constant) and isinstance(e.slice.value, int) and -len(base[1]) <= e.slice.value < len(base[1]):
                    return base[1][e.slice.value]
                return base[1][0]
            return None
        if isinstance(e, (ast.List, ast.ListComp)):
            if isinstance(e, ast.List) and e.elts:
                return t("list", self.type_of(e.elts[0], fi, m))
            return t("list")
        if isinstance(e, (ast.Set, ast.SetComp)):
            return t("set")
        if isinstance(e, (ast.Dict, ast.DictComp)):
            return t("dict")
        if isinstance(e, ast.Tuple):
            return t("tuple", *[self.type_of(x, fi, m) for x in e.elts])
        if isinstance(e, ast.JoinedStr):
            return t("str")
        if isinstance(e, ast.IfExp):
            a = self.type_of(e.body, fi, m)
            if a is not None and a[0] != "None":
                return a
            return self.type_of(e.orelse, fi, m)
        if isinstance(e, ast.BoolOp):
            return t("bool") if all(isinstance(v, (ast.Compare, ast.UnaryOp)) for v in e.values) else self.type_of(e.values[-1], fi, m)
        if isinstance(e, ast.Compare):
            return t("bool")
        if isinstance(e, ast.UnaryOp) and isinstance(e.op, ast.Not):
            return t("bool")
        if isinstance(e, ast.BinOp):
            lt_ = self.type_of(e.left, fi, m)
            if isinstance(e.op, ast.Div):
                rt_ = self.type_of(e.right, fi, m)
                for x in (lt_, rt_):
                    if x is not None and x[0] == "pathlib.Path":
                        return x
            return lt_
        if isinstance(e, ast.NamedExpr):
            return self.type_of(e.value, fi, m)
        if isinstance(e, ast.Starred):
            return self.type_of(e.value, fi, m)
        return None

    def _call_result(self, callee: Optional[T], e: ast.Call, fi, m) -> Optional[T]:
        if callee is None:
            return None
        kind = callee[0]
        if kind == "class":
            return t(callee[1][0])
        if kind == "func":
            f = self.p.functions.get(callee[1][0])
            if f is None:
                return None
            return self.ann_type(f.module, f.node.returns, f.cls)
        if kind == "bound":  # ("bound", (func fq, receiver type))
            f = self.p.functions.get(callee[1][0])
            if f is None:
                return None
            r = self.ann_type(f.module, f.node.returns, f.cls)
            if r is None and f.is_classmethod and f.cls is not None:
                # `return cls(...)` idiom without annotation
                for n in walk_local(f.node):
                    if isinstance(n, ast.Return) and isinstance(n.value, ast.Call) and isinstance(n.value.func, ast.Name) and n.value.func.id == "cls":
                        return t(f.cls.fq)
            return r
        if kind == "builtin":
            name = callee[1][0]
            if name in ("len", "int", "hash", "id", "ord"):
                return t("int")
            if name in ("str", "repr", "format"):
                return t("str")
            if name in ("bool", "isinstance", "all", "any", "hasattr", "callable"):
                return t("bool")
            if name in ("list", "sorted", "reversed"):
                if e.args:
                    a = self.type_of(e.args[0], fi, m)
                    if a is not None and a[0] in ("list", "tuple", "set", "deque"):
                        return t("list", *a[1][:1])
                return t("list")
            if name == "tuple":
                return t("tuple")
            if name == "set":
                return t("set")
            if name == "dict":
                return t("dict")
            if name in ("max", "min") and e.args:
                a = self.type_of(e.args[0], fi, m)
                return self._elem(a, e.args[0], fi) if a else None
            if name == "open":
                return t("IO")
            if name == "super":
                if fi is not None and fi.cls is not None:
                    return t("super", fi.cls.fq)
            if name == "range":
                return t("list", t("int"))
            if name in ("map", "filter", "zip", "enumerate"):
                return t("list")
            return None
        if kind == "extm":
            name, base = callee[1][0], callee[1][1]
            bk, ba = base[0], base[1]
            meth = name.split(".", 1)[1]
            if bk in ("list", "deque", "set") and meth in ("pop", "popleft") and ba:
                return ba[0]
            if bk in ("list", "deque", "set", "dict") and meth == "copy":
                return base
            if bk == "dict":
                if meth == "items" and len(ba) == 2:
                    return t("dict_items", *ba)
                if meth == "values" and len(ba) == 2:
                    return t("dict_values", ba[1])
                if meth == "keys" and ba:
                    return t("list", ba[0])
                if meth in ("get", "pop", "setdefault") and len(ba) == 2:
                    return ba[1]
                return None
            if bk == "str":
                if meth in ("format", "strip", "lower", "upper", "replace", "join", "lstrip", "rstrip"):
                    return t("str")
                if meth in ("split", "splitlines"):
                    return t("list", t("str"))
                if meth in ("startswith", "endswith"):
                    return t("bool")
                return None
            if bk == "IO" and meth in ("read", "read1", "readline"):
                return t("bytes")
            return None
        if kind == "ext":
            name = callee[1][0]
            if name in ("pathlib.Path", "pathlib.PurePath"):
                return t("pathlib.Path")
            if name == "subprocess.Popen":
                return t("subprocess.Popen")
            if name == "subprocess.run":
                return t("subprocess.CompletedProcess")
            if name == "sqlite3.connect":
                return t("sqlite3.Connection")
            if name == "collections.deque":
                return t("deque")
            if name in ("time.time",):
                return t("float")
            if name == "re.compile":
                return t("re.Pattern")
            if name in ("re.Pattern.match", "re.Pattern.fullmatch", "re.Pattern.search"):
                return t("re.Match")
            if name == "re.Match.group":
                return t("str")
            if name in ("os.environ.get", "os.getcwd", "os.path.relpath", "os.path.join", "os.path.abspath"):
                return t("str")
            if name == "pathlib.Path.cwd":
                return t("pathlib.Path")
            if name.startswith("pathlib.Path."):
                meth = name.rsplit(".", 1)[1]
                if meth in ("cwd", "home", "resolve", "with_name", "with_suffix", "joinpath", "relative_to", "absolute", "expanduser"):
                    return t("pathlib.Path")
                if meth in ("exists", "is_dir", "is_file", "is_symlink", "is_absolute"):
                    return t("bool")
                if meth in ("iterdir", "glob", "rglob"):
                    return t("list", t("pathlib.Path"))
                return None
            if name == "sqlite3.Connection.cursor":
                return t("sqlite3.Cursor")
            if name in ("sqlite3.Connection.execute", "sqlite3.Cursor.execute"):
                return t("sqlite3.Cursor")
            if name == "concurrent.futures.ThreadPoolExecutor":
                return t("concurrent.futures.ThreadPoolExecutor")
            if name == "concurrent.futures.ThreadPoolExecutor.submit":
                return t("concurrent.futures.Future")
            return None
        return None

    def attr_type(self, base: Optional[T], attr: str) -> Optional[T]:
        if base is None:
            return None
        kind = base[0]
        if kind == "module":
            fq = self.p.canonical(base[1][0] + "." + attr)
            return self._fq_object_type(fq)
        if kind == "ext":
            return t("ext", base[1][0] + "." + attr)
        if kind == "class":
            c = base[1][0]
            f = self.p.find_method(c, attr)
            if f is not None:
                return t("bound", f.fq, t(c)) if not f.is_property else None
            ci = self.p.classes.get(c)
            for cc in self.p.mro(c):
                ci = self.p.classes.get(cc)
                if ci is None:
                    continue
                if attr in ci.nested_classes:
                    return t("class", ci.nested_classes[attr].fq)
                if attr in ci.class_attr_ann:
                    return self.ann_type(ci.module, ci.class_attr_ann[attr], ci)
                if attr in ci.class_attrs:
                    return self.type_of(ci.class_attrs[attr], None, ci.module)
            return None
        if kind == "super":
            c = base[1][0]
            mro = self.p.mro(c)[1:]
            for cc in mro:
                ci = self.p.classes.get(cc)
                if ci is not None and attr in ci.methods:
                    return t("bound", ci.methods[attr].fq, t(c))
                if ci is None:
                    return t("ext", cc + "." + attr)
            return None
        if kind in self.p.classes:
            key = (kind, attr)
            if key in self._attr_cache:
                return self._attr_cache[key]
            if key in self._attr_wip:
                return None
            self._attr_wip.add(key)
            try:
                r = self._instance_attr(kind, attr)
            finally:
                self._attr_wip.discard(key)
            if not self._attr_wip:
                self._attr_cache[key] = r
            return r
        if kind == "dict":
            if attr == "items":
                return t("extm", "dict.items", base)
            if attr == "values":
                return t("extm", "dict.values", base)
            return t("extm", "dict." + attr, base)
        if kind in ("list", "set", "deque", "tuple", "str", "bytes", "int", "float", "bool", "IO", "dict_items", "dict_values"):
            return t("extm", kind + "." + attr, base)
        if kind == "pathlib.Path":
            if attr in ("parent",):
                return t("pathlib.Path")
            if attr in ("name", "suffix", "stem"):
                return t("str")
            if attr == "parents":
                return t("list", t("pathlib.Path"))
            if attr == "parts":
                return t("tuple", t("str"))
            return t("ext", "pathlib.Path." + attr)
        if kind in ("subprocess.Popen", "subprocess.CompletedProcess", "sqlite3.Connection", "sqlite3.Cursor",
                    "concurrent.futures.ThreadPoolExecutor", "concurrent.futures.Future", "re.Pattern", "re.Match"):
            if kind == "subprocess.Popen" and attr in ("pid", "returncode"):
                return t("int")
            if kind == "subprocess.Popen" and attr in ("stdout", "stderr", "stdin"):
                return t("IO")
            return t("ext", kind + "." + attr)
        return None

    def _instance_attr(self, cls_fq: str, attr: str) -> Optional[T]:
        f = self.p.find_method(cls_fq, attr)
        if f is not None:
            if f.is_property:
                return self.ann_type(f.module, f.node.returns, f.cls)
            return t("bound", f.fq, t(cls_fq))
        for cc in self.p.mro(cls_fq):
            ci = self.p.classes.get(cc)
            if ci is None:
                continue
            if attr in ci.nested_classes:
                return t("class", ci.nested_classes[attr].fq)
            if attr in ci.class_attr_ann:
                return self.ann_type(ci.module, ci.class_attr_ann[attr], ci)
            # self.attr assignments in methods
            found: Optional[T] = None
            for meth in ci.methods.values():
                for node in walk_local(meth.node):
                    tgt = None
                    val = None
                    ann = None
                    if isinstance(node, ast.AnnAssign):
                        tgt, val, ann = node.target, node.value, node.annotation
                    elif isinstance(node, ast.Assign) and len(node.targets) == 1:
                        tgt, val = node.targets[0], node.value
                    if (isinstance(tgt, ast.Attribute) and tgt.attr == attr and isinstance(tgt.value, ast.Name)
                            and tgt.value.id == "self"):
                        if ann is not None:
                            ty = self.ann_type(ci.module, ann, ci)
                            if ty is not None:
                                return ty
                        if val is not None:
                            ty = self.type_of(val, meth)
                            if ty is not None and ty[0] != "None" and found is None:
                                found = ty
            if found is not None:
                return found
            if attr in ci.class_attrs:
                return self.type_of(ci.class_attrs[attr], None, ci.module)
        return None

    # ------------------------------------------------------ call resolution
    def callees(self, call: ast.Call, dispatch=True) -> List[str]:
        """Fully-qualified names of the possible callees of a call.
        Repo functions: 'conductor.x.Class.method'; class construction:
        'conductor.x.Class' (plus its __init__ when defined); externals:
        'subprocess.Popen', 'pathlib.Path.mkdir', 'list.append', ...
        Unresolvable: ['?.name'] and the call is recorded in self.unresolved."""
        key = (id(call), dispatch)
        if key in self._call_cache:
            return self._call_cache[key]
        fi = getattr(call, "_func", None)
        m = call._module  # type: ignore[attr-defined]
        out: List[str] = []
        fn = call.func
        hits0 = self._hits
        ty = self.type_of(fn, fi, m)
        if ty is not None:
            k = ty[0]
            if k == "func":
                out = [ty[1][0]]
            elif k == "class":
                out = [ty[1][0]]
            elif k == "bound":
                f = self.p.functions[ty[1][0]]
                recv = ty[1][1][0]
                is_super = (isinstance(fn, ast.Attribute) and isinstance(fn.value, ast.Call)
                            and ast.unparse(fn.value.func) == "super")
                if dispatch and f.cls is not None and recv in self.p.classes and not is_super:
                    out = [x.fq for x in self.p.overriders(recv, f.name)]
                else:
                    out = [f.fq]
            elif k == "ext":
                out = [ty[1][0]]
            elif k == "extm":
                out = [ty[1][0]]
            elif k == "builtin":
                out = [ty[1][0]]
        if not out:
            # unique-name fallback for methods
            if isinstance(fn, ast.Attribute):
                cands = self._method_index.get(fn.attr, [])
                fams = self._families(cands)
                if len(fams) == 1:
                    out = [c.fq for c in cands]
                else:
                    out = ["?." + fn.attr]
                    self.unresolved.append(call)
            elif isinstance(fn, ast.Name):
                out = ["?" + fn.id]
                self.unresolved.append(call)
            else:
                out = ["?"]
                self.unresolved.append(call)
        self._call_cache[key] = out
        return out

    def _families(self, cands: List[FunctionInfo]) -> List[str]:
        roots = set()
        for c in cands:
            assert c.cls is not None
            root = c.cls.fq
            for anc in self.p.mro(c.cls.fq):
                ci = self.p.classes.get(anc)
                if ci is not None and c.name in ci.methods:
                    root = anc
            roots.add(root)
        return sorted(roots)

    def is_call_to(self, call: ast.Call, *targets: str) -> bool:
        """targets are suffixes such as 'Operation.start_execution' or exact
        external names such as 'subprocess.Popen'."""
        cs = self.callees(call)
        for c in cs:
            for tg in targets:
                if c == tg or c.endswith("." + tg):
                    return True
        return False


# --------------------------------------------------------------------------
class CallGraph:
    def __init__(self, prog: Program, res: Resolver):
        self.p = prog
        self.r = res
        self.edges: Dict[str, Set[str]] = {}
        self.sites: Dict[str, List[Tuple[ast.Call, List[str]]]] = {}
        self.callers: Dict[str, List[Tuple[FunctionInfo, ast.Call]]] = {}
        for fi in prog.functions.values():
            self._scan(fi)

    def _scan(self, fi: FunctionInfo):
        out: Set[str] = set()
        sites = []
        for node in walk_local(fi.node):
            if isinstance(node, ast.Call):
                cs = self.r.callees(node)
                expanded = []
                for c in cs:
                    if c in self.p.classes:
                        init = self.p.find_method(c, "__init__")
                        expanded.append(c)
                        if init is not None:
                            expanded.append(init.fq)
                    else:
                        expanded.append(c)
                # higher-order idioms: functions passed as arguments are
                # assumed to be called (executor.submit(f), traverse(ctx, visitor), map(f, xs))
                for a in list(node.args) + [k.value for k in node.keywords]:
                    if isinstance(a, (ast.Name, ast.Attribute)):
                        ty = self.r.type_of(a, fi)
                        if ty is not None and ty[0] in ("func", "bound"):
                            expanded.append(ty[1][0])
                    elif isinstance(a, ast.Lambda):
                        for sub in ast.walk(a.body):
                            if isinstance(sub, ast.Call):
                                expanded.extend(self.r.callees(sub))
                sites.append((node, expanded))
                out.update(expanded)
                for c in expanded:
                    self.callers.setdefault(c, []).append((fi, node))
            elif isinstance(node, ast.Attribute) and isinstance(node.ctx, ast.Load):
                # property reads are calls of the getter
                par = getattr(node, "_parent", None)
                if isinstance(par, ast.Call) and par.func is node:
                    continue
                base = self.r.type_of(node.value, fi)
                if base is not None and base[0] in self.p.classes:
                    for f in self.p.overriders(base[0], node.attr):
                        if f.is_property:
                            out.add(f.fq)
                            self.callers.setdefault(f.fq, []).append((fi, node))  # type: ignore[arg-type]
        # nested defs are reachable from their parent (closures called later)
        for nf in fi.nested.values():
            out.add(nf.fq)
        self.edges[fi.fq] = out
        self.sites[fi.fq] = sites

    def reachable(self, roots: List[str], stop: Optional[Set[str]] = None) -> Set[str]:
        seen: Set[str] = set()
        stack = list(roots)
        while stack:
            f = stack.pop()
            if f in seen or (stop and f in stop):
                continue
            seen.add(f)
            for c in self.edges.get(f, ()):  # externals have no edges
                if c not in seen:
                    stack.append(c)
        return seen

    def reachable_from_nodes(self, nodes: List[ast.AST], fi: FunctionInfo) -> Set[str]:
        """Functions reachable from the calls that occur syntactically inside
        the given statements of fi."""
        roots: Set[str] = set()
        for n in nodes:
            for sub in walk_local(n):
                if isinstance(sub, ast.Call):
                    for (c, exp) in self.sites[fi.fq]:
                        if c is sub:
                            roots.update(exp)
        return self.reachable(sorted(roots))

    def path(self, src: str, dst_pred) -> Optional[List[str]]:
        """Shortest call path from src to a function satisfying dst_pred."""
        from collections import deque
        prev = {src: None}
        dq = deque([src])
        while dq:
            f = dq.popleft()
            if dst_pred(f) and f != src:
                out = []
                while f is not None:
                    out.append(f)
                    f = prev[f]
                return out[::-1]
            for c in sorted(self.edges.get(f, ())):
                if c not in prev:
                    prev[c] = f
                    dq.append(c)
        return None
