"""CLI:  python -m sa check C01 [--tier quick|thorough]
        python -m sa all [--tier ...]
        python -m sa setup
        python -m sa explain <report.json>
        python -m sa selftest [Cnn ...]
"""
from __future__ import annotations

import argparse
import importlib
import json
import os
import sys
import time

from .framework import run_property

PROPS = ["C%02d" % i for i in range(1, 21)]


def _load(prop):
    return importlib.import_module("sa.rules.%s" % prop.lower())


def check(prop: str, tier: str) -> int:
    from .analysis import Analysis
    try:
        mod = _load(prop)
    except ModuleNotFoundError:
        print("ANALYSIS-ERROR property=%s no rule module" % prop)
        return 2
    def thorough(A, rep):
        """Thorough tier: (a) the property's own universal extras, if any; (b) self-validation of the
        checker on seeded variants of the current tree (firing variants must be reported by the named
        rule, silent twins must pass) — a failure means the checker is broken (exit 2), never a verdict."""
        from .model import AnalysisError
        from .variants import V, patch_variants, summary_for
        cov = {}
        if hasattr(mod, "thorough_extra"):
            cov.update(mod.thorough_extra(A, rep) or {})
        if os.environ.get("VERIF_NO_VARIANTS"):
            return cov
        code, counts, bad = summary_for([prop])
        cov["self_validation"] = {"variants": sum(counts.values()), "results": counts,
                                  "what": "variants of the current tree re-analysed (never executed) on scratch copies: rule-breaking edits and the property's independently seeded changes (seeded/) must be reported; behaviour-preserving twins and the 30 sub-agent refactorings (corpus/refactorings/) must stay silent; a patch that no longer applies is skipped and counted",
                                  "ids": [x[0] for x in V if x[1] == prop] + [x[0] for x in patch_variants([prop])]}
        if bad:
            raise AnalysisError("self-validation failed: " + "; ".join(bad))
        return cov
    return run_property(prop, tier, mod.run, Analysis, mod.META, thorough_fn=thorough)


def main(argv=None) -> int:
    ap = argparse.ArgumentParser(prog="sa")
    sub = ap.add_subparsers(dest="cmd", required=True)
    c = sub.add_parser("check")
    c.add_argument("prop")
    c.add_argument("--tier", default=os.environ.get("VERIF_TIER", "quick"), choices=["quick", "thorough"])
    a = sub.add_parser("all")
    a.add_argument("--tier", default="quick", choices=["quick", "thorough"])
    sub.add_parser("setup")
    e = sub.add_parser("explain")
    e.add_argument("path")
    st = sub.add_parser("selftest")
    st.add_argument("props", nargs="*")
    st.add_argument("--jobs", type=int, default=16)
    args = ap.parse_args(argv)

    if args.cmd == "check":
        return check(args.prop, args.tier)
    if args.cmd == "all":
        worst = 0
        for p in PROPS:
            try:
                _load(p)
            except ModuleNotFoundError:
                continue
            worst = max(worst, check(p, args.tier))
        return worst
    if args.cmd == "setup":
        t0 = time.time()
        from .analysis import Analysis
        A = Analysis()
        _ = A.exc
        print("setup ok: %s (%.1fs)" % (A.stats(), time.time() - t0))
        from .selfcheck import engine_selfcheck
        return engine_selfcheck()
    if args.cmd == "explain":
        d = json.load(open(args.path))
        for v in d.get("violations", []):
            print("%s [%s]\n   at %s\n   %s" % (v["rule"], v["instance"], v["site"], v["detail"]))
        return 0
    if args.cmd == "selftest":
        from .variants import run_selftest
        return run_selftest(args.props or None, args.jobs)
    return 2


if __name__ == "__main__":
    code = main()
    sys.stdout.flush()
    sys.exit(code)
