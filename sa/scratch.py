"""Scratch copies of the analysed source tree (only *.py files), used by the
self-validation variants.  Created under $TMPDIR, removed by the caller."""
import os
import pathlib
import shutil
import tempfile

from .model import REPO


def make_scratch(src_repo: pathlib.Path = REPO) -> pathlib.Path:
    tmp = pathlib.Path(tempfile.mkdtemp(prefix="cverif-"))
    root = pathlib.Path(src_repo) / "src"
    for p in root.rglob("*.py"):
        dst = tmp / "src" / p.relative_to(root)
        dst.parent.mkdir(parents=True, exist_ok=True)
        shutil.copyfile(p, dst)
    return tmp


def drop_scratch(tmp: pathlib.Path) -> None:
    shutil.rmtree(tmp, ignore_errors=True)
