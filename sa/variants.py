"""Self-validation of the checkers (thorough tier, DESIGN A.7): seeded variants
of the *current* tree are re-analysed (never executed).  A firing variant must
be reported by the named rule; a silent twin must pass.  A variant whose
anchor text is no longer present in /repo is skipped and counted."""
from __future__ import annotations

import concurrent.futures as cf
import os
import subprocess
import sys
import time
from typing import Dict, List, Optional, Tuple

from .model import REPO
from .scratch import drop_scratch, make_scratch

P = "/venv/bin/python"
V = []  # (id, property, kind 'fire'|'silent', relpath under src/conductor, old, new, expected rule or None)


def v(id_, prop, kind, rel, old, new, rule=None):
    V.append((id_, prop, kind, rel, old, new, rule))


EX = "execution/executor.py"
PL = "execution/planning/planner.py"
OP = "execution/ops/operation.py"
RT = "execution/ops/run_task_executable.py"
VIX = "execution/version_index.py"
Q = "execution/version_index_queries.py"
RUN = "task_types/run.py"
TI = "parsing/task_index.py"

# ---- C01
v("C01-drop-add_dep_of", "C01", "fire", PL, "                        dep_op.add_dep_of(new_op)\n", "", "PL1")
v("C01-waiting-gt1", "C01", "fire", EX, "if dep_of.waiting_on > 0:", "if dep_of.waiting_on > 1:", "EX1")
v("C01-drop-reset", "C01", "fire", EX, "            plan.reset_waiting_on()\n", "", "EX2")
v("C01-any-deps", "C01", "fire", OP, "return all(map(lambda task: task.succeeded(), self.exe_deps))", "return any(map(lambda task: task.succeeded(), self.exe_deps))", "EX4")
v("C01-revert-F1", "C01", "fire", PL, "                    lt.output_ops = visited[lt.task.identifier].output_ops\n                    continue\n", "                    pass\n", "W1")
v("C01-skip-first-dep", "C01", "fire", PL, "                for dep in lt.deps:\n                    for dep_op in dep.output_ops:", "                for dep in lt.deps[1:]:\n                    for dep_op in dep.output_ops:", "PL1")
v("C01-twin-rename", "C01", "silent", PL, "                    for dep_op in dep.output_ops:\n                        new_op.add_exe_dep(dep_op)\n                        dep_op.add_dep_of(new_op)",
  "                    for d_op in dep.output_ops:\n                        d_op.add_dep_of(new_op)\n                        new_op.add_exe_dep(d_op)")
v("C01-twin-eq0", "C01", "silent", EX, "            if dep_of.waiting_on > 0:\n                continue\n            self._ready_to_run.enqueue_op(dep_of)", "            if dep_of.waiting_on == 0:\n                self._ready_to_run.enqueue_op(dep_of)")
# ---- C02
v("C02-double-count", "C02", "fire", PL, "                num_tasks_to_run += 1\n", "                num_tasks_to_run += 1\n                num_tasks_to_run += 1\n", "PL6")
v("C02-or-cached", "C02", "fire", PL, "if not run_again and not lt.task.should_run(self._ctx, at_least_commit):", "if not run_again or not lt.task.should_run(self._ctx, at_least_commit):", "PL7")
v("C02-lose-op", "C02", "fire", EX, "                next_op.set_state(OperationState.SKIPPED)\n                self._process_finished_op(next_op)", "                next_op.set_state(OperationState.SKIPPED)", "EX6")
# ---- C03
v("C03-skipped-succeeds", "C03", "fire", OP, "            or self.state == OperationState.SUCCEEDED_CACHED", "            or self.state == OperationState.SKIPPED", "EX4")
v("C03-exit0", "C03", "fire", "utils/user_code.py", "            sys.exit(1)", "            sys.exit(0)", "CLI1")
v("C03-signal-zero", "C03", "fire", "utils/sigchld.py", "                    returncode = os.WTERMSIG(status)", "                    returncode = 0", "SGc")
v("C03-no-final-raise", "C03", "fire", EX, "            raise failed_task_ops[0].stored_error", "            return", "EX9")
v("C03-rc-lt0", "C03", "fire", RT, "        if handle.returncode != 0:", "        if handle.returncode < 0:", "RT1")
v("C03-twin-in-tuple", "C03", "silent", OP, "        return (\n            self.state == OperationState.SUCCEEDED\n            or self.state == OperationState.SUCCEEDED_CACHED\n        )",
  "        return self.state in (OperationState.SUCCEEDED, OperationState.SUCCEEDED_CACHED)")
# ---- C04
v("C04-le-slots", "C04", "fire", EX, "and len(self._inflight_ops) < self._slots", "and len(self._inflight_ops) <= self._slots", "EX11")
v("C04-drop-parallel-conj", "C04", "fire", EX, "                self._running_parallel\n                and len(self._inflight_ops) < self._slots", "                len(self._inflight_ops) < self._slots", "EX11")
v("C04-no-pop", "C04", "fire", EX, "                    if slot is not None:\n                        self._available_slots.pop()\n", "", "EX14")
v("C04-release-on-success-only", "C04", "fire", EX, "        if handle.slot is not None:\n            self._available_slots.append(handle.slot)", "        if handle.slot is not None and not error_occurred:\n            self._available_slots.append(handle.slot)", "EX14")
v("C04-twin-reorder", "C04", "silent", EX, "                self._running_parallel\n                and len(self._inflight_ops) < self._slots\n                and self._ready_to_run.has_parallelizable_ops()",
  "                self._ready_to_run.has_parallelizable_ops()\n                and self._running_parallel\n                and self._slots > len(self._inflight_ops)")
# ---- C05
v("C05-swap-ancestor", "C05", "fire", RUN, "            elif ctx.git.is_ancestor(\n                curr_commit.hash, candidate_ancestor_hash=version.commit_hash\n            ):", "            elif ctx.git.is_ancestor(\n                version.commit_hash, candidate_ancestor_hash=curr_commit.hash\n            ):", "GIT1")
v("C05-farthest", "C05", "fire", RUN, "if selected_version is None or dist < closest_distance:", "if selected_version is None or dist > closest_distance:", "SEL1")
v("C05-asc", "C05", "fire", Q, "latest_task_version = \"\"\"\n  SELECT\n    timestamp,\n    git_commit_hash,\n    has_uncommitted_changes\n  FROM\n    version_index\n  WHERE task_identifier = ?\n    ORDER BY timestamp DESC", "latest_task_version = \"\"\"\n  SELECT\n    timestamp,\n    git_commit_hash,\n    has_uncommitted_changes\n  FROM\n    version_index\n  WHERE task_identifier = ?\n    ORDER BY timestamp ASC", "SQL1")
v("C05-atleast-eq", "C05", "fire", RUN, "        if self._most_relevant_version.commit_hash == at_least_commit:\n            # No need to re-run. The most relevant version matches `at_least_commit`.\n            return False", "        if self._most_relevant_version.commit_hash == at_least_commit:\n            return True", "ATL1")
v("C05-twin-kwargs", "C05", "silent", RUN, "                dist = ctx.git.get_distance(curr_commit.hash, v.commit_hash)", "                dist = ctx.git.get_distance(ancestor_hash=v.commit_hash, start_hash=curr_commit.hash)")
# ---- C06
v("C06-insert-before-rc", "C06", "fire", RT, "        assert handle.returncode is not None\n        if handle.returncode != 0:", "        if self._version_to_record is not None:\n            ctx.version_index.insert_output_version(self._identifier, self._version_to_record)\n            ctx.version_index.commit_changes()\n        assert handle.returncode is not None\n        if handle.returncode != 0:", "RT1")
v("C06-commit-in-bulk_load", "C06", "fire", VIX, "        cursor.executemany(q.insert_new_version, rows)\n", "        cursor.executemany(q.insert_new_version, rows)\n        self._conn.commit()\n", "RS1")
v("C06-gc-writes-index", "C06", "fire", "cli/gc.py", "    output_path = ctx.output_path\n", "    output_path = ctx.output_path\n    ctx.version_index.commit_changes()\n", "VI1")
# ---- C07
v("C07-env-last", "C07", "fire", RT, "                **os.environ,\n                OUTPUT_ENV_VARIABLE_NAME: str(self._output_path),", "                OUTPUT_ENV_VARIABLE_NAME: str(self._output_path),\n                **os.environ,", "RT3")
v("C07-reversed-deps", "C07", "fire", "task_types/base.py", "        for dep_identifier in self.deps:", "        for dep_identifier in reversed(self.deps):", "DEP1")
v("C07-cwd-root", "C07", "fire", "task_types/base.py", "return pathlib.Path(ctx.project_root, self._identifier.path)", "return pathlib.Path(ctx.project_root)", "RT4")
v("C07-lib-empty", "C07", "fire", "lib/path.py", "    if len(raw_deps) == 0:", "    if raw_deps is None:", "LIB1")
v("C07-twin-not-raw", "C07", "silent", "lib/path.py", "    if len(raw_deps) == 0:", "    if not raw_deps:")
# ---- C08
v("C08-plus0", "C08", "fire", VIX, "        if timestamp == self._last_timestamp:\n            timestamp += 1", "        if timestamp == self._last_timestamp:\n            timestamp += 0", "VI4")
v("C08-min-seed", "C08", "fire", Q, "get_max_timestamp = \"SELECT MAX(timestamp) FROM version_index\"", "get_max_timestamp = \"SELECT MIN(timestamp) FROM version_index\"", "VI5")
v("C08-exist-ok", "C08", "fire", RT, "                parents=True, exist_ok=self._version_to_record is None", "                parents=True, exist_ok=True", "RT6")
v("C08-dirs-exist-ok", "C08", "fire", "cli/restore.py", "shutil.copytree(src_task_path, dest_task_path)", "shutil.copytree(src_task_path, dest_task_path, dirs_exist_ok=True)", "RS2")
v("C08-twin-max", "C08", "silent", VIX, "        if timestamp == self._last_timestamp:\n            timestamp += 1\n        elif timestamp < self._last_timestamp:\n            timestamp = self._last_timestamp + 1\n", "        timestamp = max(timestamp, self._last_timestamp + 1)\n")
# ---- C09
v("C09-drop-popen", "C09", "fire", RT, "            handle.process = process\n", "", "RT10")
v("C09-no-wakeup", "C09", "fire", "utils/sigchld.py", "        os.write(self._write_pipe, b\"\\0\")\n", "", "SG6")
v("C09-reap-once", "C09", "fire", "utils/sigchld.py", "                SigchldHelper.instance()._add_returncode(pid, returncode)\n", "                SigchldHelper.instance()._add_returncode(pid, returncode)\n                break\n", "SG7")
v("C09-foreign-run", "C09", "fire", RT, "        assert handle.returncode is not None\n", "        subprocess.run(['sync'], check=False)\n        assert handle.returncode is not None\n", "SG8")
v("C09-revert-F10", "C09", "fire", "utils/sigchld.py", "        while not select.select([self._read_pipe], [], [], _WAIT_POLL_INTERVAL_S)[0]:\n            pass\n", "", "SG9")
v("C09-unbounded-select", "C09", "fire", "utils/sigchld.py", "select.select([self._read_pipe], [], [], _WAIT_POLL_INTERVAL_S)[0]", "select.select([self._read_pipe], [], [], None)[0]", "SG9")
# ---- C10
v("C10-text-mode", "C10", "fire", "utils/tee.py", "with open(file_name, \"wb\") as file:", "with open(file_name, \"w\") as file:", "TEE1")
v("C10-short-read-exit", "C10", "fire", "utils/tee.py", "                if len(data) == 0:", "                if len(data) < 4096:", "TEE1")
v("C10-swap-logs", "C10", "fire", RT, "                self._output_path / STDOUT_LOG_FILE, record_type\n            )\n            stderr_output = OutputHandler(\n                self._output_path / STDERR_LOG_FILE, record_type", "                self._output_path / STDERR_LOG_FILE, record_type\n            )\n            stderr_output = OutputHandler(\n                self._output_path / STDOUT_LOG_FILE, record_type", "RT9")
v("C10-twin-chunk", "C10", "silent", "utils/tee.py", "data = pipe.read1(4096)", "data = pipe.read1(65536)")
# ---- C11
v("C11-no-commit", "C11", "fire", "cli/archive.py", "        archive_index.commit_changes()\n", "", "AR1")
v("C11-restore-latest", "C11", "fire", "cli/restore.py", "dest=ctx.version_index, tasks=None, latest_only=False", "dest=ctx.version_index, tasks=None, latest_only=True", "RS4")
v("C11-revert-F5", "C11", "fire", "task_types/base.py", "            if curr_identifier in visited:\n                # Already visited through another dependency path.\n                continue\n", "", "W1")
# ---- C12
v("C12-commit-before-copies", "C12", "fire", "cli/restore.py", "        # Copy over all archived task outputs\n", "        ctx.version_index.commit_changes()\n", "RS1")
v("C12-narrow-handler", "C12", "fire", "cli/restore.py", "    except:\n        ctx.version_index.rollback_changes()\n        raise", "    except ConductorError:\n        ctx.version_index.rollback_changes()\n        raise", "RS3")
v("C12-no-rollback", "C12", "fire", "cli/restore.py", "        ctx.version_index.rollback_changes()\n        raise", "        raise", "RS1")
v("C12-twin-baseexception", "C12", "silent", "cli/restore.py", "    except:\n        ctx.version_index.rollback_changes()\n        raise", "    except BaseException:\n        ctx.version_index.rollback_changes()\n        raise")
# ---- C13
v("C13-in-not-in", "C13", "fire", "cli/gc.py", "if (task_identifier, timestamp) not in all_versions:", "if (task_identifier, timestamp) in all_versions:", "GC1")
v("C13-dry-run-deletes", "C13", "fire", "cli/gc.py", "                print(\"Would delete\", to_display(exp_path))", "                print(\"Would delete\", to_display(exp_path))\n                shutil.rmtree(exp_path, ignore_errors=True)", "GC4")
v("C13-follow-symlinks", "C13", "fire", "cli/gc.py", "if inner.is_symlink() or not inner.is_dir():", "if not inner.is_dir():", "GC3")
v("C13-dollar", "C13", "fire", "cli/gc.py", "(?P<timestamp>[1-9][0-9]*)\\Z", "(?P<timestamp>[1-9][0-9]*)$", "RX1")
# ---- C14
v("C14-mark-early", "C14", "fire", TI, "                identifiers_to_load.append((identifier, 1))\n                curr_path.add(identifier)", "                identifiers_to_load.append((identifier, 1))\n                curr_path.add(identifier)\n                visited_identifiers.add(identifier)", "DFS1")
v("C14-no-remove", "C14", "fire", TI, "                    curr_path.remove(identifier)\n", "", "DFS1")
v("C14-swallow-notfound", "C14", "fire", TI, "                except TaskNotFound as e:\n                    raise e.add_extra_context(", "                except TaskNotFound as e:\n                    continue\n                    raise e.add_extra_context(", "DFS2")
v("C14-check-before-load", "C14", "fire", "cli/run.py", "    ctx.task_index.load_transitive_closure(task_identifier)\n\n    if args.check:", "    if args.check:", "RUN1")
# ---- C15
v("C15-no-catch-all", "C15", "fire", "parsing/task_loader.py", "        except Exception as ex:\n            run_err = TaskParseError(error_details=str(ex))\n            run_err.add_file_context(file_path=self._to_project_path(cond_file_path))\n            raise run_err from ex\n", "", "EXC1")
v("C15-valueerror", "C15", "fire", "parsing/validation.py", "                raise UnrecognizedTaskParameters(task_type_name=task_type_name)", "                raise ValueError(task_type_name)", "EXC2")
v("C15-schema-extra", "C15", "fire", "task_types/__init__.py", "        schema={\"name\": str, \"deps\": [str]},\n        defaults={\"deps\": []},\n        full_type=Group,", "        schema={\"name\": str, \"deps\": [str], \"note\": str},\n        defaults={\"deps\": [], \"note\": \"\"},\n        full_type=Group,", "SCH1")
# ---- C16
v("C16-no-terminate", "C16", "fire", EX, "        except ConductorAbort:\n            self._inflight_ops.terminate_processes()\n            elapsed", "        except ConductorAbort:\n            elapsed", "SG5")
v("C16-revert-F8a", "C16", "fire", RT, "        process = None\n        try:", "        try:", "SG3")
v("C16-revert-F8c", "C16", "fire", "parsing/task_loader.py", "        except ConductorError:\n            raise\n        except Exception as ex:\n            run_err = TaskParseError(error_details=str(ex))\n            run_err.add_file_context(\n                file_path=self._to_project_path(include_path)", "        except Exception as ex:\n            run_err = TaskParseError(error_details=str(ex))\n            run_err.add_file_context(\n                file_path=self._to_project_path(include_path)", "SG2")
v("C16-revert-F8d", "C16", "fire", EX, "                    if handle is not None:\n                        # The operation was started but may not have been\n                        # registered yet; make sure it will be terminated.\n                        self._inflight_ops.add_op(handle, next_op)\n", "", "SG4")
v("C16-revert-F11", "C16", "fire", RT, "                try:\n                    group_id = os.getpgid(process.pid)\n                    if group_id >= 0:\n                        os.killpg(group_id, signal.SIGTERM)\n                except OSError as ex:\n                    # The process may have already exited (and been reaped).\n                    if ex.errno != errno.ESRCH and ex.errno != errno.ECHILD:\n                        raise\n", "                group_id = os.getpgid(process.pid)\n                if group_id >= 0:\n                    os.killpg(group_id, signal.SIGTERM)\n", "SG10")
v("C16-assert-in-set_state", "C16", "fire", OP, "    def set_state(self, state: OperationState) -> None:\n        self._state = state", "    def set_state(self, state: OperationState) -> None:\n        assert self.not_yet_executed()\n        self._state = state", "SG10")
# ---- C17
v("C17-relative-out", "C17", "fire", "context.py", "        self._output_path = project_root / OUTPUT_DIR", "        self._output_path = pathlib.Path(OUTPUT_DIR)", "CWD4")
v("C17-revert-F7", "C17", "fire", "cli/gc.py", "        try:\n            return str(path.relative_to(cwd))\n        except ValueError:\n            return str(path)", "        return str(path.relative_to(cwd))", "CWD3")
v("C17-cwd-root", "C17", "fire", "context.py", "            if maybe_config_path.is_file():\n                return cls(project_root=path)", "            if maybe_config_path.is_file():\n                return cls(project_root=here)", "CWD2")
# ---- C18
v("C18-name-by-id", "C18", "fire", "execution/ops/combine_outputs.py", "copy_into = self._output_path / dep_id.name", "copy_into = self._output_path / str(dep_id)", "CB1")
v("C18-unlink-any", "C18", "fire", "execution/ops/combine_outputs.py", "                if copy_into.is_symlink():\n                    copy_into.unlink()\n                else:\n                    # Unexpected - it should be a symlink.\n                    raise CombineOutputFileConflict(output_file=str(copy_into))", "                copy_into.unlink()", "CB1")
v("C15-lineno-arith", "C15", "fire", "parsing/task_loader.py", "                file_path=self._to_project_path(cond_file_path),\n                line_number=ex.lineno,\n            )\n            raise syntax_err from ex",
  "                file_path=self._to_project_path(cond_file_path),\n                line_number=ex.lineno + 0,\n            )\n            raise syntax_err from ex", "EXC3")
v("C15-twin-lineno-guarded", "C15", "silent", "parsing/task_loader.py", "                file_path=self._to_project_path(cond_file_path),\n                line_number=ex.lineno,\n            )\n            raise syntax_err from ex",
  "                file_path=self._to_project_path(cond_file_path),\n                line_number=(ex.lineno + 0 if ex.lineno is not None else None),\n            )\n            raise syntax_err from ex")
# ---- C19
v("C19-seen-set-param-default", "C19", "fire", "task_types/stdlib/run_experiment_group.py", "        seen_experiment_names = set()\n", "        seen_experiment_names = run_experiment_group.__dict__.setdefault(\"_seen\", set())\n", "GRP4")
v("C19-seen-set-in-loop", "C19", "fire", "task_types/stdlib/run_experiment_group.py", "        seen_experiment_names = set()\n        for experiment in experiments:\n", "        for experiment in experiments:\n            seen_experiment_names = set()\n", "GRP4")
v("C19-twin-seen-annotated", "C19", "silent", "task_types/stdlib/run_experiment_group.py", "        seen_experiment_names = set()\n", "        seen_experiment_names: set = set()\n")
v("C19-args-options", "C19", "fire", "task_types/stdlib/run_experiment_group.py", "                args=experiment.args,", "                args=experiment.options,", "GRP1")
v("C19-chain-or", "C19", "fire", "task_types/stdlib/run_experiment_group.py", "if chain_experiments and prev_experiment_identifier is not None:", "if chain_experiments or prev_experiment_identifier is not None:", "GRP1")
# ---- C20
v("C20-dollar", "C20", "fire", "task_identifier.py", "\"^{}\\\\Z\".format(IDENTIFIER_GROUP)", "\"^{}$\".format(IDENTIFIER_GROUP)", "RX1")
v("C20-dot", "C20", "fire", "task_identifier.py", "IDENTIFIER_GROUP = \"[a-zA-Z0-9_-]+\"", "IDENTIFIER_GROUP = \"[a-zA-Z0-9_.-]+\"", "RX1")
v("C20-twin-fullmatch", "C20", "silent", "task_identifier.py", "        return _NAME_REGEX.match(candidate) is not None", "        return _NAME_REGEX.fullmatch(candidate) is not None")

v("C12-tar-status-ignored", "C12", "fire", "cli/restore.py", "        if process.returncode != 0:\n            raise ArchiveFileInvalid", "        if process.returncode < 0:\n            raise ArchiveFileInvalid", "RS4")
v("C12-twin-tar-wait-value", "C12", "silent", "cli/restore.py", "        process.wait()\n        if process.returncode != 0:", "        rc = process.wait()\n        if rc:")
v("C12-twin-commit-guard", "C12", "silent", "execution/version_index.py", "        if not self._conn.in_transaction:\n            return\n        self._conn.commit()", "        if self._conn.in_transaction:\n            self._conn.commit()")
v("C12-commit-guard-inverted", "C12", "fire", "execution/version_index.py", "        if not self._conn.in_transaction:\n            return\n        self._conn.commit()", "        if not self._conn.in_transaction:\n            self._conn.commit()", "VI1")
v("C03-twin-stop-flag-inline", "C03", "silent", "execution/executor.py", "                    should_stop = self._launch_ops_if_able(ctx, stop_on_first_error)\n                    if should_stop:\n                        break", "                    if self._launch_ops_if_able(ctx, stop_on_first_error):\n                        break")
v("C03-stop-flag-ignored", "C03", "fire", "execution/executor.py", "                    should_stop = self._launch_ops_if_able(ctx, stop_on_first_error)\n                    if should_stop:\n                        break", "                    should_stop = self._launch_ops_if_able(ctx, stop_on_first_error)\n                    if should_stop:\n                        pass", "EX10")
v("C09-twin-dict-pop", "C09", "silent", "execution/executor.py", "        handle, task = self._processes[pid]\n        del self._processes[pid]\n", "        handle, task = self._processes.pop(pid)\n")
v("C01-twin-all-loop", "C01", "silent", "execution/ops/operation.py", "        return all(map(lambda task: task.succeeded(), self.exe_deps))", "        for d in self.exe_deps:\n            if not d.succeeded():\n                return False\n        return True")
v("C01-any-loop", "C01", "fire", "execution/ops/operation.py", "        return all(map(lambda task: task.succeeded(), self.exe_deps))", "        for d in self.exe_deps:\n            if d.succeeded():\n                return True\n        return False", "EX4")

v("C10-exp-not-recorded", "C10", "fire", "execution/planning/planner.py", "                        record_output=True,", "                        record_output=False,", "JS1")
v("C10-cmd-serialized", "C10", "fire", "execution/planning/planner.py", "                        serialize_args_options=False,", "                        serialize_args_options=True,", "JS1")
v("C07-twin-memo-get", "C07", "silent", "execution/planning/planner.py", "                if lt.task.identifier in visited:\n", "                if visited.get(lt.task.identifier) is not None:\n")

v("C05-dist-greater", "C05", "fire", "task_types/run.py", "                if selected_version is None or dist < closest_distance:", "                if selected_version is None or dist > closest_distance:", "SEL1")

v("C05-swap-row-columns", "C05", "fire", "execution/version_index.py", "            timestamp=row[0],\n            commit_hash=row[1],", "            timestamp=row[1],\n            commit_hash=row[0],", "VI2")
v("C05-wrong-slice", "C05", "fire", "execution/version_index.py", "            results.append(self._version_from_row(row[1:]))", "            results.append(self._version_from_row(row))", "VI2")


def _run_variant(var) -> Tuple[str, str, str]:
    id_, prop, kind, rel, old, new, rule = var
    src = REPO / "src" / "conductor" / rel
    try:
        text = src.read_text()
    except OSError:
        return (id_, "skipped", "file vanished")
    if text.count(old) != 1:
        return (id_, "skipped", "anchor text occurs %d times" % text.count(old))
    tmp = make_scratch()
    try:
        p = tmp / "src" / "conductor" / rel
        p.write_text(text.replace(old, new))
        try:
            compile(p.read_text(), str(p), "exec")
        except SyntaxError as ex:
            return (id_, "broken", "variant does not compile: %s" % ex)
        env = dict(os.environ, VERIF_REPO=str(tmp), VERIF_EVIDENCE_DIR=str(tmp / "ev"))
        r = subprocess.run([P, "-m", "sa", "check", prop, "--tier", "quick"], cwd=str(REPO.parent / "verif") if False else os.path.dirname(os.path.dirname(os.path.abspath(__file__))),
                           env=env, capture_output=True, text=True)
        out = r.stdout
        if kind == "fire":
            if r.returncode == 1 and (rule is None or any(l.strip().startswith(rule + " ") for l in out.splitlines())):
                return (id_, "ok", "reported by %s" % rule)
            return (id_, "MISSED", "exit %d; expected a %s report; got: %s" % (r.returncode, rule, " | ".join(l.strip()[:80] for l in out.splitlines() if l.startswith("  "))[:300]))
        else:
            if r.returncode == 0:
                return (id_, "ok", "silent")
            return (id_, "FALSE-ALARM", "exit %d: %s" % (r.returncode, " | ".join(l.strip()[:120] for l in out.splitlines() if l.startswith("  ") or "ANALYSIS" in l)[:400]))
    finally:
        drop_scratch(tmp)


# ---------------------------------------------------------------------------
# Patch corpora (unified diffs against /repo, written by independent sub-agents):
#   seeded/<id>/patch.diff        property-breaking change, must be reported by the check of meta["property"]
#   corpus/refactorings/*.diff    behaviour-preserving refactoring, every check must stay silent
VERIF_DIR = os.path.dirname(os.path.dirname(os.path.abspath(__file__)))


def patch_variants(props: Optional[List[str]] = None):
    import glob
    import json
    out = []
    for mp in sorted(glob.glob(os.path.join(VERIF_DIR, "seeded", "*", "meta.json"))):
        try:
            meta = json.load(open(mp))
        except (OSError, ValueError):
            continue
        prop = meta.get("property")
        if props is None or prop in props:
            rules = (meta.get("detected_by") or {}).get(prop) or [None]
            out.append(("seed-" + meta.get("id", os.path.basename(os.path.dirname(mp))), prop, "fire", os.path.join(os.path.dirname(mp), "patch.diff"), rules))
    all_props = sorted(os.path.basename(x)[:-3].upper() for x in glob.glob(os.path.join(VERIF_DIR, "sa", "rules", "c[0-9][0-9].py")))
    for pp in sorted(glob.glob(os.path.join(VERIF_DIR, "corpus", "refactorings", "*.diff"))):
        for prop in (all_props if props is None else props):
            out.append(("refactoring-%s/%s" % (os.path.basename(pp)[:-5], prop), prop, "silent", pp, [None]))
    return out


def _run_patch_variant(var) -> Tuple[str, str, str]:
    id_, prop, kind, patch, rules = var
    tmp = make_scratch()
    try:
        try:
            r = subprocess.run(["patch", "-p1", "-s", "-f", "-d", str(tmp), "-i", patch], capture_output=True, text=True)
        except OSError as ex:
            return (id_, "skipped", "patch(1) unavailable: %s" % ex)
        if r.returncode != 0:
            return (id_, "skipped", "patch no longer applies to the current tree")
        env = dict(os.environ, VERIF_REPO=str(tmp), VERIF_EVIDENCE_DIR=str(tmp / "ev"))
        r = subprocess.run([P, "-m", "sa", "check", prop, "--tier", "quick"], cwd=VERIF_DIR, env=env, capture_output=True, text=True)
        lines = [l.strip() for l in r.stdout.splitlines() if l.startswith("  ") or "ANALYSIS" in l]
        if kind == "fire":
            if r.returncode == 1:
                return (id_, "ok", "reported (%s)" % ",".join(sorted({l.split(" ")[0] for l in lines})))
            return (id_, "MISSED", "exit %d; expected a report by %s" % (r.returncode, rules))
        if r.returncode == 0:
            return (id_, "ok", "silent")
        return (id_, "FALSE-ALARM", "exit %d: %s" % (r.returncode, " | ".join(l[:120] for l in lines)[:400]))
    finally:
        drop_scratch(tmp)


def _run_any(var):
    return _run_patch_variant(var) if len(var) == 5 else _run_variant(var)


def run_selftest(props: Optional[List[str]] = None, jobs: int = 16, quiet=False) -> int:
    todo = [x for x in V if props is None or x[1] in props] + patch_variants(props)
    t0 = time.time()
    results = []
    with cf.ThreadPoolExecutor(max_workers=jobs) as ex:
        for res in ex.map(_run_any, todo):
            results.append(res)
    bad = [r for r in results if r[1] in ("MISSED", "FALSE-ALARM", "broken")]
    skipped = [r for r in results if r[1] == "skipped"]
    if not quiet:
        for r in results:
            if r[1] != "ok":
                print("  variant %-28s %-11s %s" % r)
    print("self-validation: %d variants, %d ok, %d skipped (anchor changed), %d failed, %.1fs" % (
        len(results), sum(1 for r in results if r[1] == "ok"), len(skipped), len(bad), time.time() - t0))
    return 2 if bad else 0


def summary_for(props: List[str], jobs=16) -> Tuple[int, Dict[str, int], List[str]]:
    todo = [x for x in V if x[1] in props] + patch_variants(props)
    results = []
    with cf.ThreadPoolExecutor(max_workers=jobs) as ex:
        for res in ex.map(_run_any, todo):
            results.append(res)
    counts: Dict[str, int] = {}
    for r in results:
        counts[r[1]] = counts.get(r[1], 0) + 1
    bad = ["%s: %s (%s)" % r for r in results if r[1] in ("MISSED", "FALSE-ALARM", "broken")]
    return (2 if bad else 0, counts, bad)
